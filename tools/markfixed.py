"""usage: markfixed.py <property> <commit> <substring of the input class> "<what failed>"
marks the matching open entries of known_findings.json as fixed (fixed entries suppress nothing)"""
import json, sys
pid, commit, sub, what = sys.argv[1:5]
k = json.load(open('/verif/known_findings.json'))
n = 0
for f in k['findings']:
    if f['property'] == pid and f['status'] == 'open' and sub in f['key'].split('|', 1)[1]:
        f['status'] = 'fixed'
        f['commit'] = commit
        f['what'] = f'fixed: property={pid} {commit} {what}'
        n += 1
json.dump(k, open('/verif/known_findings.json', 'w'), indent=1)
print(n, 'entries marked fixed')
