#!/bin/sh
# usage: ingest_seed.sh Cxx  -- take /tmp/wt/Cxx/out/{1,2} (written by a seeding sub-agent) as the next free seeded/Cxx-N,
# confirm each (tools/confirm_seed.sh), remove the sub-agent's scratch worktree, run the property's quick check on each
p="$1"
n=$(ls -d /verif/seeded/$p-* 2>/dev/null | wc -l)
for k in 1 2; do
  [ -f /tmp/wt/$p/out/$k/patch.diff ] || continue
  n=$((n+1)); d=/verif/seeded/$p-$n
  mkdir -p $d; cp /tmp/wt/$p/out/$k/patch.diff /tmp/wt/$p/out/$k/demo.py /tmp/wt/$p/out/$k/meta.json $d/
  sed -i "s#/tmp/wt/$p/src#/repo/src#g" $d/demo.py
  ids="$ids $p-$n"
done
git -C /repo worktree remove --force /tmp/wt/$p 2>/dev/null; rm -rf /tmp/wt/$p
for id in $ids; do /verif/tools/confirm_seed.sh $id 2>&1 | grep -v conda; /verif/tools/seedtest.sh $id 2>&1 | grep -v conda | tail -1 | cut -c1-400; done
