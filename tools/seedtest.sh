#!/bin/sh
# usage: seedtest.sh <seed-id> [property]
# Applies the seeded change in a scratch worktree (outside /repo and /verif), runs the quick check of the
# property against THAT tree (VERIF_REPO) with evidence/replays redirected (VERIF_OUT), removes the worktree.
id="$1"; pid="${2:-$(echo $id | cut -d- -f1)}"
d="/tmp/wt/st-$id-$pid-$$"; out="/tmp/wt/out-$id-$pid-$$"
/verif/tools/mkwt.sh "$d" >/dev/null || exit 3
git -C "$d" apply "/verif/seeded/$id/patch.diff" || { git -C /repo worktree remove --force "$d"; echo "$id: patch does not apply to current /repo HEAD"; exit 2; }
mkdir -p "$out"
cd /verif
VERIF_REPO="$d" VERIF_OUT="$out" ./check "$pid" --tier quick > "$out/log" 2>&1; rc=$?
echo "$id on $pid: exit=$rc; $(grep -c '^VIOLATION' $out/log) VIOLATION line(s): $(grep '^VIOLATION' $out/log | head -3 | sed 's/.*replay=replays.//' | cut -c1-110 | tr '\n' ' ')"
[ -n "$KEEP" ] && echo "kept: $out" || rm -rf "$out"
git -C /repo worktree remove --force "$d"
