#!/bin/sh
# usage: seedtest.sh <seed-id> [property]  -- apply the seeded change to /repo, run the quick check, undo
id="$1"; pid="${2:-$(echo $id | cut -d- -f1)}"
cd /verif
git -C /repo diff --quiet || { echo "/repo is dirty"; exit 3; }
git -C /repo apply "/verif/seeded/$id/patch.diff" || exit 2
./check "$pid" --tier quick > "/tmp/seedtest-$id-$pid.log" 2>&1; rc=$?
git -C /repo checkout -- .
echo "$id on $pid: exit=$rc $(grep -c '^VIOLATION' /tmp/seedtest-$id-$pid.log) violation line(s): $(grep '^VIOLATION' /tmp/seedtest-$id-$pid.log | head -2 | cut -c1-160 | tr '\n' ' ')"
