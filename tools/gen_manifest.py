#!/usr/bin/env python3
"""Generates MANIFEST.json from the table below (kept in one place so it stays schema-valid)."""
import json, os, sys
ROOT = os.path.dirname(os.path.dirname(os.path.abspath(__file__)))
sys.path.insert(0, ROOT)
from tools.manifest_table import CHECKS, NOT_APPLICABLE  # noqa

man = {
    "version": 1,
    "setup_cmd": "./setup.sh",
    "hooks": {
        "guard": "RSATOOLBOX_VERIF",
        "enable": "no hooks: all contracts, proxies and monitors are sidecars applied from the checker process; /repo is read (ast) and imported unmodified",
        "baseline_off_cmd": "cd /repo && /venv/bin/python -m pytest -ra -q -p no:cacheprovider --timeout=900 --continue-on-collection-errors",
        "source_commits": [],
        "add_only": True,
    },
    "engines": [
        {"name": "pyvc", "path": "vf/pyvc", "serves_properties": sorted({c['property_id'] for c in CHECKS}),
         "kind_free_text": "engine A: symbolic execution of the real source AST (re-read every run) into z3 obligations against sidecar contracts; map/fold loop summaries; havoc for RNG"},
        {"name": "symrun", "path": "vf/symrun", "serves_properties": [],
         "kind_free_text": "engine B: real functions executed on sympy object arrays (all reals, bounded shapes)"},
        {"name": "rtcheck", "path": "vf/rt", "serves_properties": [],
         "kind_free_text": "engine C: run-time contracts + spec-function oracles on bounded domains (bounded stand-in, never counted as proved)"},
    ],
    "checks": CHECKS,
    "not_applicable": NOT_APPLICABLE,
    "notes": "See DESIGN.md. Exit codes of ./check: 0 held, 1 violation (VIOLATION line), 2 undecided, 3 checker crash.",
}
json.dump(man, open(os.path.join(ROOT, 'MANIFEST.json'), 'w'), indent=1)
import jsonschema
jsonschema.validate(man, json.load(open('/root/.vp/MANIFEST.schema.json')))
ids = [c['property_id'] for c in CHECKS] + [n['property_id'] for n in NOT_APPLICABLE]
allp = [json.loads(l)['id'] for l in open(os.path.join(ROOT, 'properties.jsonl'))]
assert sorted(ids) == sorted(allp), (sorted(set(allp) - set(ids)), [i for i in ids if ids.count(i) > 1])
print('MANIFEST ok:', len(CHECKS), 'checks,', len(NOT_APPLICABLE), 'not applicable')
