#!/bin/sh
# usage: confirm_seed.sh <seed-id>   e.g. C05-1
# Confirms in a scratch worktree (outside /repo and /verif) that the seeded change (a) applies,
# (b) keeps the baseline test result (340 passed), (c) makes its demo fail, and that the demo passes without it.
id="$1"; d="/tmp/wt/confirm-$id"; s="/verif/seeded/$id"
rm -rf "$d"; /verif/tools/mkwt.sh "$d" >/dev/null || exit 3
cd "$d" || exit 3
export PYTHONPATH="$d/src" MPLBACKEND=Agg
/venv/bin/python "$s/demo.py" > "$d/demo_clean.log" 2>&1; rc_clean=$?
git apply "$s/patch.diff" || { echo "$id: patch does not apply"; git -C /repo worktree remove --force "$d"; exit 2; }
/venv/bin/python "$s/demo.py" > "$d/demo_patched.log" 2>&1; rc_patched=$?
/venv/bin/python -m pytest -q -p no:cacheprovider --timeout=900 -x --co -q tests >/dev/null 2>&1
res=$(/venv/bin/python -m pytest -q -p no:cacheprovider --timeout=900 tests 2>&1 | tail -1)
passed=$(echo "$res" | sed -n 's/.* \([0-9]*\) passed.*/\1/p')
echo "$id: demo_clean_rc=$rc_clean demo_patched_rc=$rc_patched tests: $res"
python3 - "$s/meta.json" "$rc_clean" "$rc_patched" "$passed" "$res" <<'PY'
import json,sys
p,rc,rp,passed,res=sys.argv[1:6]
m=json.load(open(p))
m['confirmed']={'demo_rc_unpatched':int(rc),'demo_rc_patched':int(rp),'tests_passed_with_patch':int(passed or -1),
                'pytest_tail':res,'how':'tools/confirm_seed.sh in a scratch worktree under /tmp/wt (removed afterwards)',
                'ok': int(rc)==0 and int(rp)!=0 and (passed=='340')}
json.dump(m,open(p,'w'),indent=1)
PY
cd /; git -C /repo worktree remove --force "$d"
