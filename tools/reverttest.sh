#!/bin/sh
# usage: reverttest.sh <commit> <property> -- re-introduce a repaired defect in a scratch worktree and run the quick check
c="$1"; pid="$2"; d="/tmp/wt/rv-$c-$pid-$$"; out="/tmp/wt/rvout-$c-$pid-$$"
/verif/tools/mkwt.sh "$d" >/dev/null || exit 3
(cd "$d" && git show "$c" | git apply -R) || { git -C /repo worktree remove --force "$d"; echo "cannot revert $c"; exit 2; }
mkdir -p "$out"; cd /verif
VERIF_REPO="$d" VERIF_OUT="$out" ./check "$pid" --tier quick > "$out/log" 2>&1; rc=$?
echo "revert $c on $pid: exit=$rc; $(grep -c '^VIOLATION' $out/log) VIOLATION line(s): $(grep '^VIOLATION' $out/log | head -4 | sed 's/.*replay=replays.//' | cut -c1-120 | tr '\n' ' ')"
rm -rf "$out"; git -C /repo worktree remove --force "$d"
