#!/usr/bin/env python3
"""driver for the bounded tier of one property:  .venv/bin/python tools/run_c.py Cxx [--thorough] [--replay file]"""
import importlib, os, sys, time, traceback
ROOT = os.path.dirname(os.path.dirname(os.path.abspath(__file__)))
sys.path.insert(0, ROOT)
sys.path.insert(0, os.path.join(os.environ.get('VERIF_REPO', '/repo'), 'src'))
os.environ.setdefault('MPLBACKEND', 'Agg')
from vf.report import Run
from vf.rt.harness import replay_file

pid = sys.argv[1]
mod = importlib.import_module(f'contracts.{pid}_c')
if '--replay' in sys.argv:
    sys.exit(replay_file(sys.argv[sys.argv.index('--replay') + 1]))
thorough = '--thorough' in sys.argv
run = Run(pid, 'thorough' if thorough else 'quick', int(os.environ.get('VERIF_SEED', '0') or 0))
t0 = time.time()
try:
    bds = mod.tier_c(run, thorough)
except Exception as e:
    traceback.print_exc()
    run.crashed = f'{type(e).__name__}: {e}'
    bds = []
for b in run.bounded:
    print(f"  {b['name']}: evaluations={b['evaluations']} distinct={b['distinct_nontrivial']} failures={b['failures']} exhaustive={b['exhaustive']}")
print(f'tier C of {pid}: {time.time()-t0:.1f}s, violations={len(run.violations)}, known={len(run.known_hits)}')
for v in run.violations:
    print('   VIOL', v['key'], '--', v['what'][:200])
sys.exit(3 if run.crashed else (1 if run.violations else 0))
