#!/bin/sh
# usage: seedtest_c.sh <seed-id> [property]   -- like seedtest.sh but runs only the bounded tier (tools/run_c.py)
id="$1"; pid="${2:-$(echo $id | cut -d- -f1)}"
d="/tmp/wt/stc-$id-$pid-$$"; out="/tmp/wt/outc-$id-$pid-$$"
/verif/tools/mkwt.sh "$d" >/dev/null || exit 3
git -C "$d" apply "/verif/seeded/$id/patch.diff" || { git -C /repo worktree remove --force "$d"; echo "$id: patch does not apply"; exit 2; }
mkdir -p "$out"; cd /verif
VERIF_REPO="$d" VERIF_OUT="$out" PYTHONPATH="$d/src:/verif" .venv/bin/python tools/run_c.py "$pid" > "$out/log" 2>&1; rc=$?
echo "$id on tier C of $pid: exit=$rc (1 = detected)"; grep "VIOL\|tier C of" "$out/log" | head -8
rm -rf "$out"; git -C /repo worktree remove --force "$d"
