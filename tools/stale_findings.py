#!/usr/bin/env python3
"""usage: stale_findings.py <log> [<log> ...]   -- logs of ./check runs (quick AND thorough of the same tree).
Lists OPEN entries of known_findings.json that none of the runs reported (candidates for `fixed`: an open entry suppresses a
violation, so entries that no longer fire must not stay open) and VIOLATION / UNDECIDED lines found in the logs."""
import fnmatch, json, re, sys
seen = set()
bad = []
for path in sys.argv[1:]:
    for l in open(path, errors='replace'):
        m = re.match(r'KNOWN-FINDING: property=(\S+) (\S+?\|.*?) -- ', l)
        if m:
            seen.add((m.group(1), m.group(2)))
        elif l.startswith(('VIOLATION', 'UNDECIDED', 'CHECKER-CRASH')):
            bad.append(f'{path}: {l.strip()[:160]}')
k = json.load(open('/verif/known_findings.json'))
stale = []
for f in k['findings']:
    if f['status'] != 'open':
        continue
    if not any(p == f['property'] and (key == f['key'] or fnmatch.fnmatchcase(key, f['key'])) for p, key in seen):
        stale.append(f'{f["property"]} {f["key"]}')
print(f'{len(seen)} distinct known-finding keys reported; open entries never reported: {len(stale)}')
for s in stale:
    print('  STALE?', s)
for b in bad:
    print('  ', b)
