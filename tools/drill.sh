#!/bin/sh
# false-alarm drill: every drills/harmless_*.diff is a refactor that keeps the property; the named check must stay green
cd /verif
for f in drills/harmless_*.diff; do
  pid=$(head -1 "$f.pid" 2>/dev/null || echo C05)
  d="/tmp/wt/drill-$$"; /verif/tools/mkwt.sh "$d" >/dev/null
  git -C "$d" apply "/verif/$f" || { echo "$f does not apply"; git -C /repo worktree remove --force "$d"; continue; }
  VERIF_REPO="$d" VERIF_OUT="/tmp/wt/drillout-$$" ./check "$pid" --tier quick > "/tmp/wt/drill-$$.log" 2>&1; rc=$?
  echo "$f on $pid: exit=$rc (0 expected)"
  git -C /repo worktree remove --force "$d"; rm -rf "/tmp/wt/drillout-$$" "/tmp/wt/drill-$$.log"
done
