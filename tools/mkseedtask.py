"""usage: mkseedtask.py Cxx  -- scratch worktree /tmp/wt/Cxx + TASK.md (property text only; functions already mutated by
earlier seeds are named so that a new round studies other mechanisms)"""
import json, sys, glob, subprocess, os
pid = sys.argv[1]
d = f'/tmp/wt/{pid}'
subprocess.run(['rm', '-rf', d]); subprocess.run(['/verif/tools/mkwt.sh', d], check=True, stdout=subprocess.DEVNULL)
prop = [json.loads(l) for l in open('/verif/properties.jsonl') if json.loads(l)['id'] == pid][0]
text = json.dumps({k: prop[k] for k in ('id', 'title', 'statement', 'quantifier', 'anchors') if k in prop}, indent=1)
done = sorted({f for m in glob.glob(f'/verif/seeded/{pid}-*/meta.json') for f in json.load(open(m)).get('functions_touched', [])})
avoid = ('\nOther people already studied changes to these functions; pick DIFFERENT functions / mechanisms of the property: '
         + ', '.join(done) + '\n') if done else ''
t = open('/verif/tools/SEED_BRIEF.md').read().replace('@ID@', pid).replace('@PROP@', text).replace('@AVOID@', avoid)
open(f'{d}/TASK.md', 'w').write(t)
print(d, len(done))
