#!/bin/sh
# usage: mkwt.sh <dir>  -- scratch git worktree of /repo HEAD (+ untracked compiled kernel) outside /repo and /verif
set -e
d="$1"
git -C /repo worktree add --detach "$d" HEAD >/dev/null 2>&1
cp /repo/src/rsatoolbox/cengine/similarity.c /repo/src/rsatoolbox/cengine/similarity.cpython-312-x86_64-linux-gnu.so "$d/src/rsatoolbox/cengine/"
echo "$d"
