"""Per-property MANIFEST entries. A property is listed under CHECKS only once its check is built and validated."""

def chk(pid, category, text, note, technique, design_ref):
    return {
        "property_id": pid,
        "quick_cmd": f"./check {pid} --tier quick",
        "thorough_cmd": f"./check {pid} --tier thorough",
        "evidence_file": f"evidence/{pid}.json",
        "replay_cmd_template": f"./check {pid} --replay {{path}}",
        "engine": "pyvc",
        "level_claimed": {"category": category, "text": text, "design_ref": design_ref},
        "level_note": note,
        "technique": technique,
    }

CHECKS = [
    chk("C05", "proof",
        "(Also discharged in this run, as callee contracts the generators and the cross-validation rely on: RDMs.subset selects exactly the RDMs carrying a requested value -- also on resampled objects whose index has repeats and gaps -- and _internal_cv builds its folds from sets_k_fold with the caller's rdm and pattern descriptors.) Engine A symbolically executes the real AST of sets_k_fold_pattern, sets_k_fold_rdm, sets_leave_one_out_pattern/_rdm and "
        "sets_of_k_pattern/_rdm (re-read from /repo on every run) and z3 discharges, for all numbers of groups, all k, both "
        "k=None/int and every shuffle permutation (havoc): test/train subsets of the groups, train-test disjointness, train = complement, "
        "folds pairwise disjoint, every group in some test fold, fold sizes differ by <= 1, returned objects are exactly the "
        "advertised selections, ceil-set shape, call-site conformance of the of_k wrappers; the crossval contract shared with C04 proves that "
        "the fitter of a fold sees the training object only. The two-factor generators (sets_k_fold, sets_random) and the perturbation "
        "form of the non-interference clause are decided by bounded run-time oracles only (labelled bounded in the evidence, never "
        "counted as proved; list- and ndarray-typed descriptors, source object checked intact).",
        "Assumed: library contracts of np.unique/arange/floor/concatenate/setdiff1d/shuffle (listed in evidence trusted_base); "
        "RDMs.subset/subsample are uninterpreted selections at these call sites (their bodies are under contract in C10 / C09), "
        "subset_pattern/subsample_pattern are uninterpreted (bounded tiers of C09/C10); "
        "mathematical integers; exact small-integer floats. Bounded part: n_rdm<=6, n_cond<=8, stated in evidence.",
        "contract-based deductive verification: ast->z3 VC generation on the real source (map-loop summaries, havoc RNG), external z3 portfolio; bounded run-time oracles as stand-in for the rest",
        "DESIGN.md C05"),
    chk("C14", "other",
        "Engine A proves for all inputs, on the real AST of data/noise.py: dof of 2-D residuals = n-1 and of the (conditions x channels x "
        "repetitions) tensor = observations - conditions; cov_from_unbalanced estimates residuals around per-condition means with dof = "
        "n_obs - #conditions; every list branch of cov_from_residuals/measurements/unbalanced returns element i = single-input estimate of "
        "element i with dof None / dof / dof[i]; every prec_from_* returns inv(cov) per element for list, 3-D and 2-D covariances. Engine B "
        "(real functions on sympy object arrays) proves full = Xc'Xc/dof, diag = its diagonal, symmetry and measurement-based = unbalanced "
        "for all real values at small shapes. Engine A also proves for all inputs that the shrinkage factor of _covariance_diag lies in [0,1] and leaves the diagonal untouched, and that _covariance_eye returns either the sample covariance or (w1 * m I + w2 * s) * n / dof with the equal-trace target m = trace(s)/p, w1 + w2 = 1 and 0 <= w1 <= 1 (b2 capped by d2; non-negativity of b2 and d2 from two Lean/Mathlib lemmas -- mean of squares >= square of the mean, sums of squares >= 0 -- linked to the code by structural obligations). PSD / numeric inverse / typed data / extreme units are bounded run-time oracle "
        "checks (not counted as proved).",
        "Assumed: np.linalg.inv, np.mean, einsum as uninterpreted/pure; get_unique_inverse contract (bounded oracle); reals for floats; "
        "engine-B proxy overrides listed in evidence. Bounded: shapes <= 4x3 (B), n<=12,p<=8 (C).",
        "contract-based deductive verification (ast->z3 on real source) + symbolic execution of the real functions on sympy arrays + bounded oracles",
        "DESIGN.md C14"),
    chk("C04", "proof",
        "Engine A symbolically executes the real AST of eval_bootstrap, eval_bootstrap_pattern, eval_bootstrap_rdm, crossval and eval_fixed "
        "with every random draw HAVOCed (an arbitrary outcome per call instance, indexed by the loop counter) and all loops summarised at a "
        "Skolem index (any N, any number of models / folds). z3 discharges, for all inputs: evaluations[i,j] = mean(compare(subsample_pattern("
        "predict_rdm(m_j,theta_j), pd, P_i), S_i, method)) for the i-th draw (S_i,P_i), NaN exactly when the draw has < 3 distinct condition "
        "groups; ceilings are boot_noise_ceiling of the same resample; variances = np.cov over the isfinite-masked rows (with ceiling rows); "
        "dof = resampled descriptor groups - 1 (min of both); crossval row f = compare(prediction fitted by fitter_j on train_f ONLY with "
        "method/pattern_idx/pattern_descriptor, subsampled to test_f, test_f data), NaN row for unusable folds, (1, models, folds) layout; "
        "eval_fixed rows, cov(ddof=0)/n_rdm, dof n_rdm-1; all Result fields. Bootstrap-wrapped cross-validation is under contract too "
        "(nested symbolic loops over draws and repetitions, havoc fold generators): _internal_cv evaluates exactly the folds of "
        "sets_k_fold(sample, caller's descriptors / fold counts, random=True) with indices expanded to the bootstrap multiplicities, the "
        "ceiling of those folds (leave-one-GROUP-out with the caller's rdm_descriptor when nothing is cross-validated), caller's method / "
        "fitter / pattern_descriptor; bootstrap_crossval, eval_dual_bootstrap (three cross-validations per draw and repetition) and "
        "eval_dual_bootstrap_random store, per draw with enough distinct groups, exactly that result and its ceiling (NaN otherwise), dof / "
        "cv_method by boot_type. The n_cv variance projection, crossval with fitter=None and reproducibility across processes are "
        "decided by the bounded tier only.",
        "compare, predict_rdm, subsample_pattern, boot/cv_noise_ceiling, np.cov/mean/isfinite are uninterpreted pure functions (their own "
        "contracts are C03/C07/C08/C09); Result.__init__ is a record constructor; samplers are havoc (C09); reals for floats.",
        "contract-based deductive verification: ast->z3 on the real source, EUF term equality with havoc RNG and Skolemised loop summaries",
        "DESIGN.md C04"),
    chk('C01', 'other',
        'Callee contract discharged in this run on the real source: get_unique_inverse / get_unique_unsorted return the distinct labels in order of first appearance and, for every entry, the index of its own label (11 obligations; numpy contracts of np.unique(return_index, return_inverse) and argsort assumed). Engine A proves for all inputs the option/noise plumbing of calc_rdm and calc_rdm_movie (list branch: movie i with EVERY option forwarded; single dataset: frame t = calc_rdm / calc_rdm_unbalanced of time part t of the optionally binned data with every estimator option forwarded, frames stacked by concat and labelled with the time values and the method): in the list branch RDM i is calc_rdm(dataset[i]) with EVERY option forwarded (noise, noise[i]), combined by from_partials/concat; single-dataset dispatch passes each method its options; alphabetical re-sort exactly when a descriptor is given; unknown methods raise. Engine B runs the real calc_rdm on sympy object arrays and proves the euclidean / correlation / mahalanobis (symbolic precision LL^T) / poisson (symbolic prior) formulas on condition means for all real data at small designs incl. unbalanced ones, int and str labels, remove_mean. Movie values, invariances, multi-step sequences, descriptors: bounded oracle tier.',
        'estimators, _build_rdms, from_partials, concat, sort_by are uninterpreted in A (own contracts under C10/bounded tier); B: numpy proxy overrides listed in evidence; shapes bounded (stated)',
        'contract-based deductive verification: sidecar contracts on the real functions, ast->z3 VC generation on the real source (re-read every run), external z3 portfolio + symbolic execution of the real functions on sympy arrays (engine B) + bounded run-time oracles',
        'DESIGN.md C01'),
    chk('C02', 'other',
        'Engine A proves that calc_rdm hands a single dataset to calc_rdm_crossnobis / calc_rdm_poisson_cv with EXACTLY the caller\'s options (any value, also 0 / None / False) and discharges the callee contract of the fold selection helper bool_index (a flag exactly where the descriptor has a requested value). Engine B executes the real calc_rdm_crossnobis / calc_rdm_poisson_cv on sympy object arrays (only the module-global np is proxied) and decides by normal form, for ALL real data at each listed fold-balanced design (C<=3, M<=3, R<=2; three row orders; int/str folds): value = mean over ordered pairs of distinct folds of the between-fold bilinear form / P, with identity, one symbolic symmetric precision, one precision per fold (pair precision = inverse of the averaged covariances), remove_mean on both sides, regularised log rates for poisson_cv. Refutations are replayed on the unpatched function with floats. Larger designs, invariances, default fold descriptor: bounded oracle tier.',
        'bounded in shape (designs listed in evidence); floats as reals; np.linalg.inv / log proxies assumed; average_dataset_by / sort_by executed for real (not assumed)',
        'symbolic execution of the real functions on sympy object arrays with spec identities decided by normal form (bounded shapes, all real values) + bounded run-time oracles',
        'DESIGN.md C02'),
    chk('C03', 'other',
        "Engine B now also proves the correlation formula (cosine of the centred vectors) for all values whose centred vectors do not vanish (the zero-norm branch is decided at a generic point, recorded). Engine A proves compare()'s dispatch table (method -> measure, sigma_k forwarded to exactly the whitened/Riemannian measures, unknown -> ValueError) and the (i,j) pairing of _all_combinations for all stack sizes; z3 proves the tau-a counting identity and the clamp lemma; engine B proves the cosine formula and (i,j) placement on symbolic positive stacks. Every measure against its literal definition (rank measures exhaustively over weak orders of <= 5-6 entries, whitened measures against a literal V, Bures via sqrtm), symmetry, range, permutation invariance, input forms: bounded oracle tier.",
        'compare_* bodies (einsum/eigh/kendall/cg) are not symbolically executed except cosine; scipy internals assumed; bounded tier sizes in evidence',
        'contract-based deductive verification: sidecar contracts on the real functions, ast->z3 VC generation on the real source (re-read every run), external z3 portfolio + engine B + bounded run-time oracles',
        'DESIGN.md C03'),
    chk('C06', 'other',
        'Engine A + z3 (NRA) prove on the real _dual_bootstrap (per entry, np.maximum/minimum element-wise) for ALL real variances and counts > 1: result <= two-factor variance, >= each (corrected) single-factor variance that is itself below it, >= 0; _correct_1d applies exactly n/(n-1) with n = min / the one given / none. Engine B runs the real extract_variances (with pairwise_contrast and _correct_1d) on SYMBOLIC variance vectors / covariance matrices (2-4 models, with / without ceiling columns, 5 count settings) and proves for all real entries: model variance = diagonal, pair variance = var_i + var_j - 2 cov_ij in pairwise-contrast order, model-vs-ceiling variance = var_i + var_nc - 2 cov_i,nc, each times n/(n-1). Lemma layer: two-sided t p-values lie in [0,1], are symmetric with unit diagonal and monotone in |t| over the assumed cdf contract; bootstrap pair p in [1/N,1]. Classical t identities for eval_fixed, NaN-aware means, rank-sum / bootstrap tests, equivariance: bounded oracle tier.',
        'scipy.stats.t.cdf assumed monotone with cdf(0)=1/2; the 3-D (dual bootstrap) branch of extract_variances is decided by the bounded tier; engine-B proxy overrides in evidence',
        'contract-based deductive verification: sidecar contracts on the real functions, ast->z3 VC generation on the real source (re-read every run), external z3 portfolio + z3 lemma layer + bounded run-time oracles',
        'DESIGN.md C06'),
    chk('C07', 'other',
        'Engine B proves, for all real dissimilarities at small shapes and with a commonly missing entry, that both pool_rdm functions return the mean of the data vectors (euclid) resp. of the vectors normalised to unit RMS over their available entries (cosine) -- the pooling contract the Lean lemmas are stated over. Callee contracts discharged here too: the leave-one-out generators (C05) and RDMs.subsample (C09). Engine A proves the leave-one-group-out dataflow of boot_noise_ceiling (fold i compares group i with pool_rdm of the OTHER groups / of all) and of cv_noise_ceiling (pooled ceil_set[f] resp. all RDMs at the test conditions vs test_f), both plain means over folds, for all inputs; _nan_rank_data (rank pooling for spearman / rho-a: ranks among the non-missing entries, missing stay missing). Lean 4 + Mathlib lemma pooled_optimal: for unit vectors the sum direction maximises the mean cosine (hence no candidate beats the pooled RDM under the pooling contract), cos_scale_invariant. Pooling formula, rho-a optimality by exhaustive enumeration of weak orders, lower <= upper, invariances, missing entries: bounded oracle tier.',
        'pool_rdm / compare uninterpreted in A; the Lean lemmas are stated over the pooling contract (mean of normalised vectors), which is checked only by the bounded tier; sets_leave_one_out_rdm contract from C05',
        'contract-based deductive verification: sidecar contracts on the real functions, ast->z3 VC generation on the real source (re-read every run), external z3 portfolio + Lean/Mathlib lemma layer + bounded run-time oracles',
        'DESIGN.md C07'),
    chk('C08', 'exploration',
        'Optimality of the fitters depends on BFGS / Brent / active-set convergence and is decided by bounded competitor search (random directions, local perturbations, grids, independently computed (NN)LS optimum, KKT certificate), labelled bounded. Deductive part: engine A proves by EUF non-interference that fit_regress / fit_regress_nn use the model ONLY through rdm_obj.subsample_pattern(pattern_descriptor, pattern_idx) (or the full rdm_obj) and the data only through pool_rdm(data, method, sigma_k); and for fit_select that the returned index is np.argmax over ALL candidates i of mean(compare(candidate i [restricted to the selected conditions], the training RDMs as given, method, the sigma_k of the caller)).',
        'optimiser convergence cannot be proved in this family; open findings listed in known_findings.json (F1/F2/F5 repaired in /repo)',
        'bounded run-time oracles with competitor search (stand-in) + EUF non-interference obligations from ast->z3 on the real fitters',
        'DESIGN.md C08'),
    chk('C09', 'other',
        'Engine A proves for EVERY outcome of np.random.randint (havoc) that each sampler draws as many group values as there are distinct groups over the full range [0,#groups), every returned index is a group value, and the sample is exactly subsample / subsample_pattern of the source with the RETURNED indices. The body of RDMs.subsample is under contract: its nested loops are summarised as a concatenation of filters and z3 discharges, for ALL descriptor columns (duplicates allowed) and ALL value lists / scalars: every sampled RDM carries a drawn value, every RDM of a drawn group is present, one block per draw in draw order with each member once in source order (structural; gives the exact multiplicity), dissimilarity rows and EVERY rdm descriptor gathered by the same index sequence, other fields those of the source. NaN placement and order agreement of subsample_pattern are decided by the bounded tier that ENUMERATES all draw vectors for n_rdm<=4, n_cond<=5.',
        "uniformity of numpy's generator is an assumed contract (only a smoke test); subsample_pattern uninterpreted in A; generic-key argument for descriptor dictionaries (two generic columns stand for any key set: the code treats keys uniformly); fancy indexing arr[idx, :] is an uninterpreted gather",
        'contract-based deductive verification: sidecar contracts on the real functions, ast->z3 VC generation on the real source (re-read every run), external z3 portfolio with havoc for RNG + exhaustive bounded enumeration of draws',
        'DESIGN.md C09'),
    chk('C10', 'other',
        'Lemma layer (z3): the condensed index is a bijection onto [0,n(n-1)/2) increasing in lexicographic order, row offsets, order-isomorphism of kept pairs under a monotone re-indexing. Engine A: the number of conditions is recovered from the vector length for EVERY size (both helpers; exact sqrt/ceil below 2^52 assumed); bool_index / num_index select exactly the entries with a requested value (scalar or list), each once, in original order; extract_dict / subset_descriptor gather every column by the given index sequence and leave the source dictionary alone; RDMs.subset keeps exactly the RDMs with a requested value in source order and gathers dissimilarity rows and every rdm descriptor by that one selection -- for all descriptor columns, values and index sequences. Per-operation behaviour against an abstract view with ghost ids (exhaustive short sequences, seeded long histories, concat / from_partials / permute_rdms domains): bounded oracle tier.',
        'subset_pattern / subsample_pattern / reorder / concat / from_partials are not symbolically executed (bounded tier); library models np.where / np.any(axis=0) / array==scalar; 4 open defect classes in known_findings.json',
        'contract-based deductive verification: ast->z3 VC generation on the real selection helpers and RDMs.subset (filter summaries of conditional loops), z3 lemma layer, + model-based bounded histories',
        'DESIGN.md C10'),
    chk('C11', 'other',
        'Callee contract discharged in this run on the real source: get_unique_inverse / get_unique_unsorted return the distinct labels in order of first appearance and, for every entry, the index of its own label (11 obligations; numpy contracts of np.unique(return_index, return_inverse) and argsort assumed). Engine A proves for all inputs that Dataset/TemporalDataset.sort_by gather the measurement rows and every obs descriptor by ONE stable argsort of the key and leave the other descriptors alone, that subset_obs / subset_channel select measurements and the matching descriptors by ONE descriptor selection and pass the rest through, and that split_obs / split_channel (both classes) and split_time return one part per distinct value, part p holding exactly the items whose value is the p-th distinct value, each once, in original order (so the parts PARTITION the split axis), measurements and the split descriptors gathered by that one selection, everything else passed through; bin_time: slice t is the mean over exactly the time points whose value is a member of bins[t]. Merges, conversions, DataFrame round trip, histories against an abstract view with ghost ids: bounded oracle tier.',
        'num_index / subset_descriptor uninterpreted at these call sites (their bodies are under contract in C10); argsort(kind=stable) assumed; get_unique_inverse / get_unique_unsorted modelled as (distinct values in order of first appearance, position of each value) -- bounded oracle K8; all findings repaired',
        'contract-based deductive verification: sidecar contracts on the real functions, ast->z3 VC generation on the real source (re-read every run), external z3 portfolio + model-based bounded histories',
        'DESIGN.md C11'),
    chk('C12', 'other',
        'Static frame analysis of the real AST (flow-sensitive may-alias with bottom-up callee summaries) proves for the public callables without any may-store that no statement can store into memory reachable from an argument (146 of 223). The callables with may-store alarms and the whole independence (aliasing) clause are decided dynamically by the bounded fingerprint tier over the introspected public API; the 378 currently violating (function, aliasing kind) pairs are listed individually as known findings so that any new one is reported.',
        'alias/copy classification table of numpy/stdlib operations; method calls resolved by name; property is widely violated on the unchanged tree (known findings)',
        'static frame/alias analysis on the real source (frame conditions) + bounded fingerprint oracles over the introspected API',
        'DESIGN.md C12'),
    chk('C13', 'other',
        'Engine B proves the central clause for all positive real values at small shapes: compare() of stacks in which the same entries are missing equals the measure of the entry-deleted vectors (cosine, correlation). Engine A proves for all inputs that both NaN parsers (_parse_nan_vectors, compare._parse_input_rdms; arrays and RDMs) return normally ONLY if every row of both inputs has the mask of row 0 of the first, select by that mask, and raise ValueError otherwise. Engine B runs the real combine._mean on symbolic dissimilarities and symbolic positive weights with EVERY subset of RDMs missing for some pair (stacks of 2-3 RDMs; unweighted, one weight per RDM as array or descriptor name, one weight per entry) and proves for all real values: mean_j = sum over available r of w_rj x_rj / sum over available r of w_rj, NaN exactly where no RDM has a value, the weights of the caller untouched. Entry-deleted equality for every measure and sigma_k, pooling, noise ceilings, regression, rescale: bounded oracle tier.',
        'np.isnan / np.all uninterpreted; conjugate-gradient tolerance 1e-4 for whitened measures; 1 open finding (rescale default threshold)',
        'contract-based deductive verification: sidecar contracts on the real functions, ast->z3 VC generation on the real source (re-read every run), external z3 portfolio + bounded run-time oracles',
        'DESIGN.md C13'),
    chk('C15', 'other',
        "Engine X (light): the index arithmetic of the Cython kernel `calc` is extracted mechanically from the current similarity.pyx text on every run and proved in z3: every accumulator index lies inside the malloc'ed buffers (memory safety of values/weights), cross pairs go to n + condensed index (the squareform order the Python side assumes), C division operands are non-negative, buffer size n + n(n-1)/2; the `1 / 2` self-pair weight is shown to be integer 0 (open finding). A text comparison checks that similarity.c was generated from the verified .pyx lines. All numerical clauses on the installed binary: bounded oracle tier.",
        'extraction drops: types, memoryviews/strides, refcounts, GIL, BLAS; Cython->C translation and the .so build are assumed; kernel defects cannot be repaired here (no Cython)',
        'mechanical extraction of kernel expressions + z3 obligations (C semantics stated) + bounded run-time oracles on the binary',
        'DESIGN.md C15'),
    chk('C16', 'exploration',
        "File formats depend on h5py / pickle: real round trips in temporary directories for all object kinds, formats, targets, overwrite modes and post-history objects are bounded run-time oracles. Deductive part: engine A proves the TOTALITY of the HDF5 writer _write_to_group on the real AST per admitted value type (str, ndarray, list, dict, nested dict, None, int, float, bool, tuples): exactly one store under the entry's key, nothing silently dropped; and on RDMs.to_dict / rdms_from_dict that every field of the dictionary form (dissimilarities, measure, descriptors, rdm / pattern descriptors) is the object's own field and is handed to the constructor under the same name (27 obligations). Bounded tier after the dimension sweeps: typed arrays, full-precision and extreme values, 25 further descriptor kinds, path spellings, existing files of every kind, call sequences, a second interpreter with another hash seed.",
        "h5py, pickle assumed; 2 open findings (mixed lists, '/' in keys: format changes); the other HDF5 defects found were repaired in /repo",
        'bounded run-time round-trip oracles (stand-in) + ast->z3 totality obligations on the writer',
        'DESIGN.md C16'),
    chk('C17', 'other',
        'Lemma layer (z3 NRA): sqrt is strictly increasing and tie-preserving on non-negatives, positive affine maps preserve order and ties, the clipped-linear map is monotone into [0,1], max(x,0) is monotone -- with the C03 formula contracts these give the invariance clauses; Lean: cosine invariant under positive scaling. Engine B: sqrt_transform = sqrt(max(x,0)) and positive_transform = max(x,0) for all reals under all 27 sign patterns. Engine A: rank_transform ranks each RDM among its non-missing entries with the REQUESTED tie method (scipy rankdata with nan_policy omit) and keeps all descriptors. Quantile thresholds, geodesic, descriptors, invariance of the real compare(): bounded oracle tier.',
        'scipy rankdata / np.quantile / networkx assumed; 1 open finding (positive_transform keeps the measure name); the other defects found were repaired in /repo',
        'z3/Lean lemma layer + engine B + bounded run-time oracles',
        'DESIGN.md C17'),
    chk('C18', 'exploration',
        'Callee contract discharged in this run on the real source: get_unique_inverse / get_unique_unsorted return the distinct labels in order of first appearance and, for every entry, the index of its own label (11 obligations; numpy contracts of np.unique(return_index, return_inverse) and argsort assumed). The numerical claim depends on LDL / Cholesky / norm.ppf and random draws: bounded run-time oracles. Deductive part: engine A proves make_design for all sizes (np.kron model): condition of observation t is t mod n_cond, partition t div n_cond, length n_cond*n_part; z3 lemma: hence every condition exactly once per partition.',
        'scipy.linalg.ldl, norm.ppf, RNG assumed; 1 open finding (vector theta breaks calc_rdm of simulated data)',
        'bounded run-time oracles (stand-in) + ast->z3 obligations on make_design',
        'DESIGN.md C18'),
    chk('C19', 'other',
        'Callee contract discharged in this run on the real source: get_unique_inverse / get_unique_unsorted return the distinct labels in order of first appearance and, for every entry, the index of its own label (11 obligations; numpy contracts of np.unique(return_index, return_inverse) and argsort assumed). Lemma layer (z3 NRA/LIA): the per-axis pre-filter removes no member of the open ball; sqrt(s) < r <=> s < r^2 (strictness); the 100 chunk cut points floor(k n/100) are monotone from 0 to n and blocks are disjoint (every row written once). Engine A proves for the unchunked branch of get_searchlight_RDMs that dataset c holds exactly the columns neighbors[c] with the event labels as conditions and that the result is the list-calc_rdm labelled by the centres in order. Exact membership for all volumes up to 4x4x5 / all masks up to 8 voxels, chunked branch, n_jobs order: bounded (partly exhaustive) oracle tier.',
        'joblib.Parallel ordering is an assumed contract (real worker schedules cannot be explored); cdist / meshgrid models',
        'contract-based deductive verification: sidecar contracts on the real functions, ast->z3 VC generation on the real source (re-read every run), external z3 portfolio + z3 lemma layer + exhaustive small-volume oracles',
        'DESIGN.md C19'),
    chk('C20', 'other',
        "Deductive tier (structured strings in engine A): the real BidsFile._deconstruct/_findEntity and BidsLayout._replace are symbolically executed on path strings whose entity values are ATOMS (arbitrary non-empty alphanumeric tokens), for all 2^6 presence/absence combinations of derivative, ses, task, run, space, desc x one-/two-part extensions (enumerated completely): parsing recovers exactly the encoded entities, rebuilding returns the original path, the MRI-sibling and meta look-ups change only the entities they are asked to change -- for ALL entity values. Meadows files, MNE epochs, design matrices (dof, normalisation) and SPM filtering are decided by bounded run-time oracles on generated inputs.",
        "entity values restricted to the BIDS alphanumeric grammar; os.path.join/normpath/basename models on relative normalised paths; scipy.io, pandas, nibabel (faked) assumed; no open finding (eight defects repaired in /repo)",
        "contract-based deductive verification: symbolic execution of the real parser/builder on structured strings (split / prefix / replace decided structurally for all atom values) + bounded run-time oracles",
        'DESIGN.md C20 and 10.8'),
]

NOT_APPLICABLE = []
