"""Per-property MANIFEST entries. A property is listed under CHECKS only once its check is built and validated."""

def chk(pid, category, text, note, technique, design_ref):
    return {
        "property_id": pid,
        "quick_cmd": f"./check {pid} --tier quick",
        "thorough_cmd": f"./check {pid} --tier thorough",
        "evidence_file": f"evidence/{pid}.json",
        "replay_cmd_template": f"./check {pid} --replay {{path}}",
        "engine": "pyvc",
        "level_claimed": {"category": category, "text": text, "design_ref": design_ref},
        "level_note": note,
        "technique": technique,
    }

CHECKS = [
    chk("C05", "proof",
        "Engine A symbolically executes the real AST of sets_k_fold_pattern, sets_k_fold_rdm, sets_leave_one_out_pattern/_rdm and "
        "sets_of_k_pattern/_rdm (re-read from /repo on every run) and z3 discharges, for all numbers of groups, all k, both "
        "k=None/int and every shuffle permutation (havoc): test/train subsets of the groups, train-test disjointness, train = complement, "
        "folds pairwise disjoint, every group in some test fold, fold sizes differ by <= 1, returned objects are exactly the "
        "advertised selections, ceil-set shape, call-site conformance of the of_k wrappers. The two-factor generators (sets_k_fold, "
        "sets_random) and the non-interference clause of crossval are decided by bounded run-time oracles only (labelled bounded in "
        "the evidence, never counted as proved).",
        "Assumed: library contracts of np.unique/arange/floor/concatenate/setdiff1d/shuffle (listed in evidence trusted_base); "
        "RDMs.subset/subset_pattern/subsample/subsample_pattern are uninterpreted selections (their own contracts belong to C09/C10); "
        "mathematical integers; exact small-integer floats. Bounded part: n_rdm<=6, n_cond<=8, stated in evidence.",
        "contract-based deductive verification: ast->z3 VC generation on the real source (map-loop summaries, havoc RNG), external z3 portfolio; bounded run-time oracles as stand-in for the rest",
        "DESIGN.md C05"),
    chk("C14", "other",
        "Engine A proves for all inputs, on the real AST of data/noise.py: dof of 2-D residuals = n-1 and of the (conditions x channels x "
        "repetitions) tensor = observations - conditions; cov_from_unbalanced estimates residuals around per-condition means with dof = "
        "n_obs - #conditions; every list branch of cov_from_residuals/measurements/unbalanced returns element i = single-input estimate of "
        "element i with dof None / dof / dof[i]; every prec_from_* returns inv(cov) per element for list, 3-D and 2-D covariances. Engine B "
        "(real functions on sympy object arrays) proves full = Xc'Xc/dof, diag = its diagonal, symmetry and measurement-based = unbalanced "
        "for all real values at small shapes. Shrinkage convexity / lambda in [0,1] / PSD / numeric inverse are bounded run-time oracle "
        "checks (not counted as proved).",
        "Assumed: np.linalg.inv, np.mean, einsum as uninterpreted/pure; get_unique_inverse contract (bounded oracle); reals for floats; "
        "engine-B proxy overrides listed in evidence. Bounded: shapes <= 4x3 (B), n<=12,p<=8 (C).",
        "contract-based deductive verification (ast->z3 on real source) + symbolic execution of the real functions on sympy arrays + bounded oracles",
        "DESIGN.md C14"),
    chk("C04", "proof",
        "Engine A symbolically executes the real AST of eval_bootstrap, eval_bootstrap_pattern, eval_bootstrap_rdm, crossval and eval_fixed "
        "with every random draw HAVOCed (an arbitrary outcome per call instance, indexed by the loop counter) and all loops summarised at a "
        "Skolem index (any N, any number of models / folds). z3 discharges, for all inputs: evaluations[i,j] = mean(compare(subsample_pattern("
        "predict_rdm(m_j,theta_j), pd, P_i), S_i, method)) for the i-th draw (S_i,P_i), NaN exactly when the draw has < 3 distinct condition "
        "groups; ceilings are boot_noise_ceiling of the same resample; variances = np.cov over the isfinite-masked rows (with ceiling rows); "
        "dof = resampled descriptor groups - 1 (min of both); crossval row f = compare(prediction fitted by fitter_j on train_f ONLY with "
        "method/pattern_idx/pattern_descriptor, subsampled to test_f, test_f data), NaN row for unusable folds, (1, models, folds) layout; "
        "eval_fixed rows, cov(ddof=0)/n_rdm, dof n_rdm-1; all Result fields. Bootstrap-wrapped cross-validation (bootstrap_crossval, "
        "dual bootstrap) and crossval with fitter=None / ceil_set=None+noise ceiling are decided by the bounded tier only.",
        "compare, predict_rdm, subsample_pattern, boot/cv_noise_ceiling, np.cov/mean/isfinite are uninterpreted pure functions (their own "
        "contracts are C03/C07/C08/C09); Result.__init__ is a record constructor; samplers are havoc (C09); reals for floats.",
        "contract-based deductive verification: ast->z3 on the real source, EUF term equality with havoc RNG and Skolemised loop summaries",
        "DESIGN.md C04"),
]

_PENDING = "contract written in DESIGN.md, machinery for this property not yet built and validated"
NOT_APPLICABLE = [{"property_id": f"C{i:02d}", "reason": _PENDING} for i in range(1, 21)
                  if f"C{i:02d}" not in {c['property_id'] for c in CHECKS}]
