"""Per-property MANIFEST entries. A property is listed under CHECKS only once its check is built and validated."""

def chk(pid, category, text, note, technique, design_ref):
    return {
        "property_id": pid,
        "quick_cmd": f"./check {pid} --tier quick",
        "thorough_cmd": f"./check {pid} --tier thorough",
        "evidence_file": f"evidence/{pid}.json",
        "replay_cmd_template": f"./check {pid} --replay {{path}}",
        "engine": "pyvc",
        "level_claimed": {"category": category, "text": text, "design_ref": design_ref},
        "level_note": note,
        "technique": technique,
    }

CHECKS = []

_PENDING = "contract written in DESIGN.md, machinery for this property not yet built and validated"
NOT_APPLICABLE = [{"property_id": f"C{i:02d}", "reason": _PENDING} for i in range(1, 21)
                  if f"C{i:02d}" not in {c['property_id'] for c in CHECKS}]
