"""Per-property MANIFEST entries. A property is listed under CHECKS only once its check is built and validated."""

def chk(pid, category, text, note, technique, design_ref):
    return {
        "property_id": pid,
        "quick_cmd": f"./check {pid} --tier quick",
        "thorough_cmd": f"./check {pid} --tier thorough",
        "evidence_file": f"evidence/{pid}.json",
        "replay_cmd_template": f"./check {pid} --replay {{path}}",
        "engine": "pyvc",
        "level_claimed": {"category": category, "text": text, "design_ref": design_ref},
        "level_note": note,
        "technique": technique,
    }

CHECKS = [
    chk("C05", "proof",
        "Engine A symbolically executes the real AST of sets_k_fold_pattern, sets_k_fold_rdm, sets_leave_one_out_pattern/_rdm and "
        "sets_of_k_pattern/_rdm (re-read from /repo on every run) and z3 discharges, for all numbers of groups, all k, both "
        "k=None/int and every shuffle permutation (havoc): test/train subsets of the groups, train-test disjointness, train = complement, "
        "folds pairwise disjoint, every group in some test fold, fold sizes differ by <= 1, returned objects are exactly the "
        "advertised selections, ceil-set shape, call-site conformance of the of_k wrappers. The two-factor generators (sets_k_fold, "
        "sets_random) and the non-interference clause of crossval are decided by bounded run-time oracles only (labelled bounded in "
        "the evidence, never counted as proved).",
        "Assumed: library contracts of np.unique/arange/floor/concatenate/setdiff1d/shuffle (listed in evidence trusted_base); "
        "RDMs.subset/subset_pattern/subsample/subsample_pattern are uninterpreted selections (their own contracts belong to C09/C10); "
        "mathematical integers; exact small-integer floats. Bounded part: n_rdm<=6, n_cond<=8, stated in evidence.",
        "contract-based deductive verification: ast->z3 VC generation on the real source (map-loop summaries, havoc RNG), external z3 portfolio; bounded run-time oracles as stand-in for the rest",
        "DESIGN.md C05"),
]

_PENDING = "contract written in DESIGN.md, machinery for this property not yet built and validated"
NOT_APPLICABLE = [{"property_id": f"C{i:02d}", "reason": _PENDING} for i in range(1, 21)
                  if f"C{i:02d}" not in {c['property_id'] for c in CHECKS}]
