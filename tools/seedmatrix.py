#!/usr/bin/env python3
"""Runs every seeded change against its property's quick check (scratch worktree) and writes seeded/RESULTS.json:
which obligations fire, split into deductive (engine A/B/X/L) and bounded (oracle) ones."""
import json, os, re, subprocess, sys, tempfile, shutil
from concurrent.futures import ThreadPoolExecutor
ROOT = '/verif'

def one(sid):
    pid = sid.split('-')[0]
    d = tempfile.mkdtemp(prefix=f'sm-{sid}-', dir='/tmp/wt')
    shutil.rmtree(d)
    out = tempfile.mkdtemp(prefix=f'smout-{sid}-', dir='/tmp/wt')
    r = dict(seed=sid, property=pid)
    try:
        subprocess.run([f'{ROOT}/tools/mkwt.sh', d], check=True, capture_output=True)
        a = subprocess.run(['git', '-C', d, 'apply', f'{ROOT}/seeded/{sid}/patch.diff'], capture_output=True, text=True)
        if a.returncode:
            r['error'] = 'patch does not apply'
            return r
        env = dict(os.environ, VERIF_REPO=d, VERIF_OUT=out)
        p = subprocess.run([f'{ROOT}/check', pid, '--tier', 'quick'], capture_output=True, text=True, env=env, cwd=ROOT)
        r['exit'] = p.returncode
        if p.returncode not in (0, 1):
            r['tail'] = (p.stdout + p.stderr)[-1500:]
        viol = []
        for l in p.stdout.split('\n'):
            m = re.match(r'VIOLATION property=\S+ replay=(\S+)', l)
            if m:
                try:
                    j = json.load(open(os.path.join(out, m.group(1))))
                    viol.append((j['obligation'], j['found_input']))
                except Exception:
                    viol.append((m.group(1), None))
        ded = sorted({o for o, f in viol if '/oracle/' not in o})
        bnd = sorted({o for o, f in viol if '/oracle/' in o})
        r.update(detected=p.returncode == 1, deductive_obligations=ded, bounded_obligations=bnd,
                 with_concrete_input=sum(1 for o, f in viol if f), n_violation_lines=len(viol))
    finally:
        subprocess.run(['git', '-C', '/repo', 'worktree', 'remove', '--force', d], capture_output=True)
        shutil.rmtree(out, ignore_errors=True)
    return r

seeds = sorted(os.listdir(f'{ROOT}/seeded')) if len(sys.argv) < 2 else sys.argv[1:]
seeds = [s for s in seeds if os.path.isdir(f'{ROOT}/seeded/{s}')]
with ThreadPoolExecutor(5) as ex:
    res = list(ex.map(one, seeds))
if len(sys.argv) >= 2 and os.path.exists(f'{ROOT}/seeded/RESULTS.json'):      # partial run: merge into the stored table
    old = {r['seed']: r for r in json.load(open(f'{ROOT}/seeded/RESULTS.json'))}
    old.update({r['seed']: r for r in res})
    allres = [old[k] for k in sorted(old)]
else:
    allres = res
json.dump(allres, open(f'{ROOT}/seeded/RESULTS.json', 'w'), indent=1)
for r in res:
    print(r['seed'], 'detected' if r.get('detected') else 'MISSED', 'deductive:', len(r.get('deductive_obligations', [])), 'bounded:', len(r.get('bounded_obligations', [])))
