#!/bin/sh
# usage: applyfix.sh <patch.diff> "<commit message starting with fix:>"  -- apply a reviewed repair to /repo, run the baseline
# test-suite, commit only if the same 340 tests pass
set -e
p="$1"; msg="$2"
case "$msg" in fix:*) ;; *) echo "message must start with fix:"; exit 2;; esac
cd /repo
[ -z "$(git status --porcelain --untracked-files=no)" ] || { echo "/repo not clean"; exit 2; }
git apply "$p"
res=$(/venv/bin/python -m pytest -q -p no:cacheprovider --timeout=900 tests 2>&1 | tail -1)
echo "$res"
case "$res" in *"340 passed"*) git commit -qam "$msg"; git log --oneline | head -1;; *) echo "tests changed: reverting"; git checkout -- .; exit 1;; esac
