#!/bin/sh
# run every check on the current tree (4 at a time), TIER=quick|thorough; summary line per property; logs in /tmp/wt/runall_<tier>_Cxx.log
cd /verif
mkdir -p /tmp/wt
T=${TIER:-quick}
ls contracts | grep -E '^C[0-9]+\.py$' | sed 's/\.py//' | xargs -P 4 -I{} sh -c "./check {} --tier $T > /tmp/wt/runall_${T}_{}.log 2>&1; echo \"{} exit=\$? \$(grep -c '^VIOLATION' /tmp/wt/runall_${T}_{}.log) viol \$(grep -c '^KNOWN-FINDING' /tmp/wt/runall_${T}_{}.log) known | \$(tail -1 /tmp/wt/runall_${T}_{}.log | cut -c1-150)\"" | sort
