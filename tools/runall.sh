#!/bin/sh
# run every quick check on the current tree (4 at a time); summary line per property
cd /verif
ls contracts | grep -E '^C[0-9]+\.py$' | sed 's/\.py//' | xargs -P 4 -I{} sh -c './check {} --tier ${TIER:-quick} > /tmp/runall_{}.log 2>&1; echo "{} exit=$? $(grep -c "^VIOLATION" /tmp/runall_{}.log) viol $(grep -c "^KNOWN-FINDING" /tmp/runall_{}.log) known | $(tail -1 /tmp/runall_{}.log | cut -c1-150)"' | sort
