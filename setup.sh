#!/bin/sh
# Builds the overlay venv the checks run in (offline, from /opt/veriftools/wheels) and compiles the Lean lemmas.
set -e
cd "$(dirname "$0")"
if [ ! -x .venv/bin/python ] || ! .venv/bin/python -c "import z3, sympy, jsonschema, numpy, rsatoolbox" >/dev/null 2>&1; then
  rm -rf .venv
  /venv/bin/python -m venv .venv
  sp=$(.venv/bin/python -c "import sysconfig; print(sysconfig.get_paths()['purelib'])")
  echo "import site; site.addsitedir('/venv/lib/python3.12/site-packages')" > "$sp/zz_overlay.pth"
  PIP_NO_INDEX=1 .venv/bin/python -m pip install -q --no-index --find-links /opt/veriftools/wheels \
      z3-solver sympy jsonschema deal icontract hypothesis 2>&1 | tail -2 || true
  .venv/bin/python -c "import z3, sympy, jsonschema, numpy, rsatoolbox; print('venv ok', z3.get_version_string())"
fi
if [ -d vf/lemmas ] && ls vf/lemmas/*.lean >/dev/null 2>&1; then
  mkdir -p .lean_out
  for f in vf/lemmas/*.lean; do
    b=$(basename "$f" .lean)
    if [ ! -f ".lean_out/$b.ok" ] || [ "$f" -nt ".lean_out/$b.ok" ]; then
      if (cd /opt/veriftools/mathlib4 && lake env lean "$OLDPWD/$f") > ".lean_out/$b.log" 2>&1; then touch ".lean_out/$b.ok"; else echo "lean failed: $f"; cat ".lean_out/$b.log"; fi
    fi
  done
fi
echo setup done
