"""C15 -- bounded run-time tier ("tier C"): the unbalanced (compiled) RDM estimator matches its definition and the
balanced estimator, and skips missing channels.

Real functions exercised: rsatoolbox.rdm.calc_rdm_unbalanced (and through it the INSTALLED compiled kernel
rsatoolbox.cengine.similarity.calc, util.data_utils.get_unique_inverse, util.matrix.row_col_indicator_rdm,
util.build_rdm._build_rdms, calc_unbalanced.ensure_double), rsatoolbox.rdm.calc_unbalanced.calc_one_similarity
(kernel calc_one) and rsatoolbox.rdm.calc_rdm (only as the OTHER side of the agreement clause, never as the source of an
expected value of the definition).

The definition used as spec (written from the property statement, `_spec_rdm`, explicit loops only)
---------------------------------------------------------------------------------------------------
conditions = distinct values of the condition descriptor in order of first appearance.  For two observations i, j
let valid(i,j) = channels that are not NaN in i and not NaN in j, n_v = #valid(i,j), and
    euclidean / mahalanobis, crossnobis without noise : s = sum_valid x_i x_j
    mahalanobis / crossnobis with precision N         : s = x_i[valid]' N[valid,valid] x_j[valid]
    correlation                                       : s = (n_v/2) * Pearson r of x_i, x_j over valid(i,j)
    poisson / poisson_cv, y = (x+lambda*w)/(1+w)      : s = 1/2 sum_valid (y_j-y_i)(log y_i-log y_j)
with weight n_v.  Admissible pairs for the condition pair {a,b}: i<j with {cond_i,cond_j}={a,b}, n_v>0 and -- when a
fold descriptor is in force (cv_descriptor given, or method crossnobis / poisson_cv, which fall back to the row index)
-- fold_i != fold_j; without a fold descriptor additionally the self pairs (i,i) of a==b at HALF weight.
    weighting 'number': V_ab = sum s / sum n_v        weighting 'equal': V_ab = mean of s/n_v
(NaN when there is no admissible pair) and  dissimilarity(a,b) = V_aa + V_bb - 2 V_ab.

Clause of the property                                                        oracle
---------------------------------------------------------------------------  -------------------------------------------
average over admissible observation pairs per method and weighting, for      orc_pairs (domains C15/pair-loop: exhaustive
every pair of condition labels (6 methods, 2 weightings, noise None / eye /  over all condition-index sequences of length
SPD precision, with / without fold descriptor, prior_lambda / prior_weight)  <= 4 (5 thorough) x all settings; C15/pair-
                                                                             loop-random: seeded larger designs, <= 7
                                                                             conditions, <= 16 observations)
labelled by condition in order of first appearance                           orc_pairs on C15/first-appearance: exhaustive
                                                                             over ALL label sequences of length <= 5 (6)
                                                                             with 2..4 conditions x ALL first-appearance
                                                                             orders of int and string labels (every
                                                                             permutation of the sorted order, involutive
                                                                             or not); descriptor=None (one per row)
coincides with calc_rdm: any method with one observation per condition       orc_agree kind 'single' (euclidean,
                                                                             correlation, mahalanobis, poisson; the two
                                                                             cross-validated methods need >= 2 folds and
                                                                             are covered by 'cv' with one observation per
                                                                             condition and fold)
  euclidean and mahalanobis for any repetition counts                        orc_agree kind 'repeats'
  crossnobis and poisson_cv for designs balanced over folds                  orc_agree kind 'cv' (every condition has the
                                                                             same number of observations in every fold;
                                                                             poisson_cv: one per fold, since calc_rdm
                                                                             takes the log of the fold mean)
observation pairs sharing a fold value are excluded; integer / non-integer  orc_folds (the same design under int, negative,
/ string fold labels                                                         huge, non-integer (several labels truncating
                                                                             to the same integer), string and numeric
                                                                             string fold labels: identical result = spec)
NaN channels are left out of exactly the products involving that             orc_pairs with nan in {chan, obs, chan+obs,
observation                                                                  row, disjoint}
a channel missing everywhere has no effect                                   orc_nan_channel (metamorphic: inserting all-NaN
                                                                             channels [and arbitrary noise rows/columns
                                                                             for them] changes nothing)
pairs without any valid product are NaN                                      orc_nan_pattern (NaN pattern of the result =
                                                                             pattern obtained by COUNTING admissible pairs
                                                                             with >= 1 valid channel; independent of the
                                                                             kernels, all methods)
integer and float inputs, C- or Fortran-ordered (and strided) arrays give    orc_layout (int16/32/64, uint8, float32/64 x
the same result                                                              C / F / strided views; NaN masks for floats;
                                                                             F-ordered noise)
the single-pair helper agrees with the full computation                      orc_calc_one (calc_one_similarity on every
                                                                             condition pair incl. a==a: value and weight
                                                                             = spec; V_aa+V_bb-2V_ab = full computation)
(list of datasets: every option is forwarded to each element; DESIGN C15)    orc_list

Dimension sweeps (tools/SWEEP_BRIEF.md; case keys added to the oracles above, new input classes; all generated OUTSIDE the
classes of the known findings so that a failure is reported under the new class)
  typed data            orc_layout / orc_agree: non-integer float32 data ('float32-non-integer'), 15-bit integers as int16 /
                        uint16 / int32 / int64 / float32 ('int-15-bit', 'data-<dtype>-<order>'), the full uint16 range
                        ('uint16-full-range'), precision as strided view
  units                 orc_pairs / orc_agree / orc_calc_one with case['scale'] in 1e-26 .. 1e+12 (poisson 1e-3, 1e+6), precision fixed or in
                        the matching units; compared RELATIVE to the largest expected entry ('units-<scale>')
  containers / labels   orc_pairs: condition and fold descriptors as list / tuple / object / int8 / uint8 / float32 / bool
                        arrays; float labels (also 1e-20 and 1 ulp apart), numeric strings ('labels-<set>-as-<form>');
                        orc_folds: 12 further fold label sets ('folds-typed'); orc_list: tuple of datasets, tuple / 3-D array
                        of precisions; further descriptors (2-D, str list, varying) and the condition descriptor last in the
                        dict: result unchanged, carried descriptors aligned with the conditions ('extra-descriptors*')
  sizes                 orc_pairs: up to 30 (64) conditions, 70 (130) observations, 200 channels, one channel, 2 observations
                        ('size-n<n>-m<m>-P<P>')
  call sequences        orc_calls: A, B, A, single-pair helper twice, list call: results = definition, repeatable, held
                        results and inputs unchanged, no descriptor added ('calls-*')
  environment           orc_hashseed: batches of the oracles in new interpreters with other PYTHONHASHSEEDs
Pending triage (registered behind `if False`): 'noise-dtype-float32' / 'noise-dtype-int64' (precision matrix of another dtype
raises in the compiled kernel), 'cv-fallback-adds-index-descriptor' (crossnobis / poisson_cv without cv_descriptor add an
'index' descriptor to the caller's dataset).

Findings on the unchanged tree (see C15_findings.md; each has its own input_class so that it can be listed as known):
  'correlation+nan'           correlation kernel divides by the total channel count when channels are NaN
  'mahalanobis-noise+nan'     mahalanobis kernel with a noise matrix and NaN channels reads past its buffers (garbage) and
                              weights by the total channel count; such cases are executed in a separate interpreter
  'equal-weighting-no-cv'     weighting='equal' without fold descriptor: the self pairs get weight 1/2 == 0 (C integer
                              division) -> wrong values, all-NaN for conditions with one observation
  'condition-without-self-pair'  a condition without admissible within-condition pair (e.g. present in one fold only)
                              makes EVERY entry NaN (0*NaN in the indicator-matrix product of calc_rdm_unbalanced), also
                              entries of condition pairs that have admissible pairs; class = such a condition exists AND
                              the definition gives at least one finite entry (computed by counting, `klass`)
Cases are labelled with the FIRST applicable class in this order; everything else is 'generic' (or a descriptive label).
Validation of the classes (scratch, not part of this file): with a pure-python transcription of similarity.pyx carrying
the repairs suggested in C15_findings.md (1-3) and the index-based repair of 4, the whole tier (quick and thorough) has
no failure; with repair 4 alone (scratch worktree) only classes 1-3 fail.

NOT covered by this tier
* "for all datasets": bounded enumeration / seeded samples only (no proof); sizes <= 16 observations, <= 7 conditions,
  <= 6 channels.
* Memory safety of the compiled kernel (index bounds of every buffer) -- engine X/A of DESIGN.md; here only its visible
  consequence (wrong numbers) is observed.  A rebuilt kernel (scratch .so from similarity.c / the .pyx) is not exercised:
  only the installed .so that the package imports.
* Undefined sub-cases that the statement does not pin down: correlation of an observation pair with a single valid
  channel or with a constant pattern (0/0), all-zero patterns, non-symmetric noise matrices, poisson with values
  <= -lambda*w (log of a non-positive number), a single condition (empty RDM), NaN in descriptors.
* remove_mean and the other calc_rdm options that calc_rdm_unbalanced does not have; calc_rdm_movie(unbalanced=True).
"""
import atexit
import itertools
import json
import subprocess
import sys
import warnings

import numpy as np

from vf.rt.harness import oracle, Bounded, replay_file, close, ORACLES  # noqa: F401  (replay_file: used by tools/run_c.py)

TOL = 1e-8
METHODS = ('euclidean', 'correlation', 'mahalanobis', 'crossnobis', 'poisson', 'poisson_cv')
CV_METHODS = ('crossnobis', 'poisson_cv')
NOISE_METHODS = ('mahalanobis', 'crossnobis')
_KIND = {'euclidean': 'euclid', 'correlation': 'corr', 'mahalanobis': 'maha', 'crossnobis': 'maha',
         'poisson': 'poisson', 'poisson_cv': 'poisson'}


# ----------------------------------------------------------------------------------------------------------------------
# spec (literal, loop based)
# ----------------------------------------------------------------------------------------------------------------------
def _first_appearance(labels):
    """distinct labels in order of first appearance + index of every observation into that list"""
    uniq, idx = [], []
    for lab in labels:
        for k, u in enumerate(uniq):
            if u == lab:
                idx.append(k)
                break
        else:
            uniq.append(lab)
            idx.append(len(uniq) - 1)
    return uniq, idx


def _valid(xi, xj):
    """channels that are not NaN in either observation (x == x is false exactly for NaN)"""
    return [k for k in range(len(xi)) if xi[k] == xi[k] and xj[k] == xj[k]]


def _rows(X):
    """observations as lists of python floats (cheap element access in the loops below)"""
    return np.asarray(X, dtype=float).tolist()


def _spec_kernel(kind, xi, xj, noise, pl, pw):
    """(similarity, weight) of one observation pair over the channels valid in both"""
    valid = _valid(xi, xj)
    nv = len(valid)
    if nv == 0:
        return 0.0, 0
    a = np.array([xi[k] for k in valid], dtype=float)
    b = np.array([xj[k] for k in valid], dtype=float)
    if kind == 'euclid':
        return float(np.sum(a * b)), nv
    if kind == 'maha':
        sub = np.array([[noise[k][l] for l in valid] for k in valid], dtype=float)
        return float(a @ sub @ b), nv
    if kind == 'corr':
        ac, bc = a - np.mean(a), b - np.mean(b)
        r = float(np.sum(ac * bc) / np.sqrt(np.sum(ac * ac)) / np.sqrt(np.sum(bc * bc)))
        return r * nv / 2, nv
    if kind == 'poisson':
        a = (a + pl * pw) / (1 + pw)
        b = (b + pl * pw) / (1 + pw)
        return float(np.sum((b - a) * (np.log(a) - np.log(b))) / 2), nv
    raise ValueError(kind)


def _spec_sims(X, cond, n, folds, method, noise, weighting, pl=1.0, pw=0.1):
    """V (n x n, upper triangle incl. diagonal) and the denominators, by the literal loop over observation pairs"""
    kind = _KIND[method]
    if kind == 'maha' and noise is None:
        kind = 'euclid'
    num = [[0.0] * n for _ in range(n)]
    den = [[0.0] * n for _ in range(n)]
    m = len(cond)
    X = _rows(X)
    for i in range(m):
        for j in range(i, m):
            if i == j:
                if folds is not None:
                    continue
                f = 0.5
            else:
                if folds is not None and folds[i] == folds[j]:
                    continue
                f = 1.0
            s, w = _spec_kernel(kind, X[i], X[j], noise, pl, pw)
            if w == 0:
                continue
            a, b = min(cond[i], cond[j]), max(cond[i], cond[j])
            if weighting == 'number':
                num[a][b] += f * s
                den[a][b] += f * w
            else:
                num[a][b] += f * s / w
                den[a][b] += f
    V = np.full((n, n), np.nan)
    for a in range(n):
        for b in range(a, n):
            if den[a][b] > 0:
                V[a, b] = num[a][b] / den[a][b]
    return V, np.array(den)


def _spec_rdm(X, cond, n, folds, method, noise, weighting, pl=1.0, pw=0.1):
    V, _ = _spec_sims(X, cond, n, folds, method, noise, weighting, pl, pw)
    return np.array([V[a, a] + V[b, b] - 2 * V[a, b] for a in range(n) for b in range(a + 1, n)])


def _square(vec, n):
    """vector (row-major upper triangle) -> dict {(a,b): value}, a<b"""
    out, k = {}, 0
    for a in range(n):
        for b in range(a + 1, n):
            out[(a, b)] = vec[k]
            k += 1
    return out


def _effective_folds(method, folds, m):
    """fold value per observation that the definition uses (None = no fold descriptor in force)"""
    if folds is not None:
        return list(folds)
    if method in CV_METHODS:
        return list(range(m))          # documented fall-back: the row index, i.e. only self pairs are excluded
    return None


# ----------------------------------------------------------------------------------------------------------------------
# deterministic construction of inputs from a case
# ----------------------------------------------------------------------------------------------------------------------
def _corr_defined(X):
    """every observation pair has 0 or >= 2 valid channels and non-constant patterns on them"""
    m = X.shape[0]
    X = _rows(X)
    for i in range(m):
        for j in range(i, m):
            v = _valid(X[i], X[j])
            if len(v) == 0:
                continue
            if len(v) < 2:
                return False
            for row in (X[i], X[j]):
                vals = [row[k] for k in v]
                if max(vals) - min(vals) < 1e-6:
                    return False
    return True


def _nan_mask(rs, kind, m, P, cond, thin=0):
    """NaN mask of the given kind; thin > 0 (later retries for correlation): fewer scattered NaNs"""
    M = np.zeros((m, P), dtype=bool)
    if kind in ('chan', 'chan+obs'):
        M[:, rs.randint(P)] = True
        if P >= 5 and rs.rand() < 0.5:
            M[:, rs.randint(P)] = True
    if kind in ('obs', 'chan+obs'):
        hit = False
        for i in range(m):
            if rs.rand() < 0.6 / (1 + 2 * thin):
                for k in rs.choice(P, size=1 + int(rs.rand() < 0.4 and P > 3 and not thin), replace=False):
                    M[i, k] = True
                    hit = True
        if not hit:
            M[rs.randint(m), rs.randint(P)] = True
    if kind == 'row':                       # one observation without any valid channel (+ one scattered NaN)
        M[rs.randint(m), :] = True
        M[rs.randint(m), rs.randint(P)] = True
    if kind == 'disjoint':                  # conditions 0 and 1 never share a valid channel
        h = P // 2
        for i in range(m):
            if cond[i] == 0:
                M[i, :h] = True
            elif cond[i] == 1:
                M[i, h:] = True
    return M


def _noise(case, P):
    kind = case.get('noise')
    if kind is None:
        return None
    if kind == 'eye':
        return np.eye(P)
    rs = np.random.RandomState(case['seed'] + 7919)
    if kind == 'intspd':                    # sweep: integer-valued SPD matrix (exact in float32 and integer dtypes)
        A = rs.randint(-2, 3, size=(P, P)).astype(float)
        return A @ A.T + P * np.eye(P)
    A = rs.randn(P, P)
    N = A @ A.T / P + np.eye(P)
    ns = case.get('noise_scale')            # sweep: precision in the units of the data ('inverse': 1 / scale^2)
    if ns is not None:
        N = N * (float(case['scale']) ** -2 if ns == 'inverse' else float(ns))
    return N


_last = {'key': None, 'val': None}


def _make(case):
    """labels, X (float64 with NaN), first-appearance coding, folds, noise -- all from the JSON case (read-only for callers)"""
    key = json.dumps(case, sort_keys=True, default=str)
    if _last['key'] != key:
        _last['key'], _last['val'] = key, _make_(case)
    return _last['val']


def _make_(case):
    labels = list(case['labels'])
    m, P, method = len(labels), case['P'], case['method']
    uniq, cond = _first_appearance(labels)
    n = len(uniq)
    nan = case.get('nan', 'none')
    X = None
    for attempt in range(60):
        rs = np.random.RandomState(case['seed'] + 104729 * attempt)
        if case.get('values') == 'int':
            X = rs.randint(0, 41, size=(m, P)).astype(float)
        elif case.get('values') == 'int-large':                    # sweep: needs >= 15 bits; exact in float32 / (u)int16
            X = rs.randint(0, case.get('vmax', 30000), size=(m, P)).astype(float)
        else:
            X = 0.3 + rs.rand(m, P) + 2.0 * rs.rand(n, P)[cond]
            if _KIND[method] != 'poisson':
                X = X - 1.6                                        # mixed signs (centring errors become visible)
            if case.get('values') == 'f32':                        # sweep: non-integer values representable in float32
                X = X.astype(np.float32).astype(np.float64)
        if nan != 'none':
            X[_nan_mask(rs, nan, m, P, cond, thin=attempt // 15)] = np.nan
        if _KIND[method] != 'corr' or _corr_defined(X):
            break
    else:
        raise RuntimeError('no admissible data found for the correlation case')
    if case.get('scale'):                                          # sweep: the same design in other (legitimate) units
        X = X * float(case['scale'])
    folds = case.get('folds')
    return dict(labels=labels, uniq=uniq, cond=cond, n=n, m=m, P=P, X=X, folds=folds, noise=_noise(case, P),
                pl=case.get('pl', 1.0), pw=case.get('pw', 0.1))


def _array(X, dtype='float64', order='C'):
    arr = np.array(X, dtype=dtype)
    if order == 'F':
        arr = np.asfortranarray(arr)
    elif order == 'strided':
        big = np.zeros((2 * arr.shape[0] + 1, 3 * arr.shape[1] + 2), dtype=arr.dtype)
        view = big[1::2, 2::3]
        view[...] = arr
        arr = view
    else:
        arr = np.ascontiguousarray(arr)
    return arr


def _form(values, form):
    """descriptor values in the container / dtype named by `form` (None: ndarray of the natural dtype, as before the sweeps)"""
    if form is None or form == 'array':
        return np.array(values)
    if form == 'list':
        return list(values)
    if form == 'tuple':
        return tuple(values)
    if form == 'object':
        return np.array(list(values), dtype=object)
    return np.array(values, dtype=form)             # 'int8', 'uint8', 'float32', 'bool', ...


EXTRAS = ('vec2d', 'vec2d-float', 'str-list', 'vary', 'vary2d')


def _extra_values(name, cond, m):
    """further observation descriptors (python lists; 2-D ones as lists of lists).  'vec2d', 'vec2d-float', 'str-list' are
    functions of the condition, 'vary' / 'vary2d' differ between the observations of one condition"""
    if name == 'vec2d':
        return [[10 * cond[i] + 1, 10 * cond[i] + 2] for i in range(m)]
    if name == 'vec2d-float':
        return [[cond[i] + 0.5, -1.0 * cond[i], 0.25] for i in range(m)]
    if name == 'str-list':
        return ['g%d' % ((3 * cond[i] + 1) % 4) for i in range(m)]
    if name == 'vary':
        return [100 + i for i in range(m)]
    if name == 'vary2d':
        return [[i, cond[i]] for i in range(m)]
    raise ValueError(name)


def _dataset(X, labels, folds, dtype='float64', order='C', cond_form=None, fold_form=None, extras=None, desc_order=None):
    from rsatoolbox.data import Dataset
    od = {'cond': _form(labels, cond_form)}
    if folds is not None:
        od['fold'] = _form(folds, fold_form)
    if extras:
        _, cond = _first_appearance(list(labels))
        for name in extras:
            vals = _extra_values(name, cond, len(cond))
            od[name] = vals if name == 'str-list' else np.array(vals)
    if desc_order == 'reversed':                    # the condition descriptor is the LAST key of the dict
        od = {k: od[k] for k in reversed(list(od))}
    return Dataset(_array(X, dtype, order), obs_descriptors=od)


def _ds_kwargs(case):
    return dict(cond_form=case.get('cond_form'), fold_form=case.get('fold_form'), extras=case.get('extras'),
                desc_order=case.get('desc_order'))


def _check_extras(got, case, labels, eff_cond, n):
    """a further descriptor that the result carries per condition and that is constant within every condition must hold, at
    position k, the value belonging to condition k (nothing is demanded about descriptors that are dropped)"""
    if not case.get('extras'):
        return None
    _, cond = _first_appearance(list(labels))
    m = len(cond)
    rows = [[i for i in range(m) if eff_cond[i] == k] for k in range(n)]
    for name in case['extras']:
        if name not in got.pattern_descriptors:
            continue
        vals = _extra_values(name, cond, m)
        if any(vals[i] != vals[r[0]] for r in rows for i in r):
            continue
        want = [vals[r[0]] for r in rows]
        have = got.pattern_descriptors[name]
        if len(have) != n or any(not np.array_equal(np.asarray(h), np.asarray(w)) for h, w in zip(have, want)):
            return (f'pattern descriptor {name!r} = {np.asarray(have).tolist()}, but the values belonging to the conditions (in '
                    f'order of first appearance) are {want}')
    return None


def _rel(got, want):
    """both divided by the largest finite |expected| value: for cases in extreme units (`close` is absolute below 1)"""
    w = np.asarray(want, dtype=float)
    f = np.abs(w[np.isfinite(w)])
    sc = float(f.max()) if f.size and f.max() > 0 else 1.0
    return np.asarray(got, dtype=float) / sc, w / sc


def _close_case(case, got, want, tol=TOL):
    if case.get('scale') or case.get('noise_scale'):
        got, want = _rel(got, want)
    return close(got, want, tol)


def _unbalanced(ds, case, noise, descriptor='cond', has_folds=None):
    from rsatoolbox.rdm import calc_rdm_unbalanced
    has_folds = (case.get('folds') is not None) if has_folds is None else has_folds
    with warnings.catch_warnings():
        warnings.simplefilter('ignore')
        return calc_rdm_unbalanced(ds, method=case['method'], descriptor=descriptor, noise=noise,
                                   cv_descriptor='fold' if has_folds else None,
                                   prior_lambda=case.get('pl', 1.0), prior_weight=case.get('pw', 0.1),
                                   weighting=case.get('weighting', 'number'))


def _same_labels(got, want):
    got = list(got)
    return len(got) == len(want) and all(g == w for g, w in zip(got, want))


def _fmt(v):
    v = [float(x) for x in np.asarray(v, dtype=float).ravel()]
    return '[' + ', '.join('%.6g' % x for x in v[:15]) + (', ... (%d entries)' % len(v) if len(v) > 15 else '') + ']'


# ----------------------------------------------------------------------------------------------------------------------
# isolation: cases in which the compiled kernel is known to read past its buffers run in a second interpreter
# ----------------------------------------------------------------------------------------------------------------------
_IN_WORKER = False
_worker = {'proc': None}


def _dangerous(case):
    return (case.get('noise') is not None and case.get('method') in NOISE_METHODS
            and case.get('nan', 'none') != 'none')


def _stop_worker():
    p = _worker['proc']
    _worker['proc'] = None
    if p is not None:
        try:
            p.stdin.close()
            p.wait(timeout=5)
        except Exception:
            p.kill()


atexit.register(_stop_worker)


def _worker_main():
    """child side: one JSON request per line on stdin, one '@@'-prefixed JSON answer per line on stdout"""
    global _IN_WORKER
    _IN_WORKER = True
    for line in sys.stdin:
        line = line.strip()
        if not line:
            continue
        req = json.loads(line)
        try:
            res = ORACLES[req['oracle']](req['case'])
        except Exception as e:
            res = f'exception {type(e).__name__}: {e}'
        sys.stdout.write('@@' + json.dumps(dict(res=res)) + '\n')
        sys.stdout.flush()


def _isolated(name, case):
    """run oracle `name` on `case` in a persistent child interpreter; a crash of the child is a failure description"""
    for attempt in range(2):
        p = _worker['proc']
        if p is None or p.poll() is not None:
            code = ('import sys, json; sys.path[:0] = json.loads(sys.argv[1]); '
                    'import contracts.C15_c as m; m._worker_main()')
            p = subprocess.Popen([sys.executable, '-c', code, json.dumps([q for q in sys.path if q])],
                                 stdin=subprocess.PIPE, stdout=subprocess.PIPE, stderr=subprocess.DEVNULL,
                                 text=True, bufsize=1)
            _worker['proc'] = p
        try:
            p.stdin.write(json.dumps(dict(oracle=name, case=case)) + '\n')
            p.stdin.flush()
            while True:
                line = p.stdout.readline()
                if not line:
                    raise EOFError
                if line.startswith('@@'):
                    return json.loads(line[2:])['res']
        except (EOFError, BrokenPipeError, OSError):
            rc = p.poll()
            _worker['proc'] = None
            if rc is None:
                p.kill()
            if attempt == 1 or rc is not None:
                return f'the interpreter running this case died (return code {rc}): crash inside the compiled kernel'
    return 'could not run the isolated interpreter'


def _iso(fn):
    """decorator: dispatch dangerous cases to the child interpreter"""
    def wrapped(case):
        if _dangerous(case) and not _IN_WORKER:
            return _isolated(fn.oracle_name, case)
        return fn(case)
    wrapped.__name__ = fn.__name__
    wrapped.__doc__ = fn.__doc__
    wrapped.oracle_name = fn.oracle_name
    ORACLES[fn.oracle_name] = wrapped
    return wrapped


def _pair_counts(d, method):
    """cnt[a][b] (a<=b) = number of admissible observation pairs of conditions a, b with at least one valid channel"""
    X, cond, n, m = _rows(d['X']), d['cond'], d['n'], d['m']
    folds = _effective_folds(method, d['folds'], m)
    cnt = [[0] * n for _ in range(n)]
    for i in range(m):
        for j in range(i, m):
            if (i == j and folds is not None) or (i != j and folds is not None and folds[i] == folds[j]):
                continue
            if len(_valid(X[i], X[j])) > 0:
                a, b = min(cond[i], cond[j]), max(cond[i], cond[j])
                cnt[a][b] += 1
    return cnt


def _nan_expected(cnt, n):
    return [not (cnt[a][a] and cnt[b][b] and cnt[a][b]) for a in range(n) for b in range(a + 1, n)]


def klass(case, default='generic'):
    """input_class: the first applicable class of a known finding, else `default`"""
    method, nan = case.get('method'), case.get('nan', 'none') != 'none'
    if nan and case.get('noise') is not None and method in NOISE_METHODS:
        return 'mahalanobis-noise+nan'
    if nan and method == 'correlation':
        return 'correlation+nan'
    if case.get('weighting') == 'equal' and case.get('folds') is None and method not in CV_METHODS:
        return 'equal-weighting-no-cv'
    crossval = case.get('folds') is not None or method in CV_METHODS
    if not case.get('descriptor_none') and (crossval or nan):     # otherwise every condition has its self pairs (i,i)
        d = _make(case)
        cnt = _pair_counts(d, method)
        if any(cnt[a][a] == 0 for a in range(d['n'])) and not all(_nan_expected(cnt, d['n'])):
            return 'condition-without-self-pair'
    return default


# ----------------------------------------------------------------------------------------------------------------------
# oracles
# ----------------------------------------------------------------------------------------------------------------------
@_iso
@oracle('C15/pair-loop')
def orc_pairs(case):
    """calc_rdm_unbalanced = literal loop over admissible observation pairs; labels in order of first appearance"""
    d = _make(case)
    X, n, m = d['X'], d['n'], d['m']
    if case.get('descriptor_none'):
        ds = _dataset(X, d['labels'], d['folds'], **_ds_kwargs(case))
        got = _unbalanced(ds, case, d['noise'], descriptor=None)
        uniq, cond, n, key = list(range(m)), list(range(m)), m, 'index'
    else:
        ds = _dataset(X, d['labels'], d['folds'], **_ds_kwargs(case))
        got = _unbalanced(ds, case, d['noise'])
        uniq, cond, key = d['uniq'], d['cond'], 'cond'
    if got.n_cond != n:
        return f'n_cond={got.n_cond}, expected {n} conditions {uniq}'
    if got.dissimilarities.shape != (1, n * (n - 1) // 2):
        return f'dissimilarities have shape {got.dissimilarities.shape}, expected (1, {n * (n - 1) // 2})'
    if key not in got.pattern_descriptors or not _same_labels(got.pattern_descriptors[key], uniq):
        return (f'pattern descriptor {key!r} = {list(got.pattern_descriptors.get(key, []))}, expected the conditions in '
                f'order of first appearance {uniq}')
    folds = _effective_folds(case['method'], d['folds'], m)
    want = _spec_rdm(X, cond, n, folds, case['method'], d['noise'], case.get('weighting', 'number'), d['pl'], d['pw'])
    if not _close_case(case, got.dissimilarities[0], want):
        return (f"{case['method']}/{case.get('weighting', 'number')}: dissimilarities {_fmt(got.dissimilarities[0])} differ from "
                f'the average over admissible observation pairs {_fmt(want)} (conditions {uniq})')
    return _check_extras(got, case, d['labels'], cond, n)


@oracle('C15/agree-calc_rdm')
def orc_agree(case):
    """calc_rdm_unbalanced coincides with calc_rdm where theory says so (matched by condition LABEL)"""
    from rsatoolbox.rdm import calc_rdm
    d = _make(case)
    ds = _dataset(d['X'], d['labels'], d['folds'], case.get('dtype', 'float64'), case.get('order', 'C'), **_ds_kwargs(case))
    desc = None if case.get('descriptor_none') else 'cond'
    unb = _unbalanced(ds, case, d['noise'], descriptor=desc)
    ds2 = _dataset(d['X'], d['labels'], d['folds'])
    with warnings.catch_warnings():
        warnings.simplefilter('ignore')
        bal = calc_rdm(ds2, method=case['method'], descriptor=desc, noise=d['noise'],
                       cv_descriptor='fold' if d['folds'] is not None else None,
                       prior_lambda=d['pl'], prior_weight=d['pw'])
    key = 'cond'                                    # descriptor=None: both sides keep the rows (and their labels) in order
    lu, lb = list(unb.pattern_descriptors[key]), list(bal.pattern_descriptors[key])
    n = d['m'] if desc is None else d['n']
    if len(lu) != n or len(lb) != n or sorted(map(str, lu)) != sorted(map(str, lb)):
        return f'condition labels differ: unbalanced {lu}, calc_rdm {lb}'
    su, sb = _square(unb.dissimilarities[0], n), _square(bal.dissimilarities[0], n)
    a_u, a_b = [], []
    for (a, b), v in su.items():
        ia, ib = lb.index(lu[a]), lb.index(lu[b])
        a_u.append(v)
        a_b.append(sb[(min(ia, ib), max(ia, ib))])
    if not _close_case(case, a_u, a_b):
        pairs = [(lu[a], lu[b]) for (a, b) in su]
        return (f"{case['method']}/{case.get('weighting', 'number')}/{case['kind']}: unbalanced {_fmt(a_u)} != calc_rdm "
                f'{_fmt(a_b)} for the condition pairs {pairs[:6]}...')
    return None


@oracle('C15/fold-relabel')
def orc_folds(case):
    """pairs sharing a fold VALUE are excluded, whatever the type of the fold labels"""
    d = _make(case)
    code = case['fold_codes']                       # fold of each observation as a small integer
    want = _spec_rdm(d['X'], d['cond'], d['n'], code, case['method'], d['noise'], case.get('weighting', 'number'),
                     d['pl'], d['pw'])
    for name, values in case['label_sets'].items():
        folds = [values[c] for c in code]
        form = case.get('label_forms', {}).get(name)             # sweep: container / dtype of the fold descriptor
        ds = _dataset(d['X'], d['labels'], folds, fold_form=form)
        if len(_first_appearance(list(np.asarray(ds.obs_descriptors['fold']).tolist()))[0]) != len(set(code)):
            raise RuntimeError(f'fold labels {name} as {form}: the distinct values are not preserved by the container')
        got = _unbalanced(ds, case, d['noise'], has_folds=True).dissimilarities[0]
        if not close(got, want, TOL):
            return (f"{case['method']}: fold labels {name} {values}{' as ' + form if form else ''}: {_fmt(got)} differs from the "
                    f'average over pairs with different fold values {_fmt(want)}')
    return None


@_iso
@oracle('C15/nan-pattern')
def orc_nan_pattern(case):
    """an entry is NaN iff one of V_aa, V_bb, V_ab has no admissible observation pair with a valid product (counting)"""
    d = _make(case)
    X, n = d['X'], d['n']
    want = _nan_expected(_pair_counts(d, case['method']), n)
    got = _unbalanced(_dataset(X, d['labels'], d['folds']), case, d['noise']).dissimilarities[0]
    if [bool(v) for v in np.isnan(got)] != want:
        return (f"{case['method']}/{case.get('weighting', 'number')}: NaN entries {[int(v) for v in np.isnan(got)]}, expected "
                f'{[int(w) for w in want]} (condition pairs without a valid product); values {_fmt(got)}')
    if np.any(np.isinf(got)):
        return f'infinite dissimilarities {_fmt(got)}'
    return None


@_iso
@oracle('C15/nan-channel')
def orc_nan_channel(case):
    """a channel that is missing everywhere has no effect: inserting all-NaN channels changes nothing"""
    d = _make(case)
    X, P = d['X'], d['P']
    base = _unbalanced(_dataset(X, d['labels'], d['folds']), case, d['noise']).dissimilarities[0]
    pos = sorted(case['insert'])                    # positions (in the widened array) of the all-NaN channels
    Pw = P + len(pos)
    keep = [k for k in range(Pw) if k not in pos]
    Xw = np.full((d['m'], Pw), np.nan)
    Xw[:, keep] = X
    noise_w = None
    if d['noise'] is not None:
        rs = np.random.RandomState(case['seed'] + 31)
        noise_w = rs.randn(Pw, Pw)                   # arbitrary entries for the missing channels
        noise_w = noise_w + noise_w.T
        noise_w[np.ix_(keep, keep)] = d['noise']
    wide = _unbalanced(_dataset(Xw, d['labels'], d['folds']), case, noise_w).dissimilarities[0]
    if not close(wide, base, TOL):
        return (f"{case['method']}/{case.get('weighting', 'number')}: with all-NaN channels inserted at {pos}: {_fmt(wide)}; "
                f'without them: {_fmt(base)}')
    return None


@oracle('C15/dtype-layout')
def orc_layout(case):
    """integer / float dtypes and C / Fortran / strided layouts of the same values give the same result (= spec)"""
    d = _make(case)
    X = d['X']
    folds = _effective_folds(case['method'], d['folds'], d['m'])
    want = _spec_rdm(X, d['cond'], d['n'], folds, case['method'], d['noise'], case.get('weighting', 'number'),
                     d['pl'], d['pw'])
    ref = None
    for dtype, order in case['variants']:
        ds = _dataset(X, d['labels'], d['folds'], dtype, order)
        if not np.array_equal(np.asarray(ds.measurements, dtype=float), X, equal_nan=True):
            raise RuntimeError('variant does not hold the same values')
        noise = d['noise']
        if noise is not None and order == 'F':
            noise = np.asfortranarray(noise)
        if noise is not None and case.get('noise_layout') == 'strided' and order != 'F':
            noise = _array(noise, 'float64', 'strided')
        if noise is not None and case.get('noise_dtype'):           # integer-valued precision in another dtype
            noise = np.array(noise, dtype=case['noise_dtype'])
            if not np.array_equal(noise.astype(float), d['noise']):
                raise RuntimeError('noise variant does not hold the same values')
        got = _unbalanced(ds, case, noise).dissimilarities[0]
        if ref is None:
            ref = got
            if not close(got, want, TOL):
                return f"{case['method']} {dtype}/{order}: {_fmt(got)} differs from the definition {_fmt(want)}"
        elif not close(got, ref, 1e-12):
            return (f"{case['method']}: input as {dtype}/{order} gives {_fmt(got)}, as {case['variants'][0]} gives "
                    f'{_fmt(ref)}')
    return None


@_iso
@oracle('C15/calc-one')
def orc_calc_one(case):
    """calc_one_similarity on every condition pair = spec similarity (value, weight) and reassembles the full RDM"""
    from rsatoolbox.data import Dataset
    from rsatoolbox.rdm.calc_unbalanced import calc_one_similarity
    d = _make(case)
    X, cond, n, m = d['X'], d['cond'], d['n'], d['m']
    folds = _effective_folds(case['method'], d['folds'], m)
    weighting = case.get('weighting', 'number')
    V, den = _spec_sims(X, cond, n, folds, case['method'], d['noise'], weighting, d['pl'], d['pw'])
    if folds is None:
        code = list(range(m))
    else:
        fu, code = _first_appearance(folds)
    S = np.full((n, n), np.nan)
    dtype, order = case.get('dtype', 'float64'), case.get('order', 'C')
    for a in range(n):
        for b in range(a, n):
            ra = [i for i in range(m) if cond[i] == a]
            rb = [i for i in range(m) if cond[i] == b]
            cva = np.array([code[i] for i in ra], dtype=np.int64)
            cvb = np.array([code[i] for i in rb], dtype=np.int64)
            if a == b and folds is None:
                cvb = cvb + m                      # no fold descriptor: every ordered pair incl. (i,i) is admissible
            val, wgt = calc_one_similarity(Dataset(_array(X[ra], dtype, order)), Dataset(_array(X[rb], dtype, order)),
                                           cva, cvb, method=case['method'], noise=d['noise'], weighting=weighting,
                                           prior_lambda=d['pl'], prior_weight=d['pw'])
            S[a, b] = val
            if not _close_case(case, [val], [V[a, b]]):
                return (f"{case['method']}/{weighting}: calc_one_similarity(conditions {d['uniq'][a]!r},{d['uniq'][b]!r}) = "
                        f'{val}, average over admissible pairs = {V[a, b]}')
            wexp = den[a, b] * (2 if a == b else 1)   # a==a: ordered pairs, i.e. every unordered pair twice
            if abs(wgt - wexp) > 1e-9:
                return (f"{case['method']}/{weighting}: calc_one_similarity(conditions {d['uniq'][a]!r},{d['uniq'][b]!r}) "
                        f'weight {wgt}, expected {wexp}')
    full = _unbalanced(_dataset(X, d['labels'], d['folds']), case, d['noise']).dissimilarities[0]
    asm = np.array([S[a, a] + S[b, b] - 2 * S[a, b] for a in range(n) for b in range(a + 1, n)])
    if not _close_case(case, full, asm):
        return (f"{case['method']}/{weighting}: full computation {_fmt(full)} differs from S_aa+S_bb-2S_ab of the single-pair "
                f'helper {_fmt(asm)}')
    return None


@oracle('C15/list')
def orc_list(case):
    """a list of datasets: row k of the result is the result for dataset k with the same options (noise: one or a list)"""
    from rsatoolbox.rdm import calc_rdm_unbalanced
    dss, singles, noises = [], [], []
    for k in range(case['n_ds']):
        sub = dict(case, seed=case['seed'] + 17 * k)
        d = _make(sub)
        ds = _dataset(d['X'], d['labels'], d['folds'])
        dss.append(ds)
        noises.append(d['noise'])
    nmode = case.get('noise_mode', 'one')
    for k, ds in enumerate(dss):
        noise = noises[0] if nmode == 'one' else noises[k]
        singles.append(_unbalanced(ds, case, noise).dissimilarities[0])
    noise_arg = noises[0] if (nmode == 'one' or noises[0] is None) else list(noises)
    if isinstance(noise_arg, list) and case.get('noise_container') == 'tuple':      # sweep: containers of the list call
        noise_arg = tuple(noise_arg)
    elif isinstance(noise_arg, list) and case.get('noise_container') == 'array3d':
        noise_arg = np.array(noise_arg)
    if case.get('ds_container') == 'tuple':
        dss = tuple(dss)
    with warnings.catch_warnings():
        warnings.simplefilter('ignore')
        got = calc_rdm_unbalanced(dss, method=case['method'], descriptor='cond', noise=noise_arg,
                                  cv_descriptor='fold' if case.get('folds') is not None else None,
                                  prior_lambda=case.get('pl', 1.0), prior_weight=case.get('pw', 0.1),
                                  weighting=case.get('weighting', 'number'))
    if got.n_rdm != len(dss):
        return f'{got.n_rdm} RDMs for {len(dss)} datasets'
    for k in range(len(dss)):
        if not close(got.dissimilarities[k], singles[k], 1e-12):
            return (f"{case['method']}/{case.get('weighting', 'number')}: RDM {k} of the list call {_fmt(got.dissimilarities[k])} "
                    f'differs from the call on dataset {k} alone {_fmt(singles[k])}')
    return None


# ----------------------------------------------------------------------------------------------------------------------
# sweeps: call sequences and environment
# ----------------------------------------------------------------------------------------------------------------------
def _snapshot(ds, noise):
    import copy
    return dict(meas=np.array(ds.measurements, copy=True), dtype=ds.measurements.dtype,
                desc=[(k, type(v), copy.deepcopy(v)) for k, v in ds.obs_descriptors.items()],
                noise=None if noise is None else np.array(noise, copy=True))


def _changed(snap, ds, noise, strict_keys):
    """None, or what differs between the inputs now and their snapshot taken before the calls"""
    if ds.measurements.dtype != snap['dtype'] or not np.array_equal(ds.measurements, snap['meas'], equal_nan=True):
        return 'the measurements of the dataset passed in were changed'
    for k, tp, v in snap['desc']:
        if k not in ds.obs_descriptors:
            return f'obs descriptor {k!r} of the dataset passed in was removed'
        now = ds.obs_descriptors[k]
        if type(now) is not tp:
            return f'obs descriptor {k!r} of the dataset passed in changed its type from {tp.__name__} to {type(now).__name__}'
        a, b = np.asarray(now), np.asarray(v)
        if a.dtype != b.dtype or a.shape != b.shape or not all(x == y for x, y in zip(a.ravel().tolist(), b.ravel().tolist())):
            return f'obs descriptor {k!r} of the dataset passed in was changed: {a.tolist()} (before the call: {b.tolist()})'
    old = [k for k, _, _ in snap['desc']]
    if [k for k in ds.obs_descriptors if k in old] != old:
        return f'the order of the obs descriptors of the dataset passed in changed: {list(ds.obs_descriptors)}'
    if strict_keys and list(ds.obs_descriptors) != old:
        return (f'the dataset passed in has obs descriptors {list(ds.obs_descriptors)} after the call, {old} before: the call '
                'added a descriptor to the caller\'s dataset')
    if noise is not None and not np.array_equal(noise, snap['noise']):
        return 'the noise matrix passed in was changed'
    return None


@oracle('C15/call-sequence')
def orc_calls(case):
    """call(A), call(B) (same shape and options, other content), call(A) again: every result = definition, the two results for A
    are identical, the result object of the first call is unchanged afterwards, and the inputs are unchanged (measurements,
    descriptors incl. their container types, noise); the same for the single-pair helper and for the list call"""
    from rsatoolbox.data import Dataset
    from rsatoolbox.rdm import calc_rdm_unbalanced
    from rsatoolbox.rdm.calc_unbalanced import calc_one_similarity
    dA = _make(case)
    dB = _make(dict(case, seed=case['seed'] + 1000, labels=case.get('labels_b', case['labels'])))
    if dB['m'] != dA['m'] or dB['P'] != dA['P']:
        raise RuntimeError('the two inputs of a call-sequence case must have the same shape')
    kw = _ds_kwargs(case)
    dtype, order = case.get('dtype', 'float64'), case.get('order', 'C')
    dsA = _dataset(dA['X'], dA['labels'], dA['folds'], dtype, order, **kw)
    dsB = _dataset(dB['X'], dB['labels'], dB['folds'], dtype, order, **kw)
    nA = None if dA['noise'] is None else np.array(dA['noise'], copy=True)
    nB = None if dB['noise'] is None else np.array(dB['noise'], copy=True)
    snapA, snapB = _snapshot(dsA, nA), _snapshot(dsB, nB)
    strict = bool(case.get('strict_keys'))
    weighting = case.get('weighting', 'number')
    wants = []
    for d in (dA, dB):
        folds = _effective_folds(case['method'], d['folds'], d['m'])
        wants.append(_spec_rdm(d['X'], d['cond'], d['n'], folds, case['method'], d['noise'], weighting, d['pl'], d['pw']))
    r1 = _unbalanced(dsA, case, nA)
    first = np.array(r1.dissimilarities, copy=True)
    first_labels = list(r1.pattern_descriptors['cond'])
    if not close(first[0], wants[0], TOL):
        return f"{case['method']}/{weighting}: first call {_fmt(first[0])} differs from the definition {_fmt(wants[0])}"
    msg = _changed(snapA, dsA, nA, strict)
    if msg:
        return f"{case['method']}: after one call {msg}"
    rB = _unbalanced(dsB, case, nB)
    if not _same_labels(rB.pattern_descriptors['cond'], dB['uniq']) or not close(rB.dissimilarities[0], wants[1], TOL):
        return (f"{case['method']}/{weighting}: a call with other content of the same shape, made after the first call, gives "
                f"{_fmt(rB.dissimilarities[0])} for {list(rB.pattern_descriptors['cond'])}, the definition {_fmt(wants[1])} for "
                f"{dB['uniq']}; the earlier call returned {_fmt(first[0])}")
    r2 = _unbalanced(dsA, case, nA)
    if not np.array_equal(r2.dissimilarities, first, equal_nan=True) or not _same_labels(r2.pattern_descriptors['cond'], first_labels):
        return (f"{case['method']}/{weighting}: the same call made twice gives {_fmt(first[0])} and then "
                f'{_fmt(r2.dissimilarities[0])}')
    if not np.array_equal(r1.dissimilarities, first, equal_nan=True) or not _same_labels(r1.pattern_descriptors['cond'], first_labels):
        return (f"{case['method']}: the result held by the caller changed while the library was called again: "
                f'{_fmt(r1.dissimilarities[0])}, it was {_fmt(first[0])}')
    # the caller scribbles over everything the library has handed out so far -- the arrays of the first result and the matrices
    # of the public helper that expands per-condition terms to pairs (a fresh object per call by its contract) -- and calls again
    if case.get('scribble', True):
        from rsatoolbox.util.matrix import row_col_indicator_rdm
        _unbalanced(dsA, case, nA).dissimilarities[...] = -7.0        # (a further result, not the one held for the later checks)
        n_c = len(first_labels)
        for mat in row_col_indicator_rdm(n_c):
            try:
                mat -= 3
            except Exception:       # (a sparse / read-only return value cannot be scribbled on: nothing to test)
                pass
        r3 = _unbalanced(dsA, case, nA)
        if not np.array_equal(r3.dissimilarities, first, equal_nan=True):
            return (f"{case['method']}/{weighting}: after the caller overwrote the arrays of an earlier result and of "
                    f'row_col_indicator_rdm({n_c}), the same call gives {_fmt(r3.dissimilarities[0])}, it gave {_fmt(first[0])}')
    # single-pair helper on the first two conditions, twice
    ra = [i for i in range(dA['m']) if dA['cond'][i] == 0]
    rb = [i for i in range(dA['m']) if dA['cond'][i] == 1]
    folds = _effective_folds(case['method'], dA['folds'], dA['m'])
    code = list(range(dA['m'])) if folds is None else _first_appearance(folds)[1]
    da, db = Dataset(_array(dA['X'][ra], dtype, order)), Dataset(_array(dA['X'][rb], dtype, order))
    cva, cvb = np.array([code[i] for i in ra], dtype=np.int64), np.array([code[i] for i in rb], dtype=np.int64)
    keep = [np.array(v, copy=True) for v in (da.measurements, db.measurements, cva, cvb)]
    ones = [calc_one_similarity(da, db, cva, cvb, method=case['method'], noise=nA, weighting=weighting,
                                prior_lambda=dA['pl'], prior_weight=dA['pw']) for _ in range(2)]
    ones = [(float(v), float(w)) for v, w in ones]
    if ones[0] != ones[1] and not all(x != x for x in ones[0] + ones[1]):
        return f"{case['method']}/{weighting}: calc_one_similarity called twice on the same input gives {ones[0]} and {ones[1]}"
    for v, k in zip((da.measurements, db.measurements, cva, cvb), keep):
        if not np.array_equal(v, k, equal_nan=True):
            return f"{case['method']}: calc_one_similarity changed one of its inputs"
    # the list call after the single calls
    if dA['labels'] == dB['labels']:
        with warnings.catch_warnings():
            warnings.simplefilter('ignore')
            both = calc_rdm_unbalanced([dsA, dsB], method=case['method'], descriptor='cond',
                                       noise=None if nA is None else [nA, nB],
                                       cv_descriptor='fold' if case.get('folds') is not None else None,
                                       prior_lambda=dA['pl'], prior_weight=dA['pw'], weighting=weighting)
        if not np.array_equal(both.dissimilarities[0], first[0], equal_nan=True) \
                or not close(both.dissimilarities[1], wants[1], TOL):
            return (f"{case['method']}/{weighting}: the list call after the single calls gives {_fmt(both.dissimilarities)}, the "
                    f'single calls gave {_fmt(first[0])} and {_fmt(rB.dissimilarities[0])}')
    for nm, snap, ds, nz in (('first', snapA, dsA, nA), ('second', snapB, dsB, nB)):
        msg = _changed(snap, ds, nz, strict)
        if msg:
            return f"{case['method']}: after the sequence of calls, {nm} dataset: {msg}"
    if not np.array_equal(r1.dissimilarities, first, equal_nan=True):
        return f"{case['method']}: the result held by the caller changed during the later calls"
    return None


_CHILD = r"""
import json, sys, warnings
warnings.simplefilter('ignore')
import contracts.C15_c  # noqa: registers the oracles
from vf.rt.harness import ORACLES
out = []
for name, case in json.load(sys.stdin):
    try:
        r = ORACLES[name](case)
    except Exception as e:
        r = 'exception %s: %s' % (type(e).__name__, e)
    out.append(r)
print('C15-CHILD-RESULT ' + json.dumps(out))
"""


@oracle('C15/hashseed')
def orc_hashseed(case):
    """the oracles of case['batch'] = [[oracle name, case], ...] hold as well in a NEW interpreter started with
    PYTHONHASHSEED = case['hashseed'] (same library, same sys.path): the result does not depend on the hash seed"""
    import os
    env = dict(os.environ)
    env['PYTHONHASHSEED'] = str(case['hashseed'])
    env['PYTHONPATH'] = os.pathsep.join(q for q in sys.path if q)
    env['PYTHONDONTWRITEBYTECODE'] = '1'
    proc = subprocess.run([sys.executable, '-c', _CHILD], input=json.dumps(case['batch']), capture_output=True, text=True,
                          env=env, timeout=600)
    line = [ln for ln in proc.stdout.splitlines() if ln.startswith('C15-CHILD-RESULT ')]
    if proc.returncode != 0 or not line:
        return f'interpreter with PYTHONHASHSEED={case["hashseed"]} failed (exit {proc.returncode}): {proc.stderr.strip()[-400:]}'
    results = json.loads(line[-1][len('C15-CHILD-RESULT '):])
    for (name, sub), r in zip(case['batch'], results):
        if r is not None:
            return f'with PYTHONHASHSEED={case["hashseed"]}: {name} on {json.dumps(sub)[:300]}: {r}'
    return None


# ----------------------------------------------------------------------------------------------------------------------
# domains
# ----------------------------------------------------------------------------------------------------------------------
def _rgs(L, kmax):
    """all restricted growth strings of length L (condition index sequences in first-appearance coding) with <= kmax values"""
    def rec(prefix, k):
        if len(prefix) == L:
            yield list(prefix)
            return
        for v in range(min(k + 1, kmax)):
            yield from rec(prefix + [v], max(k, v + 1))
    yield from rec([0], 1)


def _occurrence(seq):
    """fold = how often the condition has been seen before (first repetition -> fold 0, ...)"""
    seen, out = {}, []
    for c in seq:
        out.append(seen.get(c, 0))
        seen[c] = seen.get(c, 0) + 1
    return out


INT_NAMES = [3, 11, 20, 100]
STR_NAMES = ['a10', 'a9', 'b', 'c']          # sorted order differs from any numeric reading

FOLD_LABEL_SETS = {
    'int': [0, 1, 2, 3],
    'int-unsorted-negative': [7, -3, 100, 5],
    'int-huge': [2 ** 40 + 1, 2 ** 40, 5, -2 ** 41],
    'float-non-integer': [0.25, 0.75, 1.25, 1.75],
    'float-same-trunc': [-0.9, -0.2, 0.4, 0.8],
    'float-close': [1.0, 1.0 + 1e-9, 1.5, 2.0 - 1e-9],
    'string': ['runB', 'runA', 'runD', 'runC'],
    'numeric-string': ['10', '9', '2.5', '2'],
}


# sweep: fold label sets in further containers / dtypes / units (values, form); 'bool' only for designs with 2 folds
FOLD_LABEL_SETS_TYPED = {
    'int8': ([-128, 127, 0, 5], 'int8'),
    'uint8': ([255, 0, 128, 7], 'uint8'),
    'uint64-huge': ([2 ** 63 + 1, 2 ** 63, 3, 2 ** 64 - 1], 'uint64'),
    'float32': ([0.25, 0.75, 1.25, 1.5], 'float32'),
    'float-tiny': ([1e-20, 2e-20, -1e-20, 0.0], None),
    'float-huge': ([1e300, -1e300, 1e299, 0.0], None),
    'list-int': ([7, -3, 100, 5], 'list'),
    'list-float-same-trunc': ([-0.9, -0.2, 0.4, 0.8], 'list'),
    'tuple-str': (['runB', 'runA', 'runD', 'runC'], 'tuple'),
    'list-numeric-str': (['10', '9', '2.5', '2'], 'list'),
    'object-str': (['runB', 'runA', 'runD', 'runC'], 'object'),
    'bool': ([True, False], 'bool'),
}

# sweep: condition label sets (first appearance b, c, a = a 3-cycle of the sorted order) and the forms they are given in
COND_LABEL_SETS = {
    'str': (['b', 'c', 'a', 'a0'], ('list', 'tuple', 'object', 'array')),
    'numeric-str': (['10', '9', '2.5', '2'], ('list', 'object')),
    'int': ([20, 100, 3, 11], ('list', 'tuple', 'int8', 'uint8', 'float32', 'object')),
    'float': ([0.5, 8.0, -1.5, 0.25], ('list', 'tuple', 'float32', 'array')),
    'float-tiny': ([1e-20, 2e-20, -1e-20, 0.0], ('list', 'array')),
    'float-close': ([0.3, 0.30000000000000004, 0.29999999999999993, 1.0], ('list', 'array')),
    'bool': ([True, False], ('list', 'bool')),
}


def _two_fold_design(seq, F=3):
    """k-th observation of condition c -> fold (k + c) mod F: a condition observed twice or more lies in >= 2 folds"""
    return [(o + c) % F for o, c in zip(_occurrence(seq), seq)]


def _settings(thorough):
    """(method, noise) combinations"""
    out = []
    for method in METHODS:
        for noise in ((None, 'spd', 'eye') if method in NOISE_METHODS else (None,)):
            if noise == 'eye' and not thorough:
                continue
            out.append((method, noise))
    return out


def _cv_design(rs, n, F, reps):
    """cond index and fold index per observation: condition c has reps[c] observations in EVERY fold; shuffled rows"""
    cond, fold = [], []
    for f in range(F):
        for c in range(n):
            cond += [c] * reps[c]
            fold += [f] * reps[c]
    perm = rs.permutation(len(cond))
    return [cond[i] for i in perm], [fold[i] for i in perm]


def tier_c(run, thorough):
    bds = []
    Lmax = 6 if thorough else 5            # labelling domain
    Lpair = 5 if thorough else 4           # pair-loop domain (x all settings)

    # ---- 1. labelling: ALL label sequences x ALL first-appearance orders ------------------------------------------
    bd = Bounded(run, 'C15/first-appearance', 'C15/calc_rdm_unbalanced/oracle/first-appearance-labels',
                 'ALL label sequences of length 2..%d over 2..4 conditions x ALL assignments of sorted names to first-appearance '
                 'slots (every permutation) x int and string names; euclidean (+ one rotating other setting per sequence), '
                 '3 channels; descriptor=None for lengths 2..%d; plus (sweep, not exhaustive) 6 fixed sequences x 7 label sets (str, '
                 'numeric str, int, float, floats 1e-20 / 1 ulp apart, bool) given as list / tuple / object / int8 / uint8 / float32 / '
                 'bool arrays x 8 rotating settings (fold descriptor as list / tuple / int8 / float32 / object), and x 4 sets of '
                 'further descriptors (2-D, str list, varying within a condition) x condition descriptor first / last in the dict'
                 % (Lmax, Lmax),
                 exhaustive=True, function='calc_rdm_unbalanced')
    rot = [('correlation', 'number', None), ('mahalanobis', 'number', 'spd'), ('poisson', 'number', None),
           ('crossnobis', 'equal', 'spd'), ('poisson_cv', 'number', None), ('euclidean', 'equal', None)]
    count = 0
    for L in range(2, Lmax + 1):
        for seq in _rgs(L, 4):
            k = max(seq) + 1
            if k < 2:
                continue
            for perm in itertools.permutations(range(k)):
                for names in (INT_NAMES, STR_NAMES):
                    labels = [names[perm[c]] for c in seq]
                    case = dict(seed=count % 7, labels=labels, P=3, method='euclidean', weighting='number')
                    bd.check(orc_pairs, case, 'labels-str' if names is STR_NAMES else 'labels-int',
                             function='calc_rdm_unbalanced')
                    count += 1
                # one further setting per (sequence, permutation), rotating
                method, weighting, noise = rot[(count // 2) % len(rot)]
                labels = [STR_NAMES[perm[c]] for c in seq]
                case = dict(seed=count % 5, labels=labels, P=3, method=method, weighting=weighting, noise=noise)
                if method in CV_METHODS:
                    case['folds'] = _occurrence(seq)
                bd.check(orc_pairs, case, klass(case, 'labels-str'), function='calc_rdm_unbalanced')
        case = dict(seed=L, labels=list(range(L)), P=3, method='euclidean', weighting='number', descriptor_none=True)
        bd.check(orc_pairs, case, 'descriptor-none', function='calc_rdm_unbalanced')
        case = dict(seed=L, labels=[0] * L, P=3, method='poisson', weighting='number', descriptor_none=True)
        bd.check(orc_pairs, case, 'descriptor-none', function='calc_rdm_unbalanced')
    # sweep: the condition / fold descriptors as list, tuple, object array, small-int / float32 / bool arrays, float labels
    # (tiny, 1 ulp apart), further descriptors (2-D, str list, varying within a condition), condition descriptor last in the dict
    sweep_seqs = [[0, 1, 2, 0, 1, 2, 0], [0, 1, 0, 2, 2, 3, 1, 3, 0], [0, 0, 1, 2, 1, 0], [0, 1, 2, 3]]
    two_seqs = [[0, 1, 1, 0, 1], [0, 0, 1]]
    rot2 = [('euclidean', 'number', None, False), ('correlation', 'number', None, False), ('mahalanobis', 'number', 'spd', False),
            ('crossnobis', 'equal', 'spd', True), ('poisson', 'number', None, False), ('poisson_cv', 'number', None, True),
            ('euclidean', 'equal', None, True), ('correlation', 'equal', None, True)]
    fold_forms = [None, 'list', 'tuple', 'int8', 'float32', 'object']
    k = 0
    for setname, (names, forms) in COND_LABEL_SETS.items():
        for form in forms:
            for seq in (two_seqs if setname == 'bool' else sweep_seqs):
                for rep_ in range(2):
                    method, weighting, noise, with_folds = rot2[k % len(rot2)]
                    k += 1
                    case = dict(seed=k % 11, labels=[names[c] for c in seq], P=3, method=method, weighting=weighting,
                                cond_form=form)
                    if noise:
                        case['noise'] = noise
                    if with_folds:
                        case['folds'] = _two_fold_design(seq)
                        case['fold_form'] = fold_forms[(k // 2) % len(fold_forms)]
                    if rep_:
                        case['descriptor_none'] = True
                    cls = 'labels-%s-as-%s' % (setname, form)
                    if klass(case, cls) == cls:
                        bd.check(orc_pairs, case, cls, function='calc_rdm_unbalanced')
    extra_sets = [['vec2d'], ['str-list', 'vary'], ['vec2d-float', 'vary2d'], ['vary2d', 'vec2d', 'str-list']]
    for seq in sweep_seqs + two_seqs:
        for ex in extra_sets:
            for order in (None, 'reversed'):
                for dnone in (False, True):
                    method, weighting, noise, with_folds = rot2[k % len(rot2)]
                    k += 1
                    case = dict(seed=k % 11, labels=[STR_NAMES[(c + 2) % 4] for c in seq], P=3, method=method,
                                weighting=weighting, extras=ex)
                    if order:
                        case['desc_order'] = order
                    if noise:
                        case['noise'] = noise
                    if with_folds:
                        case['folds'] = _two_fold_design(seq)
                    if dnone:
                        case['descriptor_none'] = True
                    cls = 'extra-descriptors' + ('-cond-last' if order else '')
                    if klass(case, cls) == cls:
                        bd.check(orc_pairs, case, cls, function='_build_rdms')
    bd.done()
    bds.append(bd)

    # ---- 2. the definition: all condition-index sequences x all settings -------------------------------------------
    nans = ('none', 'chan', 'obs', 'chan+obs', 'row', 'disjoint') if thorough else ('none', 'chan', 'obs', 'row')
    bd = Bounded(run, 'C15/pair-loop', 'C15/calc_rdm_unbalanced/oracle/pair-loop',
                 'ALL condition-index sequences of length 2..%d over 2..4 conditions x 6 methods (noise None / SPD%s) x 2 weightings '
                 'x NaN pattern %s x fold descriptor absent / occurrence number; 4 channels, one seed per combination'
                 % (Lpair, ' / identity' if thorough else '', list(nans)), exhaustive=True, function='similarity.calc')
    for L in range(2, Lpair + 1):
        for seq in _rgs(L, 4):
            if max(seq) < 1:
                continue
            occ = _occurrence(seq)
            for method, noise in _settings(thorough):
                for weighting in ('number', 'equal'):
                    for nan in nans:
                        for folds in (None, occ):
                            case = dict(seed=L + 3 * len(nan), labels=seq, P=4, method=method, weighting=weighting, nan=nan)
                            if noise is not None:
                                case['noise'] = noise
                            if folds is not None:
                                case['folds'] = folds
                            bd.check(orc_pairs, case, klass(case, 'nan-' + nan if nan != 'none' else 'generic'),
                                     function='similarity.calc')
    bd.done()
    bds.append(bd)

    # ---- 3. seeded larger designs ----------------------------------------------------------------------------------
    n_seed = 90 if thorough else 16
    bd = Bounded(run, 'C15/pair-loop-random', 'C15/calc_rdm_unbalanced/oracle/pair-loop-random',
                 'seeded designs: 3..7 conditions, 4..16 observations in random order (half of them with every condition repeated), 2..6 channels, random fold assignment '
                 '(2..4 folds, int/float/string labels) or none, 6 methods x noise x 2 weightings x 5 NaN patterns, prior '
                 'lambda/weight varied; %d seeds per combination (noise matrix together with NaN channels: every third seed); plus (sweep) one '
                 '4-condition / 11-observation design with the data scaled by %s (poisson: 1e-3, 1e+6), precision fixed or scaled by '
                 '1/scale^2, and designs of (conditions, observations, channels) = %s, each x methods x noise x weighting / folds x NaN '
                 'none / per-observation (quick: two rotating combinations per setting for the larger designs), outside the classes of the known findings'
                 % (n_seed, '1e-12, 1e-20, 1e-26, 1e+6, 1e+12' if thorough else '1e-12, 1e-26, 1e+6, 1e+12',
                    '(10,26,17) (17,40,3) (30,70,64) (25,25,4) (4,9,1) (3,7,200) (2,2,1)'
                    + (' (40,100,5) (64,130,2) (12,60,33)' if thorough else '')), function='calc_rdm_unbalanced')
    for seed in range(n_seed):
        rs = np.random.RandomState(1000 + seed)
        for method, noise in _settings(True):
            for weighting in ('number', 'equal'):
                for nan in ('none', 'chan', 'obs', 'chan+obs', 'row'):
                    n = int(rs.randint(3, 8))
                    if rs.rand() < 0.5:          # every condition at least twice
                        m = int(rs.randint(2 * n, max(2 * n, 16) + 1))
                        seq = list(range(n)) * 2 + [int(v) for v in rs.randint(0, n, size=m - 2 * n)]
                    else:
                        m = int(rs.randint(max(4, n), 17))
                        seq = list(range(n)) + [int(v) for v in rs.randint(0, n, size=m - n)]
                    seq = [int(seq[i]) for i in rs.permutation(m)]
                    names = STR_NAMES + ['d', 'e', 'f'] if rs.rand() < 0.5 else [5, 2, 9, 1, 7, 3, 8]
                    P = int(rs.randint(2 if nan == 'none' else 4, 7))
                    case = dict(seed=seed, labels=[names[c] for c in seq], P=P, method=method, weighting=weighting, nan=nan)
                    if noise is not None:
                        case['noise'] = noise
                    if rs.rand() < (0.8 if method in CV_METHODS else 0.4):
                        F = int(rs.randint(2, 5))
                        kind = list(FOLD_LABEL_SETS)[int(rs.randint(len(FOLD_LABEL_SETS)))]
                        if rs.rand() < 0.6:     # k-th observation of a condition -> fold (k + shift) mod F: >= 2 folds per
                            occ = _occurrence(seq)                                     # repeated condition
                            fcode = [(occ[i] + seq[i]) % F for i in range(m)]
                        else:
                            fcode = [int(f) for f in rs.randint(0, F, size=m)]
                        case['folds'] = [FOLD_LABEL_SETS[kind][f] for f in fcode]
                    if _KIND[method] == 'poisson' and rs.rand() < 0.5:
                        case['pl'], case['pw'] = float(np.round(rs.rand() * 3, 2)), float(np.round(0.05 + rs.rand(), 2))
                    if _dangerous(case) and seed % 3:
                        continue                # noise matrix + NaN channels (separate interpreter): every third seed only
                    bd.check(orc_pairs, case, klass(case, 'nan-' + nan if nan != 'none' else 'generic'),
                             function='calc_rdm_unbalanced')
    # sweep: one unbalanced design in extreme but legitimate units (compared RELATIVE to the largest expected entry); the
    # precision either fixed or in the matching units (1 / scale^2); poisson: counts x 1e+6, rates x 1e-3 with the prior in the
    # same units.  Only settings outside the classes of the known findings (a condition always lies in >= 2 folds).
    useq = [2, 0, 1, 0, 2, 1, 1, 0, 2, 3, 3]
    unames = ['b', 'c', 'a', 'a0']
    scales = (1e-12, 1e-20, 1e-26, 1e+6, 1e+12) if thorough else (1e-12, 1e-26, 1e+6, 1e+12)
    for method, noise in _settings(False):
        pois = _KIND[method] == 'poisson'
        for sc in ((1e-3, 1e+6) if pois else scales):
            for weighting, with_folds in (('number', False), ('number', True), ('equal', True)):
                for nan in ('none', 'obs'):
                    for ns in ((None, 'inverse') if noise else (None,)):
                        case = dict(seed=3, labels=[unames[c] for c in useq], P=5, method=method, weighting=weighting, nan=nan,
                                    scale=sc)
                        if pois and sc < 1:
                            case.update(pl=sc, pw=0.1)
                        if noise:
                            case['noise'] = noise
                        if ns:
                            case['noise_scale'] = ns
                        if with_folds:
                            case['folds'] = _two_fold_design(useq)
                        cls = 'units-%g' % sc
                        if not _dangerous(case) and klass(case, cls) == cls:
                            bd.check(orc_pairs, case, cls, function='calc_rdm_unbalanced')
    # sweep: sizes beyond the seeded designs (more conditions / observations / channels, a single channel, one observation
    # per condition for many conditions)
    sizes = [(10, 26, 17), (17, 40, 3), (30, 70, 64), (25, 25, 4), (4, 9, 1), (3, 7, 200), (2, 2, 1)]
    if thorough:
        sizes += [(40, 100, 5), (64, 130, 2), (12, 60, 33)]
    kq = 0
    for n, m, P in sizes:
        rs = np.random.RandomState(8000 + n + m + P)
        seq = list(range(n)) * (2 if m >= 2 * n else 1)
        seq = seq + [int(v) for v in rs.randint(0, n, size=m - len(seq))]
        seq = [int(seq[i]) for i in rs.permutation(m)]
        names = [int(v) for v in rs.permutation(1000)[:n]]
        for method, noise in _settings(False):
            if P == 1 and method == 'correlation':
                continue
            combos = [(w, f, nan) for (w, f) in (('number', False), ('number', True), ('equal', True))
                      for nan in (('none', 'obs') if P >= 4 else ('none',))]
            if not thorough and m * P > 150:         # quick: the larger designs with two rotating combinations per setting
                kq += 1
                combos = [combos[kq % len(combos)], combos[(kq + 3) % len(combos)]]
            for weighting, with_folds, nan in combos:
                case = dict(seed=n, labels=[names[c] for c in seq], P=P, method=method, weighting=weighting, nan=nan)
                if noise:
                    case['noise'] = noise
                if with_folds:
                    case['folds'] = _two_fold_design(seq, 4)
                cls = 'size-n%d-m%d-P%d' % (n, m, P)
                if not _dangerous(case) and klass(case, cls) == cls:
                    bd.check(orc_pairs, case, cls, function='similarity.calc')
    bd.done()
    bds.append(bd)

    # ---- 4. agreement with calc_rdm --------------------------------------------------------------------------------
    n_seed = 40 if thorough else 8
    bd = Bounded(run, 'C15/agree-calc_rdm', 'C15/calc_rdm_unbalanced/oracle/agrees-with-calc_rdm',
                 'seeded: one observation per condition (2..7 conditions, 4 non-cv methods, labels in random order or '
                 'descriptor=None); euclidean/mahalanobis with ALL condition-index sequences of length <= %d and random '
                 'repetition counts (<= 14 observations); crossnobis (noise None/SPD/identity) with 2..4 folds and 1..3 '
                 'observations per condition and fold, poisson_cv with one; int/float/string fold labels; both weightings; '
                 'float and int data, C/F order; %d seeds; plus (sweep) fixed designs of the three kinds with the data scaled by 1e-12, '
                 '1e-26, 1e+6, 1e+12 (precision in matching units), labels / folds as list / tuple, and float32 / uint8 / int16 / uint16 '
                 'data x C / F / strided' % (Lmax, n_seed), function='calc_rdm_unbalanced')
    for seed in range(n_seed):
        rs = np.random.RandomState(2000 + seed)
        for weighting in ('number', 'equal'):
            # (a) one observation per condition
            for method, noise in (('euclidean', None), ('correlation', None), ('mahalanobis', None), ('mahalanobis', 'spd'),
                                  ('poisson', None)):
                n = int(rs.randint(2, 8))
                names = (STR_NAMES + ['d', 'e', 'f']) if rs.rand() < 0.5 else [5, 2, 9, 1, 7, 3, 8]
                labels = [names[int(i)] for i in rs.permutation(n)]
                case = dict(seed=seed, labels=labels, P=int(rs.randint(3, 7)), method=method, weighting=weighting, kind='single')
                if noise:
                    case['noise'] = noise
                if rs.rand() < 0.4:
                    case['values'], case['dtype'] = 'int', 'int64'
                if rs.rand() < 0.4:
                    case['order'] = 'F'
                if method == 'poisson' and rs.rand() < 0.6:
                    case['pl'], case['pw'] = float(np.round(rs.rand() * 3, 2)), float(np.round(0.05 + rs.rand(), 2))
                bd.check(orc_agree, case, klass(case, 'single-observation'), function='calc_rdm_unbalanced')
                case = dict(case, descriptor_none=True)
                bd.check(orc_agree, case, klass(case, 'single-observation'), function='calc_rdm_unbalanced')
            # (b) euclidean / mahalanobis, any repetition counts
            for method, noise in (('euclidean', None), ('mahalanobis', None), ('mahalanobis', 'spd'), ('mahalanobis', 'eye')):
                n = int(rs.randint(2, 7))
                m = int(rs.randint(n + 1, 15))
                seq = list(range(n)) + [int(v) for v in rs.randint(0, n, size=m - n)]
                seq = [seq[int(i)] for i in rs.permutation(m)]
                names = (STR_NAMES + ['d', 'e', 'f']) if rs.rand() < 0.5 else [5, 2, 9, 1, 7, 3, 8]
                case = dict(seed=seed, labels=[names[c] for c in seq], P=int(rs.randint(2, 7)), method=method,
                            weighting=weighting, kind='repeats')
                if noise:
                    case['noise'] = noise
                if rs.rand() < 0.3:
                    case['values'], case['dtype'] = 'int', 'int32'
                bd.check(orc_agree, case, klass(case, 'repeats'), function='calc_rdm_unbalanced')
            # (c) cross-validated methods, balanced over folds
            for method, noise in (('crossnobis', None), ('crossnobis', 'spd'), ('crossnobis', 'eye'), ('poisson_cv', None)):
                n, F = int(rs.randint(2, 6)), int(rs.randint(2, 5))
                reps = [1] * n if method == 'poisson_cv' else [int(r) for r in rs.randint(1, 4, size=n)]
                cond, fold = _cv_design(rs, n, F, reps)
                names = STR_NAMES + ['d', 'e'] if rs.rand() < 0.5 else [5, 2, 9, 1, 7, 3]
                kind = list(FOLD_LABEL_SETS)[int(rs.randint(len(FOLD_LABEL_SETS)))]
                case = dict(seed=seed, labels=[names[c] for c in cond], folds=[FOLD_LABEL_SETS[kind][f] for f in fold],
                            P=int(rs.randint(2, 7)), method=method, weighting=weighting, kind='cv')
                if noise:
                    case['noise'] = noise
                if method == 'poisson_cv' and rs.rand() < 0.6:
                    case['pl'], case['pw'] = float(np.round(rs.rand() * 3, 2)), float(np.round(0.05 + rs.rand(), 2))
                bd.check(orc_agree, case, 'cv-balanced,folds-' + kind, function='calc_rdm_unbalanced')
    # euclidean / mahalanobis on all index sequences
    for L in range(2, Lmax + 1):
        for seq in _rgs(L, 4):
            if max(seq) < 1:
                continue
            for method, noise in (('euclidean', None), ('mahalanobis', 'spd')):
                case = dict(seed=L, labels=[STR_NAMES[(c + 1) % 4] for c in seq], P=3, method=method, weighting='number',
                            kind='repeats')
                if noise:
                    case['noise'] = noise
                bd.check(orc_agree, case, 'repeats', function='calc_rdm_unbalanced')
    # sweep: the agreement in extreme units (relative comparison) and with list / tuple descriptors, float32 / uint8 data
    aseq = [1, 0, 2, 0, 1, 1, 2, 0, 3]
    rs = np.random.RandomState(2999)
    for sc in (1e-12, 1e-26, 1e+6, 1e+12):
        for form in ('list', 'tuple'):
            single = [STR_NAMES[i] for i in (2, 0, 3, 1)]
            for method, noise in (('euclidean', None), ('correlation', None), ('mahalanobis', 'spd')):
                case = dict(seed=5, labels=single, P=4, method=method, weighting='number', kind='single', scale=sc, cond_form=form)
                if noise:
                    case.update(noise=noise, noise_scale='inverse')
                bd.check(orc_agree, case, 'units-%g' % sc, function='calc_rdm_unbalanced')
            for method, noise in (('euclidean', None), ('mahalanobis', 'spd')):
                case = dict(seed=6, labels=[STR_NAMES[c] for c in aseq], P=4, method=method, weighting='number', kind='repeats',
                            scale=sc, cond_form=form)
                if noise:
                    case.update(noise=noise, noise_scale='inverse')
                bd.check(orc_agree, case, 'units-%g' % sc, function='calc_rdm_unbalanced')
            for method, noise in (('crossnobis', None), ('crossnobis', 'spd')):
                cond, fold = _cv_design(rs, 3, 3, [1, 2, 1])
                case = dict(seed=7, labels=[STR_NAMES[c] for c in cond], folds=[FOLD_LABEL_SETS['string'][f] for f in fold], P=4,
                            method=method, weighting='equal', kind='cv', scale=sc, cond_form=form, fold_form=form)
                if noise:
                    case['noise'] = noise
                bd.check(orc_agree, case, 'units-%g' % sc, function='calc_rdm_unbalanced')
                if noise and form == 'list':
                    # the precision in the matching units (entries of size 1 / scale**2, full matrix)
                    bd.check(orc_agree, dict(case, noise_scale='inverse'), 'units-%g,precision-in-matching-units' % sc,
                             function='calc_rdm_unbalanced')
    for dtype, values in (('float32', 'f32'), ('uint8', 'int'), ('int16', 'int-large'), ('uint16', 'int-large')):
        for order in ('C', 'F', 'strided'):
            for method, noise in (('euclidean', None), ('mahalanobis', 'spd'), ('poisson', None), ('correlation', None)):
                rep_ok = method in ('euclidean', 'mahalanobis')
                labels = [INT_NAMES[c] for c in aseq] if rep_ok else [INT_NAMES[i] for i in (2, 0, 3, 1)]
                if method == 'poisson' and values == 'f32':
                    continue
                case = dict(seed=8, labels=labels, P=4, method=method, weighting='number', kind='repeats' if rep_ok else 'single',
                            values=values, dtype=dtype, order=order)
                if noise:
                    case['noise'] = noise
                bd.check(orc_agree, case, 'data-%s-%s' % (dtype, order), function='ensure_double')
    bd.done()
    bds.append(bd)

    # ---- 5. fold labels of any type ---------------------------------------------------------------------------------
    n_seed = 30 if thorough else 4
    bd = Bounded(run, 'C15/fold-relabel', 'C15/calc_rdm_unbalanced/oracle/fold-exclusion',
                 'seeded designs (3..5 conditions, 6..14 observations, 2..4 folds, random = unbalanced fold assignment and '
                 'fold-balanced) x 6 methods x 2 weightings, each under 8 fold label sets (int, negative/unsorted int, huge int, '
                 'non-integer float, floats truncating to one integer, floats 1e-9 apart, strings, numeric strings); %d seeds; plus '
                 '(sweep) fold-balanced designs with 2 / 4 folds x 6 methods under %d further label sets (int8, uint8, uint64 > 2^63, '
                 'float32, floats 1e-20 apart, floats 1e300, bool, and list / tuple / object-array containers); %d seeds'
                 % (n_seed, len(FOLD_LABEL_SETS_TYPED), 6 if thorough else 2), function='calc_rdm_unbalanced')
    for seed in range(n_seed):
        rs = np.random.RandomState(3000 + seed)
        for method in METHODS:
            for weighting in ('number', 'equal'):
                for balanced in (False, True):
                    n, F = int(rs.randint(3, 6)), int(rs.randint(2, 5))
                    if balanced:
                        cond, fold = _cv_design(rs, n, F, [1] * n)
                    else:
                        m = int(rs.randint(6, 15))
                        cond = [int(c) for c in rs.randint(0, n, size=m)]
                        fold = [int(f) for f in rs.randint(0, F, size=m)]
                    case = dict(seed=seed, labels=cond, fold_codes=fold, folds=fold, P=4, method=method, weighting=weighting,
                                label_sets=FOLD_LABEL_SETS)
                    if method == 'crossnobis' and rs.rand() < 0.5:
                        case['noise'] = 'spd'
                    bd.check(orc_folds, case, klass(case, 'folds-balanced' if balanced else 'folds-unbalanced'),
                             function='calc_rdm_unbalanced')
    # sweep: fold labels in further containers / dtypes / units (2 folds: additionally bool)
    for seed in range(6 if thorough else 2):
        rs = np.random.RandomState(3500 + seed)
        for method in METHODS:
            for F in (2, 4):
                n = int(rs.randint(3, 6))
                cond, fold = _cv_design(rs, n, F, [int(r) for r in rs.randint(1, 3, size=n)])
                sets = {k: v for k, v in FOLD_LABEL_SETS_TYPED.items() if F <= len(v[0])}
                case = dict(seed=seed, labels=cond, fold_codes=fold, folds=fold, P=4, method=method,
                            weighting='equal' if (seed + F) % 4 == 0 else 'number',
                            label_sets={k: v[0] for k, v in sets.items()},
                            label_forms={k: v[1] for k, v in sets.items() if v[1]})
                if method == 'crossnobis' and F == 4:
                    case['noise'] = 'spd'
                bd.check(orc_folds, case, klass(case, 'folds-typed'), function='calc_rdm_unbalanced')
    bd.done()
    bds.append(bd)

    # ---- 6. NaN channels --------------------------------------------------------------------------------------------
    n_seed = 30 if thorough else 4
    bd = Bounded(run, 'C15/nan-pattern', 'C15/calc_rdm_unbalanced/oracle/nan-iff-no-valid-product',
                 'seeded designs (3..5 conditions, 4..12 observations, 4..6 channels), NaN patterns none / chan / obs / row / '
                 'disjoint (two conditions without a common valid channel), 6 methods x noise x 2 weightings, with / without '
                 'folds; %d seeds' % n_seed, function='similarity.calc')
    for seed in range(n_seed):
        rs = np.random.RandomState(4000 + seed)
        for method, noise in _settings(False):
            for weighting in ('number', 'equal'):
                for nan in ('none', 'chan', 'obs', 'row', 'disjoint'):
                    n = int(rs.randint(3, 6))
                    m = int(rs.randint(max(4, n), 13))
                    seq = list(range(n)) + [int(v) for v in rs.randint(0, n, size=m - n)]
                    seq = [seq[int(i)] for i in rs.permutation(m)]
                    case = dict(seed=seed, labels=seq, P=int(rs.randint(4, 7)), method=method, weighting=weighting, nan=nan)
                    if noise:
                        case['noise'] = noise
                    if rs.rand() < 0.5:
                        case['folds'] = [int(f) for f in rs.randint(0, 3, size=m)]
                    bd.check(orc_nan_pattern, case, klass(case, 'nan-' + nan if nan != 'none' else 'generic'),
                             function='similarity.calc')
    bd.done()
    bds.append(bd)

    n_seed = 30 if thorough else 4
    bd = Bounded(run, 'C15/nan-channel', 'C15/calc_rdm_unbalanced/oracle/all-nan-channel-has-no-effect',
                 'seeded designs (2..5 conditions, 3..12 observations, 2..5 channels, optionally with further per-observation '
                 'NaNs) with 1..2 all-NaN channels inserted at every position class (first / middle / last); 6 methods x noise x '
                 '2 weightings, with / without folds; %d seeds' % n_seed, function='similarity.calc')
    for seed in range(n_seed):
        rs = np.random.RandomState(5000 + seed)
        for method, noise in _settings(False):
            for weighting in ('number', 'equal'):
                for where in ('first', 'middle', 'last', 'two'):
                    n = int(rs.randint(2, 6))
                    m = int(rs.randint(max(3, n), 13))
                    seq = list(range(n)) + [int(v) for v in rs.randint(0, n, size=m - n)]
                    seq = [seq[int(i)] for i in rs.permutation(m)]
                    P = int(rs.randint(3, 6))
                    ins = dict(first=[0], middle=[P // 2], last=[P], two=[1, P + 1])[where]
                    # nan='inserted' only marks the case as one with NaN channels (classes / isolation; _nan_mask ignores
                    # the value); 'two' additionally has per-observation NaNs in the remaining channels
                    case = dict(seed=seed, labels=seq, P=P, method=method, weighting=weighting, insert=ins,
                                nan='obs' if where == 'two' else 'inserted')
                    if noise:
                        case['noise'] = noise
                    if rs.rand() < 0.5:
                        case['folds'] = [int(f) for f in rs.randint(0, 3, size=m)]
                    bd.check(orc_nan_channel, case, klass(case, 'nan-channel-inserted'), function='similarity.calc')
    bd.done()
    bds.append(bd)

    # ---- 7. dtype / memory layout -----------------------------------------------------------------------------------
    n_seed = 20 if thorough else 3
    bd = Bounded(run, 'C15/dtype-layout', 'C15/calc_rdm_unbalanced/oracle/dtype-and-layout',
                 'seeded integer-valued designs (2..5 conditions, 3..10 observations, 3..5 channels) given as float64/float32/'
                 'int64/int32/int16/uint8 x C/F/strided; float designs with NaN as float64 C/F/strided; 6 methods x noise x '
                 'weighting number (+ equal with folds); %d seeds; plus (sweep) non-integer float32-representable designs as float32 '
                 'C/F/strided, integer designs with values < 30000 as int64/int32/int16/uint16/float32 and < 65536 as uint16/uint32/int32/'
                 'float32, precision as strided view; '
                 '%d seeds' % (n_seed, 6 if thorough else 2), function='ensure_double')
    int_variants = [['float64', 'C'], ['float64', 'F'], ['float64', 'strided'], ['float32', 'C'], ['float32', 'F'],
                    ['int64', 'C'], ['int64', 'F'], ['int32', 'strided'], ['int16', 'C'], ['uint8', 'F']]
    nan_variants = [['float64', 'C'], ['float64', 'F'], ['float64', 'strided']]
    for seed in range(n_seed):
        rs = np.random.RandomState(6000 + seed)
        for method, noise in _settings(False):
            for mode in ('int', 'nan'):
                for weighting, with_folds in (('number', False), ('number', True), ('equal', True)):
                    n = int(rs.randint(2, 6))
                    m = int(rs.randint(max(3, n), 11))
                    seq = list(range(n)) + [int(v) for v in rs.randint(0, n, size=m - n)]
                    seq = [seq[int(i)] for i in rs.permutation(m)]
                    case = dict(seed=seed, labels=seq, P=int(rs.randint(3, 6)), method=method, weighting=weighting)
                    if mode == 'int':
                        case.update(values='int', variants=int_variants)
                    else:
                        case.update(nan='obs', variants=nan_variants)
                    if noise:
                        case['noise'] = noise
                    if with_folds:
                        case['folds'] = [int(f) for f in rs.randint(0, 3, size=m)]
                    if _dangerous(case):
                        continue                    # covered (in isolation) by the pair-loop and NaN domains
                    bd.check(orc_layout, case, klass(case, 'int-valued' if mode == 'int' else 'float-nan'),
                             function='ensure_double')
    # sweep: non-integer float32 data, integers needing 15 bits as int16 / uint16 / int32 / int64 / float32, strided precision
    f32_variants = [['float64', 'C'], ['float32', 'C'], ['float32', 'F'], ['float32', 'strided'], ['float64', 'strided']]
    big_variants = [['float64', 'C'], ['int64', 'F'], ['int32', 'strided'], ['int16', 'C'], ['uint16', 'F'], ['float32', 'C'],
                    ['uint16', 'strided']]
    u16_variants = [['float64', 'C'], ['uint16', 'C'], ['uint16', 'F'], ['uint16', 'strided'], ['int32', 'C'], ['uint32', 'F'],
                    ['float32', 'C']]
    for seed in range(6 if thorough else 2):
        rs = np.random.RandomState(6500 + seed)
        for method, noise in _settings(False):
            for mode in ('f32', 'int-large', 'u16'):
                for weighting, with_folds in (('number', False), ('equal', True)):
                    n = int(rs.randint(2, 5))
                    seq = list(range(n)) * 2 + [int(v) for v in rs.randint(0, n, size=int(rs.randint(0, 4)))]
                    seq = [seq[int(i)] for i in rs.permutation(len(seq))]
                    case = dict(seed=seed, labels=seq, P=int(rs.randint(3, 6)), method=method, weighting=weighting, values=mode,
                                variants=f32_variants if mode == 'f32' else big_variants)
                    if mode == 'u16':               # the upper half of the unsigned range
                        case.update(values='int-large', vmax=65536, variants=u16_variants)
                    if noise:
                        case.update(noise=noise, noise_layout='strided')
                    if with_folds:
                        case['folds'] = _two_fold_design(seq)
                    cls = {'f32': 'float32-non-integer', 'int-large': 'int-15-bit', 'u16': 'uint16-full-range'}[mode]
                    if klass(case, cls) == cls:
                        bd.check(orc_layout, case, cls, function='ensure_double')
    if True:   # repaired in /repo f8bb1287 (was pending triage): noise-dtype-float32 / noise-dtype-int64 (an integer-valued precision matrix given as float32 or
        #        int64 array: calc_rdm accepts it, calc_rdm_unbalanced raises ValueError 'Buffer dtype mismatch')
        for ndt in ('float32', 'int64'):
            for method in NOISE_METHODS:
                case = dict(seed=1, labels=[0, 1, 2, 0, 1, 2, 0], folds=[0, 0, 0, 1, 1, 1, 2], P=4, method=method,
                            weighting='number', noise='intspd', noise_dtype=ndt, variants=[['float64', 'C'], ['int64', 'C']],
                            values='int')
                bd.check(orc_layout, case, 'noise-dtype-' + ndt, function='calc_rdm_unbalanced')
    bd.done()
    bds.append(bd)

    # ---- 8. single-pair helper --------------------------------------------------------------------------------------
    n_seed = 24 if thorough else 4
    bd = Bounded(run, 'C15/calc-one', 'C15/calc_one_similarity/oracle/agrees-with-full-computation',
                 'seeded designs (2..5 conditions, 3..12 observations, 3..5 channels), every condition pair incl. a==a; 6 methods '
                 'x noise x 2 weightings x NaN none/chan/obs, with / without folds, float64-C / int64 / float64-F inputs, prior varied; '
                 '%d seeds; plus (sweep) one design with the data scaled by 1e-12, 1e-26, 1e+12 (poisson 1e-3, 1e+6; precision in '
                 'matching units) and as float32-strided / uint16-F' % n_seed, function='calc_one_similarity')
    for seed in range(n_seed):
        rs = np.random.RandomState(7000 + seed)
        for method, noise in _settings(False):
            for weighting in ('number', 'equal'):
                for nan in ('none', 'chan', 'obs'):
                    for with_folds in (False, True):
                        n = int(rs.randint(2, 6))
                        m = int(rs.randint(max(3, n), 13))
                        seq = list(range(n)) + [int(v) for v in rs.randint(0, n, size=m - n)]
                        seq = [seq[int(i)] for i in rs.permutation(m)]
                        case = dict(seed=seed, labels=seq, P=int(rs.randint(3, 6)), method=method, weighting=weighting, nan=nan)
                        if noise:
                            case['noise'] = noise
                        if with_folds:
                            case['folds'] = [int(f) for f in rs.randint(0, 3, size=m)]
                        r = rs.rand()
                        if nan == 'none' and r < 0.3:
                            case.update(values='int', dtype='int64')
                        elif r < 0.6:
                            case['order'] = 'F'
                        if _KIND[method] == 'poisson' and rs.rand() < 0.6:
                            case['pl'], case['pw'] = float(np.round(rs.rand() * 3, 2)), float(np.round(0.05 + rs.rand(), 2))
                        bd.check(orc_calc_one, case, klass(case, 'nan-' + nan if nan != 'none' else 'generic'),
                                 function='calc_one_similarity')
    # sweep: the helper in extreme units (relative comparison) and on float32 / uint16 / strided data
    oseq = [1, 0, 2, 0, 1, 1, 2, 0, 2]
    for method, noise in _settings(False):
        pois = _KIND[method] == 'poisson'
        for weighting, with_folds in (('number', False), ('equal', True)):
            variants = [('units-%g' % sc, dict(scale=sc)) for sc in ((1e-3, 1e+6) if pois else (1e-12, 1e-26, 1e+12))]
            variants += [('data-float32', dict(values='f32', dtype='float32', order='strided')),
                         ('data-uint16', dict(values='int-large', vmax=65536, dtype='uint16', order='F'))]
            for cls, extra in variants:
                case = dict(seed=4, labels=oseq, P=4, method=method, weighting=weighting)
                case.update(extra)
                if pois and extra.get('scale', 1) < 1:
                    case.update(pl=extra['scale'], pw=0.1)
                if noise:
                    case['noise'] = noise
                    if 'scale' in extra:
                        case['noise_scale'] = 'inverse'
                if with_folds:
                    case['folds'] = _two_fold_design(oseq)
                if klass(case, cls) == cls:
                    bd.check(orc_calc_one, case, cls, function='calc_one_similarity')
    bd.done()
    bds.append(bd)

    # ---- 9. list of datasets ----------------------------------------------------------------------------------------
    bd = Bounded(run, 'C15/list', 'C15/calc_rdm_unbalanced/oracle/list-forwards-options',
                 'lists of 2..3 datasets with the same label sequence; 6 methods x 2 weightings, folds present, non-default '
                 'prior, noise None / one matrix / one per dataset; (sweep) datasets as list / tuple, precisions as list / tuple / '
                 '3-D array', function='calc_rdm_unbalanced')
    seq = [2, 0, 1, 0, 2, 1, 1, 0]
    folds = [0, 0, 0, 1, 1, 1, 2, 2]
    for method in METHODS:
        for weighting in ('number', 'equal'):
            for n_ds in (2, 3):
                for nmode in (('none', 'one', 'each') if method in NOISE_METHODS else ('none',)):
                    case = dict(seed=n_ds, labels=seq, folds=folds, P=4, method=method, weighting=weighting, n_ds=n_ds,
                                pl=2.0, pw=0.5, noise_mode=nmode)
                    if nmode != 'none':
                        case['noise'] = 'spd'
                    bd.check(orc_list, case, 'list,noise-' + nmode, function='calc_rdm_unbalanced')
                    # sweep: the datasets as tuple, the precisions as tuple / 3-D array
                    for dc, nc in ((('tuple', None),) if nmode != 'each' else (('tuple', 'tuple'), (None, 'array3d'))):
                        if n_ds == 3 or nmode == 'each':
                            c2 = dict(case, ds_container=dc, noise_container=nc)
                            bd.check(orc_list, c2, 'list-as-%s,noise-as-%s' % (dc or 'list', nc or ('list' if nmode == 'each' else nmode)),
                                     function='calc_rdm_unbalanced')
    bd.done()
    bds.append(bd)

    # ---- 10. sweep: call sequences ---------------------------------------------------------------------------------------
    n_seed = 5 if thorough else 1
    bd = Bounded(run, 'C15/call-sequence', 'C15/calc_rdm_unbalanced/oracle/call-sequence',
                 'call(A), call(B: same shape and options, other measurements [and other label order]), call(A), calc_one_similarity '
                 'twice, list call [A, B]: every result = definition, repeated calls identical, held results and all inputs '
                 '(measurements, descriptors and their container types, precision) unchanged, no descriptor added to the '
                 "caller's dataset; 9 settings x 3 weighting / fold combinations x same / other label order, data as float64-C / "
                 'int64 / float32-F, descriptors as arrays / lists / tuples, with further descriptors, NaN none / per-observation; '
                 '%d seeds; outside the classes of the known findings' % n_seed, function='calc_rdm_unbalanced')
    cseq = [1, 0, 2, 0, 1, 1, 2, 0, 2]
    cseq_b = [0, 2, 2, 1, 0, 1, 2, 0, 1]
    forms = [dict(), dict(cond_form='list', fold_form='list'), dict(cond_form='tuple', extras=['vec2d', 'vary']),
             dict(extras=['str-list'], desc_order='reversed')]
    typed = [dict(), dict(values='int', dtype='int64'), dict(values='f32', dtype='float32', order='F')]
    k = 0
    pending_calls = []
    for seed in range(n_seed):
        for method, noise in _settings(False):
            for weighting, with_folds in (('number', False), ('number', True), ('equal', True)):
                for other_order in (False, True):
                    k += 1
                    case = dict(seed=seed, labels=[STR_NAMES[c] for c in cseq], P=4, method=method, weighting=weighting,
                                strict_keys=True)
                    case.update(forms[k % len(forms)])
                    case.update(typed[(k // 2) % len(typed)])
                    if 'values' not in case and k % 3 == 0 and method != 'correlation':
                        case['nan'] = 'obs'
                    if other_order:
                        case['labels_b'] = [STR_NAMES[c] for c in cseq_b]
                    if noise:
                        case['noise'] = noise
                    if with_folds:
                        case['folds'] = _two_fold_design(cseq)
                    elif method in CV_METHODS:
                        # the fall-back to the row index ADDS an 'index' descriptor to the caller's dataset
                        pending_calls.append(dict(case))
                        case['strict_keys'] = False
                    if _dangerous(case) or klass(case, 'x') != 'x':
                        continue
                    bd.check(orc_calls, case, 'calls-other-label-order' if other_order else 'calls-same-labels',
                             function='calc_rdm_unbalanced')
    if False:  # NOT a C15 clause (dropped after triage; the statement does not say the caller's dataset stays unchanged): cv-fallback-adds-index-descriptor
        for case in pending_calls:
            bd.check(orc_calls, case, 'cv-fallback-adds-index-descriptor', function='calc_rdm_unbalanced')
    bd.done()
    bds.append(bd)

    # ---- 11. sweep: environment (hash seed) ------------------------------------------------------------------------------
    batch = []
    hseq = [1, 0, 2, 0, 1, 1, 2, 0, 3, 3]
    hlab = [STR_NAMES[c] for c in hseq]
    hfold = [FOLD_LABEL_SETS['string'][f] for f in _two_fold_design(hseq)]
    for i, (method, noise) in enumerate(_settings(False)):
        for j, (weighting, with_folds) in enumerate((('number', False), ('equal', True))):
            case = dict(seed=i, labels=hlab, P=4, method=method, weighting=weighting)
            case.update([dict(), dict(cond_form='list', fold_form='list'), dict(cond_form='object', extras=['str-list', 'vec2d']),
                         dict(cond_form='tuple', desc_order='reversed', extras=['vary'])][(i + j) % 4])
            if noise:
                case['noise'] = noise
            if with_folds:
                case['folds'] = hfold
            if klass(case, 'x') != 'x':
                continue
            batch.append(['C15/pair-loop', case])
            batch.append(['C15/calc-one', {k_: v for k_, v in case.items() if k_ not in ('cond_form', 'fold_form', 'extras',
                                                                                             'desc_order')}])
            if with_folds or method not in CV_METHODS:
                batch.append(['C15/call-sequence', dict(case, strict_keys=True)])
    for method, noise in (('euclidean', None), ('mahalanobis', 'spd')):
        case = dict(seed=2, labels=hlab, P=4, method=method, weighting='number', kind='repeats', cond_form='list')
        if noise:
            case['noise'] = noise
        batch.append(['C15/agree-calc_rdm', case])
    rs = np.random.RandomState(9000)
    for method in CV_METHODS:
        cond, fold = _cv_design(rs, 4, 3, [1] * 4)
        batch.append(['C15/agree-calc_rdm', dict(seed=3, labels=[STR_NAMES[c] for c in cond], P=4, method=method, weighting='number',
                                                 folds=[FOLD_LABEL_SETS['string'][f] for f in fold], kind='cv')])
        batch.append(['C15/fold-relabel', dict(seed=4, labels=cond, fold_codes=fold, folds=fold, P=4, method=method,
                                               weighting='number', label_sets=FOLD_LABEL_SETS)])
    batch.append(['C15/list', dict(seed=2, labels=[STR_NAMES[c] for c in [2, 0, 1, 0, 2, 1, 1, 0]],
                                   folds=[FOLD_LABEL_SETS['string'][f] for f in [0, 0, 0, 1, 1, 1, 2, 2]], P=4, method='crossnobis',
                                   weighting='number', n_ds=3, pl=2.0, pw=0.5, noise_mode='each', noise='spd')])
    hashseeds = (1, 2, 3, 31337, 4294967295) if thorough else (1, 31337)
    bd = Bounded(run, 'C15/hashseed', 'C15/calc_rdm_unbalanced/oracle/independent-of-hash-seed',
                 'new interpreters with PYTHONHASHSEED in %s (this process: %s), each running %d cases of the oracles pair-loop / '
                 'calc-one / call-sequence / agree-calc_rdm / fold-relabel / list with string condition and fold labels (arrays, '
                 'lists, tuples, object arrays), outside the classes of the known findings'
                 % (list(hashseeds), __import__('os').environ.get('PYTHONHASHSEED', 'unset'), len(batch)),
                 function='calc_rdm_unbalanced')
    for hs in hashseeds:
        bd.check(orc_hashseed, dict(hashseed=hs, batch=batch), 'PYTHONHASHSEED=%d' % hs, function='calc_rdm_unbalanced')
    bd.done()
    bds.append(bd)
    _stop_worker()
    return bds
