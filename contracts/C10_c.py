"""C10, bounded run-time tier (tier C): RDM container operations never change which value belongs to which pair.

Model-based exploration.  Every RDM and every condition of the source objects carries a unique GHOST id in an
extra descriptor ('rid' / 'cid'); all other descriptor values are functions of the ghost id (`_rdesc`, `_pdesc`:
str/int valued, unique and duplicated), and the dissimilarity of RDM g for the unordered pair {a, b} of conditions
is the distinct sentinel `_val(g, a, b)` (or NaN where the source says so).  The abstract view of an object is the
SEQUENCE of its RDM ghosts (order, multiplicity, set of conditions present for RDMs that went through from_partials),
the SEQUENCE of its condition ghosts and its descriptor names (class `M`).  Operation sequences ("histories") are
applied to the real `RDMs` objects and, by the literal rules of the property statement / docstrings (`m_step`), to the
views; after EVERY step every object of the pool is compared with its view.  The operations only move values, so
distinct sentinels make one case a complete test of its shape.

One history is judged by seven oracles (one clause each; a history stops at the first step where a clause fails):
  C10/completes            every admissible operation completes (no exception)
  C10/shape                vector and square form describe the same symmetric zero-diagonal matrices; n_rdm / n_cond /
                           len() / vector length are those of the view (size recovered from the vector length)
  C10/values               the value of (RDM ghost, {condition ghost, condition ghost}) is the source value; pairs of two
                           copies of one condition and pairs absent from a partial RDM are NaN; exactly the requested
                           RDMs / conditions, in the requested order and multiplicity
  C10/rdm-descriptors      every retained RDM keeps all its descriptor values (and no descriptor is lost/invented);
                           descriptors merged by concat / from_partials (object-level ones that differ are demoted)
  C10/pattern-descriptors  every retained condition keeps all its descriptor values
  C10/export               to_df() rows and to_dict() describe exactly the object's own (rdm, pair) -> value relation
                           with its own descriptors (checked against the object, as a multiset of rows)
  C10/frame                objects other than the one an operation is called on / returns are unchanged
                           ("in-place operations change only the object they are called on"; arguments of
                           concat / append / from_partials are not modified)
plus three small oracles
  C10/size-recovery        n_cond is recovered from the vector length for every size (constructor and helpers)
  C10/conversion           batch_to_vectors / batch_to_matrices / RDMs(1-D, 2-D, 3-D input) agree with the explicit
                           upper-triangle loops, do not modify their input
  C10/argument-forms       documented argument forms of single operations (scalar str value whose label is a substring
                           of another label, ndarray order for sort_by, tuple / array value containers)

Operations covered: __getitem__ (int, negative, list, array), iteration, len, subset, subsample, subset_pattern,
subsample_pattern, reorder, sort_by (alpha / explicit, reindex on/off), append, copy, concat (both call forms, target
descriptor given / default, aligned and mis-aligned arguments, list / array typed descriptors), from_partials
(default / explicit pattern list incl. conditions in no partial), to_dict + rdms_from_dict, permute_rdms, get_vectors,
get_matrices, to_df.

Input classes.  The class of a failure is the class the MODEL (not the outcome) gives to the step at which the clause
fails: 'plain' unless the step is one of
  concat-misaligned                    concat whose arguments list the conditions in different orders (re-alignment needed)
  concat-misaligned-related-arguments  ... and two of the mis-aligned arguments were derived from each other without copy()
  inplace-on-derived-object            reorder / sort_by / append on an object while an object it was derived from (or that was
                                       derived from it) by anything but copy() / from_partials / permute_rdms is still in the pool
  single-object-list                   concat / from_partials of a list holding one object
  permute_rdms                         permute_rdms with a non-identity vector on an object with pattern descriptors
  getitem-single-condition             indexing / iterating an object over one condition
  scalar-str-value-containing-another-label, sort_by-ndarray-order   (C10/argument-forms)
On the tree this tier was written against these classes fail (see C10_findings.md); every other class holds.

Domains (`tier_c`): sequences (exhaustive short sequences over a menu of concrete operations), histories (seeded random
long ones), concat / from_partials / permute_rdms (exhaustive over condition orders), edge-sizes (one condition, zero RDMs),
size-recovery, conversion, argument-forms.

Dimension sweeps (same seven history oracles; the model knows neither dtypes nor containers, so these are metamorphic: the result
for typed / scaled / differently held inputs is the result for the same values as float64 in lists):
  typed-units                 dissimilarities held as int64 / int32 / int16 / uint8 / float32 (integer sentinels 1..240, src key
                              'dtype', case key 'vmode') and float64 in units of 1e-26 .. 1e12 (case key 'unit'): the same numbers
                              come out, NaN where the property says NaN (also for integer sources); also in C10/conversion
  containers / argument types descriptors in list / tuple / ndarray / int8-ndarray containers, str of varying width, float values
                              ('rw', 'rf', 'pw', 'pf'); index / order arguments as numpy integer scalars, int32 / int16 / uint8
                              arrays, tuples (getitem 'form', reorder 'arr'); RDM ghosts in non-monotone order
  vector-valued-descriptors   one vector per condition / RDM ('pv', 'rv'; class 'vector-valued-descriptor'): carried along by every
                              operation (never selected / sorted by; the DataFrame export is not judged for them)
  call-sequences              `_doubled`: every call performed twice in a row (identical results, the first one survives the
                              second call); twins of the same shape but other content, interleaved (coarse caches)
  sweep-histories             seeded random histories over all of the above plus more RDMs / conditions
  hashseed (C10/hashseed)     a new interpreter with another PYTHONHASHSEED judges str-labelled merge histories by all clauses
  argument-forms              hdf5-style dictionaries whose items are stored in another order than the element numbers
Classes pending triage (registrations behind `if False`): concat-default-target-vector-valued-descriptor,
to_df-vector-valued-descriptor, permute_rdms-vector-of-another-integer-type.

NOT covered by this tier: save/load through hdf5/pkl files (C16); RDMs.mean, rescale, transforms (they compute values);
inadmissible arguments (non-permutation orders, selections leaving zero conditions -- an RDM over 0 conditions has no
vector form --, concat/append of objects over different condition sets, duplicate-valued target descriptors, objects whose
rdm-descriptor names cannot be merged); dissimilarity_measure bookkeeping; the random default of permute_rdms(p=None);
unbounded sizes (everything here is bounded as stated in each `domain`).
"""
import itertools
import json
import warnings
from collections import Counter

import numpy as np

from vf.rt.harness import oracle, Bounded

NAN = float('nan')
VIEW_ASPECTS = ('completes', 'shape', 'values', 'rdm-descriptors', 'pattern-descriptors', 'export')
ASPECTS = VIEW_ASPECTS + ('frame',)
INPLACE = ('reorder', 'sort_by', 'append')


# =====================================================================================================
# ghost universe: descriptor values and dissimilarities as functions of the ghost ids
# =====================================================================================================
def _rdesc(g):
    # 'rw' (str of varying width), 'rf' (float) and 'rv' (vector valued) are only used by sources that name them in 'rorder'
    return {'rid': g, 'rs': 's%d' % (g % 2), 'rn': 'r%02d' % ((g * 7 + 3) % 100), 'ri': (g * 3) % 4,
            'rw': 'w' * ((g * 2) % 5) + 'R%d' % g, 'rf': ((g * 3) % 5) * 0.1 + 0.2, 'rv': [g % 2, g * 2 + 1]}


def _pdesc(c):
    # 'pw' (str of varying width), 'pf' (float) and 'pv' (vector valued) are only used by sources that name them in 'porder'
    return {'cid': c, 'pn': 'n%02d' % ((c * 37 + 11) % 100), 'pc': 'xyz'[c % 3], 'pi': (c * 5 + 2) % 7,
            'pw': 'c%d' % c + '_long' * ((c * 2) % 3), 'pf': ((c * 7) % 11) * 0.1 + 0.2, 'pv': [c % 3, 10 + c // 2]}


R_GHOST = tuple(_rdesc(0))      # rdm descriptor names whose value is a function of the ghost id
VECTOR_VALUED = ('rv', 'pv')    # one VECTOR per RDM / condition (2-D descriptor): carried along, never selected / sorted by


def _val(g, a, b):
    lo, hi = (a, b) if a < b else (b, a)
    return g * 10000.0 + lo * 100.0 + hi + 0.25


class Inadmissible(Exception):
    """the operation is outside its documented domain in the current state (the case is not generated)"""


class M:
    """abstract view of one RDMs object"""
    __slots__ = ('rows', 'cids', 'pnames', 'rnames', 'odesc', 'rindex', 'pindex', 'fam')

    def __init__(self, rows, cids, pnames, rnames, odesc, rindex, pindex, fam):
        self.rows = list(rows)      # (rid, present: frozenset | None, extra: dict)
        self.cids = list(cids)
        self.pnames = list(pnames)  # without 'index', in dictionary order
        self.rnames = list(rnames)
        self.odesc = dict(odesc)
        self.rindex = list(rindex)
        self.pindex = list(pindex)
        self.fam = fam              # objects derived from each other without copy() (only used for input classes)

    def new(self, **kw):
        d = {k: getattr(self, k) for k in self.__slots__}
        d.update(kw)
        return M(**d)

    def rval(self, r, name):
        if name == 'index':
            return self.rindex[r]
        g, _, extra = self.rows[r]
        if name in extra:
            return extra[name]
        return _rdesc(g)[name]

    def pval(self, a, name):
        if name == 'index':
            return self.pindex[a]
        return _pdesc(self.cids[a])[name]

    def value(self, nans, r, a, b):
        g, present, _ = self.rows[r]
        ca, cb = self.cids[a], self.cids[b]
        if ca == cb:
            return NAN
        if present is not None and (ca not in present or cb not in present):
            return NAN
        lo, hi = (ca, cb) if ca < cb else (cb, ca)
        if (g, lo, hi) in nans:
            return NAN
        return nans.val(g, ca, cb)


def _m_source(src, fam):
    rows = [(g, None, {}) for g in src['rids']]
    return M(rows, src['cids'], src.get('porder', ['cid', 'pn', 'pc', 'pi']), src.get('rorder', ['rid', 'rs', 'rn', 'ri']),
             src.get('odesc', {}), range(len(rows)), range(len(src['cids'])), fam)


class Ctx(set):
    """the value universe of one case: the set of (ghost, lo, hi) entries that are NaN in the sources, and the sentinel map.
    case['vmode'] = 'small': integer sentinels 1..240 (they fit uint8 / int16; ghosts distinct mod 16, condition ghosts < 6);
    case['unit']: every sentinel is multiplied by this factor (extreme but legitimate units)."""
    vmode = None
    unit = 1.0
    export_vector = False

    def val(self, g, a, b):
        lo, hi = (a, b) if a < b else (b, a)
        if self.vmode == 'small':
            if not 0 <= lo < hi < 6:
                raise ValueError('vmode small needs condition ghosts 0..5')
            v = 1.0 + (g % 16) * 15 + (lo * (11 - lo)) // 2 + (hi - lo - 1)
        else:
            v = _val(g, a, b)
        return v * self.unit


def _nans(case):
    out = Ctx()
    out.vmode = case.get('vmode')
    out.unit = float(case.get('unit', 1.0))
    out.export_vector = bool(case.get('export_vector', False))
    for s in case['src']:
        for g, a, b in s.get('nan', []):
            out.add((g, min(a, b), max(a, b)))
    return out


# =====================================================================================================
# the model: one step on the views (literal reading of the property statement and the docstrings)
# =====================================================================================================
def _abs(i, n):
    j = i if i >= 0 else n + i
    if not 0 <= j < n:
        raise Inadmissible('object reference')
    return j


def _perm(spec, n):
    if spec == 'rev':
        return list(range(n))[::-1]
    if spec == 'rot':
        return list(range(1, n)) + [0] if n else []
    p = list(spec)
    if sorted(p) != list(range(n)):
        raise Inadmissible('not a permutation')
    return p


def _absent_like(v):
    return 'zz' if isinstance(v, str) else 9999


def _sel_values(getter, n, a, names):
    by = a.get('by')
    name = 'index' if by is None else by
    if by is not None and (by not in names or by in VECTOR_VALUED):
        raise Inadmissible('descriptor')
    pos = a.get('pos', [])
    if any(not 0 <= p < n for p in pos):
        raise Inadmissible('position')
    vals = [getter(p, name) for p in pos]
    if a.get('absent'):
        like = vals[0] if vals else (getter(0, name) if n else 0)
        vals.append(_absent_like(like))
    if not vals:
        raise Inadmissible('no value')
    if a.get('cont') in ('scalar', 'npscalar') and len(vals) != 1:
        raise Inadmissible('scalar')
    return name, vals


def _merge(objs):
    """descriptor merging of concat / from_partials: object-level descriptors equal in all objects stay object-level,
    the others are demoted to one value per RDM; rdm descriptors are concatenated"""
    for o in objs:
        if 'p_inv' in o.odesc:
            raise Inadmissible('permuted object')
    keys = []
    for o in objs:
        for k in o.odesc:
            if k not in keys:
                keys.append(k)
    common = {k: objs[0].odesc[k] for k in keys if all(k in o.odesc and o.odesc[k] == objs[0].odesc.get(k) for o in objs)}
    demoted = [k for k in keys if k not in common]
    rnames = []
    for o in objs:
        for k in o.rnames:
            if k not in rnames:
                rnames.append(k)
    rnames += [k for k in demoted if k not in rnames]
    rows = []
    for o in objs:
        for r, (g, present, extra) in enumerate(o.rows):
            ex = {}
            for nme in rnames:
                if nme in o.rnames:
                    v = o.rval(r, nme)
                elif nme in o.odesc:
                    v = o.odesc[nme]
                else:
                    raise Inadmissible('descriptor %s undefined for one object' % nme)
                if nme not in R_GHOST:
                    ex[nme] = v
            rows.append((g, present, ex))
    return rows, rnames, common


def m_step(models, op, fam_counter):
    """resolve the abstract operation `op` on the pool of views.
    Returns dict(kind, obj, others, args, new=[M...], repl={idx: M}, flags=[(aspect, input class)...])."""
    kind, ref, a = op
    n_pool = len(models)
    out = dict(kind=kind, obj=None, others=[], args={}, new=[], repl={}, flags=[])
    if ref is not None:
        i = _abs(ref, n_pool)
        m = models[i]
        out['obj'] = i
        n_r, n_c = len(m.rows), len(m.cids)
    if kind in INPLACE and any(j != i and models[j].fam == m.fam for j in range(n_pool)):
        out['flags'].append(('frame', 'inplace-on-derived-object'))

    if kind in ('getitem', 'iter') and n_c == 1:
        out['flags'].append(('completes', 'getitem-single-condition'))
    if kind == 'getitem':
        idx = a['i']
        lst = idx if isinstance(idx, list) else [idx]
        if any(not -n_r <= k < n_r for k in lst) or not lst:
            raise Inadmissible('index')
        form = a.get('form')          # index container / type: Python int | list (default), ndarray ('arr'), numpy integer types
        if form == 'npint':
            real_idx = np.int64(idx) if not isinstance(idx, list) else [np.int64(k) for k in idx]
        elif form in ('int32', 'int16', 'uint8'):
            if form == 'uint8' and any(k < 0 for k in lst):
                raise Inadmissible('negative index of an unsigned type')
            real_idx = np.array(idx, dtype=form) if isinstance(idx, list) else np.dtype(form).type(idx)
        else:
            real_idx = np.array(idx) if a.get('arr') else idx
        out['args'] = dict(i=real_idx)
        out['new'] = [m.new(rows=[m.rows[k] for k in lst], rindex=[m.rindex[k] for k in lst])]
    elif kind == 'iter':
        k = a['k']
        if not 0 <= k < n_r:
            raise Inadmissible('index')
        out['args'] = dict(k=k, n=n_r)
        out['new'] = [m.new(rows=[m.rows[k]], rindex=[m.rindex[k]])]
    elif kind in ('subset', 'subsample'):
        name, vals = _sel_values(m.rval, n_r, a, m.rnames)
        if kind == 'subset':
            sel = [r for r in range(n_r) if any(m.rval(r, name) == v for v in vals)]
        else:
            sel = [r for v in vals for r in range(n_r) if m.rval(r, name) == v]
        out['args'] = dict(by=a.get('by'), value=_container(vals, a.get('cont', 'list')))
        out['new'] = [m.new(rows=[m.rows[r] for r in sel], rindex=[m.rindex[r] for r in sel])]
    elif kind in ('subset_pattern', 'subsample_pattern'):
        name, vals = _sel_values(m.pval, n_c, a, m.pnames)
        if kind == 'subset_pattern':
            sel = [c for c in range(n_c) if any(m.pval(c, name) == v for v in vals)]
        else:
            sel = sorted(c for v in vals for c in range(n_c) if m.pval(c, name) == v)
        if not sel:
            raise Inadmissible('zero conditions')
        out['args'] = dict(by=a.get('by'), value=_container(vals, a.get('cont', 'list')))
        out['new'] = [m.new(cids=[m.cids[c] for c in sel], pindex=[m.pindex[c] for c in sel])]
    elif kind == 'reorder':
        p = _perm(a['perm'], n_c)
        arr = a.get('arr')            # order container: list (default), ndarray of int (True) / of another integer type, tuple
        if arr in ('int32', 'int16', 'uint8'):
            order = np.array(p, dtype=arr)
        elif arr == 'tuple':
            order = tuple(p)
        else:
            order = np.array(p, dtype=int) if arr else p
        out['args'] = dict(order=order)
        out['repl'] = {i: m.new(cids=[m.cids[c] for c in p], pindex=[m.pindex[c] for c in p])}
    elif kind == 'sort_by':
        name = a['by']
        if name not in m.pnames or name in VECTOR_VALUED:
            raise Inadmissible('descriptor')
        vals = [m.pval(c, name) for c in range(n_c)]
        if a['how'] == 'alpha':
            p = sorted(range(n_c), key=lambda c: vals[c])       # Python's sort is stable
            method = 'alpha'
        else:
            if len(set(vals)) != n_c:
                raise Inadmissible('explicit order needs distinct values')
            p = _perm(a['perm'], n_c)
            method = [vals[c] for c in p]
            if a['how'] == 'array':
                method = np.array(method)
                out['flags'].append(('completes', 'sort_by-ndarray-order'))
        reindex = bool(a.get('reindex', True))
        pindex = list(range(n_c)) if reindex else [m.pindex[c] for c in p]
        out['args'] = dict(name=name, method=method, reindex=reindex)
        out['repl'] = {i: m.new(cids=[m.cids[c] for c in p], pindex=pindex)}
    elif kind == 'append':
        j = _abs(a['other'], n_pool)
        o = models[j]
        if o.cids != m.cids or not set(m.rnames) <= set(o.rnames):
            raise Inadmissible('append needs the same conditions in the same order and the same descriptors')
        if ('p_inv' in o.odesc) != ('p_inv' in m.odesc):
            raise Inadmissible('append needs the same dissimilarity measure (a permute_rdms result carries none)')
        rows = list(m.rows) + [(g, pr, {k: o.rval(r, k) for k in m.rnames if k not in R_GHOST})
                               for r, (g, pr, ex) in enumerate(o.rows)]
        out['others'] = [j]
        out['repl'] = {i: m.new(rows=rows, rindex=range(len(rows)))}
    elif kind == 'copy':
        out['new'] = [m.new(fam=next(fam_counter))]
    elif kind == 'dict':
        out['new'] = [m.new()]
    elif kind == 'permute':
        p = _perm(a['perm'], n_c)
        if n_c < 1:
            raise Inadmissible('empty')
        od = dict(m.odesc)
        od['p_inv'] = 'p_inv'
        out['args'] = dict(p=np.array(p, dtype=a.get('dt', int)))
        out['new'] = [m.new(cids=[m.cids[c] for c in p], pindex=[str(m.pindex[c]) for c in p], odesc=od,
                            fam=next(fam_counter))]
        if np.dtype(a.get('dt', int)) != np.dtype(int):
            out['flags'].append(('completes', 'permute_rdms-vector-of-another-integer-type'))
        if p != list(range(n_c)) and m.pnames:
            out['flags'].append(('pattern-descriptors', 'permute_rdms'))
    elif kind == 'concat':
        idxs = [_abs(k, n_pool) for k in a['objs']]
        objs = [models[k] for k in idxs]
        first = objs[0]
        if len(set(first.cids)) != len(first.cids):
            raise Inadmissible('duplicate conditions')
        if any(sorted(o.cids) != sorted(first.cids) for o in objs):
            raise Inadmissible('different condition sets')
        target = a.get('target')
        n_first = len(first.cids)

        def uniq(nm):
            return nm not in VECTOR_VALUED and len(set(first.pval(c, nm) for c in range(n_first))) == n_first
        if target is None:
            cands = [nm for nm in first.pnames if uniq(nm)]
            used = cands[0] if cands else None
            if set(first.pnames) & set(VECTOR_VALUED):
                # the search for a default target descriptor must cope with (skip) a descriptor holding one vector per condition
                out['flags'].append(('completes', 'concat-default-target-vector-valued-descriptor'))
        else:
            if target not in first.pnames or not uniq(target):
                raise Inadmissible('target descriptor')
            used = target
        misaligned = any(o.cids != first.cids for o in objs[1:])
        if used is None and misaligned:
            raise Inadmissible('no descriptor to align by')
        if used is not None and any(used not in o.pnames for o in objs):
            raise Inadmissible('target descriptor missing')
        rows, rnames, common = _merge(objs)
        out['others'] = idxs
        out['args'] = dict(target=target, call=a.get('call', 'args'))
        out['new'] = [first.new(rows=rows, rnames=rnames, odesc=common, rindex=range(len(rows)))]
        if misaligned:
            out['flags'] += [('completes', 'concat-misaligned'), ('frame', 'concat-misaligned')]
            mis = [k for k, o in zip(idxs, objs) if o.cids != first.cids]
            if any(k != j and models[k].fam == models[j].fam for k in mis for j in mis):
                out['flags'].append(('values', 'concat-misaligned-related-arguments'))
        if len(objs) == 1:
            out['flags'].append(('rdm-descriptors', 'single-object-list'))
    elif kind == 'from_partials':
        idxs = [_abs(k, n_pool) for k in a['objs']]
        objs = [models[k] for k in idxs]
        d = a['desc']
        if d in VECTOR_VALUED:
            raise Inadmissible('descriptor')
        for o in objs:
            if d not in o.pnames or len(set(o.cids)) != len(o.cids):
                raise Inadmissible('descriptor')
        union = []
        for o in objs:
            for c in o.cids:
                if c not in union:
                    union.append(c)
        spec = a.get('all')
        if spec is None:
            allc, labels = union, None
        else:
            if spec == 'rev':
                allc = union[::-1]
            elif spec == 'rev+extra':
                allc = union[::-1]
                allc.insert(1 if len(allc) > 1 else 0, 90)
            else:
                allc = list(spec)
                if len(set(allc)) != len(allc) or not set(union) <= set(allc):
                    raise Inadmissible('pattern list')
            labels = [_pdesc(c)[d] for c in allc]
        rows, rnames, common = _merge(objs)
        k = 0
        for o in objs:
            for (g, present, ex) in o.rows:
                pr = frozenset(o.cids) if present is None else frozenset(present) & frozenset(o.cids)
                rows[k] = (g, pr, rows[k][2])
                k += 1
        out['others'] = idxs
        out['args'] = dict(labels=labels, desc=d)
        out['new'] = [M(rows, allc, [d], rnames, common, range(len(rows)), range(len(allc)), next(fam_counter))]
        if len(objs) == 1:
            out['flags'].append(('rdm-descriptors', 'single-object-list'))
    else:
        raise ValueError(kind)
    return out


def _container(vals, cont):
    if cont == 'scalar':
        return vals[0]
    if cont == 'npscalar':
        return np.array(vals)[0]        # numpy scalar (np.int64 / np.float64 / np.str_), e.g. an element of np.unique(descriptor)
    if cont == 'tuple':
        return tuple(vals)
    if cont == 'array':
        return np.array(vals)
    return list(vals)


def dry_run(case):
    """model-only execution: returns (flags per step, final pool of views); raises Inadmissible"""
    fam = itertools.count(len(case['src']))
    models = [_m_source(s, k) for k, s in enumerate(case['src'])]
    flags = []
    for op in case['ops']:
        st = m_step(models, op, fam)
        for k, mm in st['repl'].items():
            models[k] = mm
        models += st['new']
        flags.append(st['flags'])
    return flags, models


# =====================================================================================================
# the real side
# =====================================================================================================
def _build(src, nans, m):
    from rsatoolbox.rdm import RDMs
    n_r, n_c = len(src['rids']), len(src['cids'])
    mats = np.zeros((n_r, n_c, n_c))
    for r in range(n_r):
        for a in range(n_c):
            for b in range(n_c):
                if a != b:
                    mats[r, a, b] = m.value(nans, r, a, b)
    vec = np.zeros((n_r, n_c * (n_c - 1) // 2))
    for r in range(n_r):
        k = 0
        for a in range(n_c):
            for b in range(a + 1, n_c):
                vec[r, k] = mats[r, a, b]
                k += 1
    form = src.get('form', 'vector')
    if form == 'matrix':
        diss = mats
    elif form == 'vectorF':
        diss = np.asfortranarray(vec)
    elif form == 'vector1d' and n_r == 1:
        diss = vec[0]
    else:
        diss = vec
    dtype = src.get('dtype')
    if dtype is not None:
        # typed data: the same numbers held in an integer / float32 array (the sentinels must be exactly representable)
        typed = diss.astype(dtype)
        if np.isnan(diss).any() and not np.issubdtype(np.dtype(dtype), np.floating):
            raise ValueError('NaN entries need a floating dtype')
        if not np.array_equal(typed.astype(float), diss, equal_nan=True):
            raise ValueError(f'sentinel values are not representable as {dtype}')
        diss = typed
    conts = {'array': np.array, 'tuple': tuple, 'int8': lambda v: np.array(v, dtype=np.int8)}
    pcont = conts.get(src.get('ptype'), list)
    rcont = conts.get(src.get('rtype'), list)

    def cont(f, nm, vals):
        if f is not list and f is not tuple and isinstance(vals[0], str):
            return np.array(vals)                      # typed containers apply to the numeric descriptors only
        if f is tuple and nm in VECTOR_VALUED:
            return tuple(tuple(v) for v in vals)
        if nm in ('rf', 'pf') and f not in (list, tuple):
            return np.array(vals)
        return f(vals)
    rd = {nm: cont(rcont, nm, [_rdesc(g)[nm] for g in src['rids']]) for nm in m.rnames}
    pd = {nm: cont(pcont, nm, [_pdesc(c)[nm] for c in src['cids']]) for nm in m.pnames}
    return RDMs(diss, dissimilarity_measure='m', descriptors=dict(src.get('odesc', {})),
                rdm_descriptors=rd, pattern_descriptors=pd)


def _apply_real(st, reals):
    """performs the resolved step on the real objects; returns the list of new objects"""
    from rsatoolbox.rdm.rdms import concat, permute_rdms, rdms_from_dict
    from rsatoolbox.rdm.combine import from_partials
    kind, a = st['kind'], st['args']
    x = reals[st['obj']] if st['obj'] is not None else None
    with warnings.catch_warnings():
        warnings.simplefilter('ignore')
        if kind == 'getitem':
            return [x[a['i']]]
        if kind == 'iter':
            lst = list(x)
            if len(lst) != a['n'] or len(list(reversed(x))) != a['n']:
                raise AssertionError(f'iteration yields {len(lst)} objects for {a["n"]} RDMs')
            return [lst[a['k']]]
        if kind in ('subset', 'subsample', 'subset_pattern', 'subsample_pattern'):
            return [getattr(x, kind)(a['by'], a['value'])]
        if kind == 'reorder':
            ret = x.reorder(a['order'])
        elif kind == 'sort_by':
            ret = x.sort_by(reindex=a['reindex'], **{a['name']: a['method']})
        elif kind == 'append':
            ret = x.append(reals[st['others'][0]])
        elif kind == 'copy':
            return [x.copy()]
        elif kind == 'dict':
            return [rdms_from_dict(x.to_dict())]
        elif kind == 'permute':
            return [permute_rdms(x, a['p'])]
        elif kind == 'concat':
            objs = [reals[k] for k in st['others']]
            kw = {} if a['target'] is None else dict(target_pdesc=a['target'])
            return [concat(objs, **kw) if a['call'] == 'list' else concat(*objs, **kw)]
        elif kind == 'from_partials':
            objs = [reals[k] for k in st['others']]
            if a['labels'] is None:
                return [from_partials(objs, descriptor=a['desc'])]
            return [from_partials(objs, all_patterns=list(a['labels']), descriptor=a['desc'])]
        if ret is not None:
            raise AssertionError(f'in-place operation {kind} returned {type(ret).__name__}')
        return []


def _same(x, y):
    x, y = float(x), float(y)
    return (x != x and y != y) or x == y


def _veq(x, y):
    """descriptor values: equal as Python values, type class kept (str stays str, number stays number)"""
    xs, ys = isinstance(x, str), isinstance(y, str)
    if xs != ys:
        return False
    if isinstance(x, (list, tuple, np.ndarray)) or isinstance(y, (list, tuple, np.ndarray)):
        xa, ya = np.asarray(x), np.asarray(y)      # vector-valued descriptor: the whole vector
        return xa.shape == ya.shape and xa.dtype.kind in 'iuf' and bool(np.array_equal(xa, ya))
    try:
        return bool(x == y)
    except Exception:
        return False


def _desc_check(real_d, names, n, getter, what):
    if not isinstance(real_d, dict):
        return f'{what} is {type(real_d).__name__}'
    want = set(names) | {'index'}
    have = set(real_d.keys())
    if want != have:
        return f'{what}: descriptor names {sorted(have)}, expected {sorted(want)}'
    for nm in list(names) + ['index']:
        v = real_d[nm]
        try:
            lv = len(v)
        except TypeError:
            return f'{what}[{nm!r}] is {v!r}, not one value per element'
        if isinstance(v, str) or lv != n:
            return f'{what}[{nm!r}] has {lv} entries for {n} elements'
        for k in range(n):
            w = getter(k, nm)
            if (str(v[k]) != str(w)) if nm == 'index' else (not _veq(v[k], w)):
                return f'{what}[{nm!r}][{k}] is {v[k]!r}, expected {w!r} (full: {list(v)!r})'
    return None


def _norm(v):
    if isinstance(v, (float, np.floating)):
        return 'nan' if v != v else float(v)
    if isinstance(v, np.generic):
        return v.item()
    return v


def _normd(v):
    """a dissimilarity as exported: the NUMBER (an integer-typed source may be exported as integer)"""
    f = float(v)
    return 'nan' if f != f else f


def _export_check(x):
    """to_df / to_dict against the object's own matrices and descriptors (explicit loops)"""
    mats = x.get_matrices()
    n_r, n_c = mats.shape[0], mats.shape[1]
    rn = sorted(x.rdm_descriptors.keys())
    pn = sorted(x.pattern_descriptors.keys())
    want = Counter()
    for r in range(n_r):
        rd = tuple(_norm(x.rdm_descriptors[k][r]) for k in rn)
        for a in range(n_c):
            for b in range(a + 1, n_c):
                pa = tuple(_norm(x.pattern_descriptors[k][a]) for k in pn)
                pb = tuple(_norm(x.pattern_descriptors[k][b]) for k in pn)
                want[repr((_normd(mats[r, a, b]), rd, tuple(sorted((pa, pb), key=repr))))] += 1
    df = x.to_df()
    rcol = ['rdm_index' if k == 'index' else k for k in rn]
    pcol = ['pattern_index' if k == 'index' else k for k in pn]
    cols = ['dissimilarity'] + rcol + [f'{c}_{s}' for c in pcol for s in (1, 2)]
    if sorted(df.columns) != sorted(cols):
        return f'to_df columns {sorted(df.columns)}, expected {sorted(cols)}'
    n_rows = n_r * (n_c * (n_c - 1) // 2)
    if len(df) != n_rows:
        return f'to_df has {len(df)} rows, expected {n_rows}'
    order = ['dissimilarity'] + rcol + [f'{c}_1' for c in pcol] + [f'{c}_2' for c in pcol]
    n_rd, n_pd = len(rcol), len(pcol)
    got = Counter()
    for row in df[order].to_numpy(dtype=object).tolist():
        rd = tuple(_norm(v) for v in row[1:1 + n_rd])
        pa = tuple(_norm(v) for v in row[1 + n_rd:1 + n_rd + n_pd])
        pb = tuple(_norm(v) for v in row[1 + n_rd + n_pd:])
        got[repr((_normd(row[0]), rd, tuple(sorted((pa, pb), key=repr))))] += 1
    if got != want:
        miss = list((want - got).elements())[:2]
        extra = list((got - want).elements())[:2]
        return f'to_df rows differ from the object: missing (value, rdm descriptors, pair descriptors) {miss}, unexpected {extra}'
    d = x.to_dict()
    if sorted(d.keys()) != ['descriptors', 'dissimilarities', 'dissimilarity_measure', 'pattern_descriptors', 'rdm_descriptors']:
        return f'to_dict keys {sorted(d.keys())}'
    dd = np.asarray(d['dissimilarities'])
    if dd.shape != x.get_vectors().shape or not np.array_equal(dd, x.get_vectors(), equal_nan=True):
        return 'to_dict dissimilarities differ from get_vectors()'
    for key, own in (('rdm_descriptors', x.rdm_descriptors), ('pattern_descriptors', x.pattern_descriptors)):
        if sorted(d[key].keys()) != sorted(own.keys()) or any(
                [_norm(v) for v in d[key][k]] != [_norm(v) for v in own[k]] for k in own):
            return f'to_dict {key} differ from the object'
    return None


def _export_check_vector(x):
    """objects carrying a vector-valued descriptor: to_df() completes, has one row per (rdm, pair) and the right values"""
    df = x.to_df()
    vec = x.get_vectors()
    if len(df) != vec.size:
        return f'to_df has {len(df)} rows, expected {vec.size}'
    if not np.array_equal(np.asarray(df['dissimilarity'], dtype=float), vec.ravel().astype(float), equal_nan=True):
        return 'to_df dissimilarity column differs from the row-wise vector form'
    return None


def _check(x, m, nans, export):
    """compare the real object x with its view m; returns {aspect: message}"""
    out = {}
    n_r, n_c = len(m.rows), len(m.cids)
    n_p = n_c * (n_c - 1) // 2
    vec = x.get_vectors()
    dims_ok = False
    if x.n_rdm != n_r or x.n_cond != n_c:
        out['shape'] = f'n_rdm, n_cond = {x.n_rdm}, {x.n_cond}; requested {n_r} RDMs over {n_c} conditions'
    elif len(x) != n_r:
        out['shape'] = f'len() = {len(x)} for {n_r} RDMs'
    elif not isinstance(vec, np.ndarray) or vec.shape != (n_r, n_p) or vec is not x.dissimilarities:
        out['shape'] = f'vector form has shape {getattr(vec, "shape", None)}, expected {(n_r, n_p)}'
    else:
        mats = x.get_matrices()
        if mats.shape != (n_r, n_c, n_c):
            out['shape'] = f'square form has shape {mats.shape}, expected {(n_r, n_c, n_c)}'
        else:
            dims_ok = True
            for r in range(n_r):
                k = 0
                for a in range(n_c):
                    if mats[r, a, a] != 0:
                        out.setdefault('shape', f'diagonal entry [{r},{a},{a}] of the square form is {mats[r, a, a]}')
                    for b in range(a + 1, n_c):
                        if not _same(mats[r, a, b], mats[r, b, a]):
                            out.setdefault('shape', f'square form not symmetric at [{r},{a},{b}]')
                        if not _same(mats[r, a, b], vec[r, k]):
                            out.setdefault('shape', f'vector entry [{r},{k}] = {vec[r, k]} but square entry [{r},{a},{b}] = '
                                                    f'{mats[r, a, b]}')
                        k += 1
    if dims_ok:
        for r in range(n_r):
            for a in range(n_c):
                for b in range(a + 1, n_c):
                    w = m.value(nans, r, a, b)
                    if not _same(mats[r, a, b], w):
                        out.setdefault('values', f'RDM #{r} (ghost {m.rows[r][0]}), conditions #{a},#{b} (ghosts '
                                                 f'{m.cids[a]},{m.cids[b]}): value {mats[r, a, b]}, expected {w}')
    msg = _desc_check(x.rdm_descriptors, m.rnames, n_r, m.rval, 'rdm_descriptors')
    if msg:
        out['rdm-descriptors'] = msg
    msg = _desc_check(x.pattern_descriptors, m.pnames, n_c, m.pval, 'pattern_descriptors')
    if msg:
        out['pattern-descriptors'] = msg
    for k, v in m.odesc.items():
        if k != 'p_inv' and not (isinstance(x.descriptors, dict) and k in x.descriptors and _veq(x.descriptors[k], v)):
            out.setdefault('rdm-descriptors', f'object-level descriptor {k!r} = {v!r} lost: {x.descriptors!r}')
    if export and dims_ok and (nans.export_vector or not (set(m.pnames) | set(m.rnames)) & set(VECTOR_VALUED)):
        # (how a DataFrame cell shows a vector-valued descriptor is not specified: judged only on request, see 'to_df-vector-valued')
        try:
            msg = _export_check_vector(x) if nans.export_vector else _export_check(x)
        except Exception as e:  # noqa
            msg = f'export raised {type(e).__name__}: {e}'
        if msg:
            out['export'] = msg
    return out


_MEMO = {}


def run_history(case):
    """executes the history; returns {aspect: (step, 'step k (op): message')} for the first failing step"""
    key = json.dumps(case, sort_keys=True)
    if key in _MEMO:
        return _MEMO[key]
    nans = _nans(case)
    fam = itertools.count(len(case['src']))
    models = [_m_source(s, k) for k, s in enumerate(case['src'])]
    reals = [_build(s, nans, models[k]) for k, s in enumerate(case['src'])]
    dead = set()
    problems = {}
    frames = []
    step_now = [-1]

    def judge(targets, where):
        for k in range(len(models)):
            if k in dead:
                continue
            res = _check(reals[k], models[k], nans, export=k in targets and step_now[0] >= export_from)
            if not res:
                continue
            if k in targets:
                for asp, msg in res.items():
                    problems.setdefault(asp, (step_now[0], f'{where}: object #{k}: {msg}'))
            else:
                asp, msg = sorted(res.items())[0]
                frames.append((step_now[0], f'{where}: object #{k}, which the operation was not called on, changed: {msg}'))
                dead.add(k)

    export_from = case.get('export_from', -1)     # export clause judged on the results of steps >= export_from (-1: sources too)
    judge(set(range(len(models))), 'source objects')
    for step, op in enumerate(case['ops']):
        if any(a in problems for a in VIEW_ASPECTS):
            break
        step_now[0] = step
        where = f'step {step} {op[0]}{json.dumps(op[2], sort_keys=True)} on #{op[1]}'
        st = m_step(models, op, fam)
        used = set(st['others']) | ({st['obj']} if st['obj'] is not None else set())
        if used & dead:
            break
        try:
            new = _apply_real(st, reals)
        except Exception as e:  # noqa
            problems.setdefault('completes', (step, f'{where}: {type(e).__name__}: {e}'))
            # the arguments must be intact even then
            judge(set(), where)
            break
        if len(new) != len(st['new']):
            problems.setdefault('completes', (step, f'{where}: returned {len(new)} objects'))
            break
        for k, mm in st['repl'].items():
            models[k] = mm
        first_new = len(models)
        models += st['new']
        reals += new
        judge(set(st['repl'].keys()) | set(range(first_new, len(models))), where)
    if frames:
        # objects changed behind the caller's back: the first such step outside the classes flagged by the model
        # (input classes with a recorded defect), else the first one
        flagged = _frame_flagged(case)
        plain = [f for f in frames if f[0] not in flagged]
        problems['frame'] = (plain or frames)[0]
    if len(_MEMO) > 8:
        _MEMO.clear()
    _MEMO[key] = problems
    return problems


def _frame_flagged(case):
    try:
        flags, _ = dry_run(case)
    except Inadmissible:
        return set()
    return {k for k, fl in enumerate(flags) if any(a == 'frame' for a, _ in fl)}


def _mk_oracle(aspect):
    @oracle('C10/' + aspect)
    def orc(case):
        res = run_history(case).get(aspect)
        return None if res is None else res[1]
    orc.__name__ = 'orc_' + aspect.replace('-', '_')
    return orc


ORC = {a: _mk_oracle(a) for a in ASPECTS}
orc_completes, orc_shape, orc_values = ORC['completes'], ORC['shape'], ORC['values']
orc_rdm_descriptors, orc_pattern_descriptors = ORC['rdm-descriptors'], ORC['pattern-descriptors']
orc_export, orc_frame = ORC['export'], ORC['frame']


# =====================================================================================================
# small oracles
# =====================================================================================================
@oracle('C10/size-recovery')
def orc_size(case):
    from rsatoolbox.rdm import RDMs
    from rsatoolbox.util.rdm_utils import _get_n_from_reduced_vectors, _get_n_from_length, batch_to_vectors, batch_to_matrices
    for n in range(case['lo'], case['hi']):
        L = n * (n - 1) // 2
        got = _get_n_from_reduced_vectors(np.empty((0, L)))
        if got != n:
            return f'_get_n_from_reduced_vectors: vector length {L} gives {got} conditions, expected {n}'
        if n >= 2 and _get_n_from_length(L) != n:
            return f'_get_n_from_length({L}) = {_get_n_from_length(L)}, expected {n}'
        if n <= case.get('build_upto', 0):
            x = RDMs(np.zeros((2, L)))
            if x.n_cond != n or x.n_rdm != 2 or x.get_matrices().shape != (2, n, n):
                return f'RDMs of vector length {L}: n_cond={x.n_cond}, square form {x.get_matrices().shape}, expected {n}'
            if len(x.pattern_descriptors['index']) != n:
                return f'pattern index has {len(x.pattern_descriptors["index"])} entries for {n} conditions'
            if batch_to_vectors(np.zeros((1, n, n)))[0].shape != (1, L) or batch_to_matrices(np.zeros((3, L)))[2] != n:
                return f'batch conversion sizes wrong for n={n}'
    return None


@oracle('C10/conversion')
def orc_conversion(case):
    from rsatoolbox.rdm import RDMs
    from rsatoolbox.util.rdm_utils import batch_to_vectors, batch_to_matrices
    rs = np.random.RandomState(case['seed'])
    n_r, n = case['n_rdm'], case['n_cond']
    L = n * (n - 1) // 2
    vec = (np.arange(n_r * L, dtype=float).reshape(n_r, L) + 1) * 1.5
    if case.get('dtype'):
        # typed data: integers 1, 2, 3 ... held as int / uint8 / float32: the conversions give the same NUMBERS
        vec = (np.arange(n_r * L).reshape(n_r, L) + 1).astype(case['dtype'])
    vec = vec * case['unit'] if 'unit' in case else vec
    for _ in range(case.get('n_nan', 0)):
        if L:
            vec[rs.randint(n_r), rs.randint(L)] = np.nan
    mats = np.zeros((n_r, n, n), dtype=vec.dtype)
    for r in range(n_r):
        k = 0
        for a in range(n):
            for b in range(a + 1, n):
                mats[r, a, b] = mats[r, b, a] = vec[r, k]
                k += 1
    form = case['form']
    if form == 'vector':
        inp = vec.copy()
    elif form == 'vectorF':
        inp = np.asfortranarray(vec.copy())
    elif form == 'vector-view':
        big = np.zeros((n_r, 2 * L + 1), dtype=vec.dtype)
        big[:, ::2][:, :L] = vec
        inp = big[:, ::2][:, :L]
    elif form == 'matrix':
        inp = mats.copy()
    elif form == 'matrixF':
        inp = np.asfortranarray(mats.copy())
    elif form == 'vector1d':
        inp = vec[0].copy()
    else:
        raise ValueError(form)
    keep = inp.copy()
    v, a_r, a_c = batch_to_vectors(inp)
    want_r = 1 if form == 'vector1d' else n_r
    want_v = vec[:1] if form == 'vector1d' else vec
    want_m = mats[:1] if form == 'vector1d' else mats
    if (a_r, a_c) != (want_r, n):
        return f'batch_to_vectors sizes {(a_r, a_c)}, expected {(want_r, n)}'
    if v.shape != want_v.shape or not np.array_equal(v, want_v, equal_nan=True):
        return 'batch_to_vectors: vector form is not the row-wise upper triangle'
    if form != 'vector1d':
        mm, b_r, b_c = batch_to_matrices(inp)
        if (b_r, b_c) != (n_r, n) or mm.shape != mats.shape or not np.array_equal(mm, mats, equal_nan=True):
            return 'batch_to_matrices: square form is not the symmetric zero-diagonal matrix of the vector'
    x = RDMs(inp)
    if x.n_rdm != want_r or x.n_cond != n:
        return f'RDMs sizes {(x.n_rdm, x.n_cond)}, expected {(want_r, n)}'
    if not np.array_equal(x.get_vectors(), want_v, equal_nan=True):
        return 'RDMs.get_vectors differs from the upper triangle of the input'
    if not np.array_equal(x.get_matrices(), want_m, equal_nan=True):
        return 'RDMs.get_matrices differs from the symmetric zero-diagonal matrices of the input'
    y = RDMs(x.get_matrices())
    if not np.array_equal(y.get_vectors(), want_v, equal_nan=True):
        return 'vector -> matrix -> vector round trip changes values'
    if not np.array_equal(inp, keep, equal_nan=True):
        return 'conversion modified its input array'
    return None


@oracle('C10/argument-forms')
def orc_argforms(case):
    """single operations with documented argument forms, judged by value/label association"""
    from rsatoolbox.rdm import RDMs
    names = case['names']
    n = len(names)
    L = n * (n - 1) // 2
    vec = np.arange(2 * L, dtype=float).reshape(2, L) + 1
    x = RDMs(vec.copy(), rdm_descriptors={'rid': [0, 1]}, pattern_descriptors={'name': list(names)})
    mats = np.zeros((2, n, n))
    for r in range(2):
        k = 0
        for a in range(n):
            for b in range(a + 1, n):
                mats[r, a, b] = mats[r, b, a] = vec[r, k]
                k += 1
    kind = case['kind']
    if kind == 'from_dict':
        # dictionary form as read back from an hdf5 file: descriptors stored as {'0': v0, '1': v1, ...}
        from rsatoolbox.rdm.rdms import rdms_from_dict
        n_r = case['n_rdm']
        vec = np.arange(n_r * L, dtype=float).reshape(n_r, L) + 1
        subj = ['s%02d' % ((7 * r) % n_r) for r in range(n_r)]
        # order of the items inside the stored dictionaries: ascending numbers (default), as an hdf5 group lists them
        # (alphabetical: '0', '1', '10', '11', '2', ...), or descending -- the number in the KEY says which element it is
        ko = case.get('key_order', 'asc')

        def keys(k):
            ks = [str(i) for i in range(k)]
            return sorted(ks) if ko == 'alpha' else (ks[::-1] if ko == 'desc' else ks)
        d = dict(dissimilarities=vec.copy(), descriptors={}, dissimilarity_measure='m',
                 rdm_descriptors={'subj': {k: subj[int(k)] for k in keys(n_r)}, 'index': list(range(n_r))},
                 pattern_descriptors={'name': {k: names[int(k)] for k in keys(n)}, 'index': np.arange(n)})
        if ko != 'asc':
            d['pattern_descriptors'] = dict(reversed(list(d['pattern_descriptors'].items())))     # 'index' first
        y = rdms_from_dict(d)
        if list(y.rdm_descriptors['subj']) != subj or list(y.pattern_descriptors['name']) != list(names):
            return f'descriptors after rdms_from_dict: {list(y.rdm_descriptors["subj"])}, {list(y.pattern_descriptors["name"])}'
        if not np.array_equal(y.get_vectors(), vec):
            return 'dissimilarities changed by rdms_from_dict'
        return None
    if kind in ('subset_pattern', 'subsample_pattern'):
        value = case['value']
        y = getattr(x, kind)('name', value)
        keep = [a for a in range(n) if names[a] == value]
    elif kind == 'sort_by':
        order = [names[a] for a in case['perm']]
        y = x
        y.sort_by(name=np.array(order) if case.get('array') else order)
        keep = list(case['perm'])
    got_names = list(y.pattern_descriptors['name'])
    if got_names != [names[a] for a in keep]:
        return f'conditions {got_names}, expected {[names[a] for a in keep]}'
    gm = y.get_matrices()
    for r in range(2):
        for i, a in enumerate(keep):
            for j, b in enumerate(keep):
                if i != j and gm[r, i, j] != mats[r, a, b]:
                    return f'value of ({names[a]},{names[b]}) in RDM {r} is {gm[r, i, j]}, source value {mats[r, a, b]}'
    return None


# =====================================================================================================
# domains
# =====================================================================================================
class Multi:
    """the seven history oracles over one domain (one Bounded per clause so that findings are keyed per clause)"""

    def __init__(self, run, dom, domain, exhaustive=False, budget_s=None):
        self.bds = {a: Bounded(run, f'C10/{dom}/{a}', f'C10/{dom}/oracle/{a}', domain, exhaustive=exhaustive,
                               function='RDMs', budget_s=budget_s) for a in ASPECTS}
        self.n = 0

    def out_of_budget(self):
        return any(b.out_of_budget() for b in self.bds.values())

    def check(self, case, label=None):
        """runs all clauses on the case.  `label`: input class to use where the model gives 'plain' (cases registered under a
        class of their own).  The input class of a failure is the class the model gave to the STEP at which
        the clause fails ('plain' when the model did not flag that step for that clause), so that a class with a recorded
        defect never hides a failure at another step."""
        flags, _ = dry_run(case)
        try:
            res = run_history(case)
        except Exception:  # noqa  (the oracle call below reports it)
            res = {}
        self.n += 1
        fn = 'RDMs.' + case['ops'][-1][0] if case['ops'] else 'RDMs'
        for a in ASPECTS:
            lab = label or 'plain'
            if a in res and 0 <= res[a][0] < len(flags):
                lab = dict(flags[res[a][0]]).get(a, lab)
                fn = 'RDMs.' + case['ops'][res[a][0]][0]
            self.bds[a].check(ORC[a], case, lab, function=fn)

    def done(self):
        for b in self.bds.values():
            b.done()
        return list(self.bds.values())


def _src(rids, cids, **kw):
    d = dict(rids=list(rids), cids=list(cids))
    d.update(kw)
    return d


MENU = [
    ['getitem', -1, {'i': 0}],
    ['getitem', -1, {'i': -1}],
    ['getitem', -1, {'i': [1, 0]}],
    ['getitem', -1, {'i': [0, 0], 'arr': True}],
    ['iter', -1, {'k': 1}],
    ['subset', -1, {'by': 'rid', 'pos': [1, 0], 'cont': 'list'}],
    ['subset', -1, {'by': 'rs', 'pos': [0], 'cont': 'scalar'}],
    ['subset', -1, {'by': None, 'pos': [1], 'cont': 'array', 'absent': True}],
    ['subsample', -1, {'by': 'rn', 'pos': [1, 0, 1], 'cont': 'list'}],
    ['subsample', -1, {'by': 'ri', 'pos': [0], 'cont': 'scalar'}],
    ['subset_pattern', -1, {'by': 'cid', 'pos': [2, 0, 1], 'cont': 'list'}],
    ['subset_pattern', -1, {'by': 'pc', 'pos': [0], 'cont': 'scalar'}],
    ['subset_pattern', -1, {'by': None, 'pos': [0, 2], 'cont': 'tuple'}],
    ['subsample_pattern', -1, {'by': 'pn', 'pos': [2, 0, 2], 'cont': 'list'}],
    ['subsample_pattern', -1, {'by': 'pc', 'pos': [1, 0], 'cont': 'array'}],
    ['reorder', -1, {'perm': 'rev'}],
    ['reorder', -1, {'perm': 'rot', 'arr': True}],
    ['sort_by', -1, {'by': 'pn', 'how': 'alpha', 'reindex': True}],
    ['sort_by', -1, {'by': 'pc', 'how': 'alpha', 'reindex': False}],
    ['sort_by', -1, {'by': 'cid', 'how': 'list', 'perm': 'rot', 'reindex': True}],
    ['append', -1, {'other': 1}],
    ['append', -1, {'other': 0}],
    ['copy', -1, {}],
    ['concat', None, {'objs': [-1, 1], 'target': None, 'call': 'args'}],
    ['concat', None, {'objs': [0, -1], 'target': 'cid', 'call': 'list'}],
    ['from_partials', None, {'objs': [-1, 0], 'desc': 'cid', 'all': None}],
    ['from_partials', None, {'objs': [0, -1], 'desc': 'pn', 'all': 'rev+extra'}],
    ['dict', -1, {}],
]
MENU_SMALL = [MENU[k] for k in (2, 5, 8, 10, 13, 15, 17, 20, 21, 22, 24, 25, 27)]


def _exh_sources(n_rdm, n_cond, variant):
    """pool = [B (other order, array-typed), C (same order as A, one RDM), A (the object the sequences act on)]"""
    cids = list(range(n_cond))
    rot = cids[1:] + cids[:1]
    a_nan = [[10, 0, n_cond - 1]] if n_cond > 1 else []
    if variant == 0:
        return [_src([20, 21], rot, ptype='array', rtype='array', odesc={'sess': 'sB', 'lab': 'L'}, nan=[[21, 0, 1]] if n_cond > 1 else []),
                _src([30], cids, odesc={'sess': 'sC', 'lab': 'L'}, form='vector1d'),
                _src(range(10, 10 + n_rdm), cids, odesc={'sess': 'sA', 'lab': 'L'}, nan=a_nan)]
    return [_src([20, 21], rot, odesc={'sess': 'sA'}, form='matrix'),
            _src([30], cids, ptype='array', odesc={'sess': 'sA'}, porder=['pc', 'pn', 'cid', 'pi']),
            _src(range(10, 10 + n_rdm), cids, ptype='array', rtype='array', odesc={'sess': 'sA'}, nan=a_nan,
                 form='vectorF', porder=['pc', 'pn', 'cid', 'pi'])]


def _admissible(case):
    try:
        dry_run(case)
        return True
    except Inadmissible:
        return False


def dom_exhaustive(run, thorough):
    shapes = [(3, 4), (2, 3)] if thorough else [(3, 4)]
    L_full = 3 if thorough else 2
    mu = Multi(run, 'sequences',
               'ALL admissible sequences of length <= %d over a menu of %d concrete operations (every operation kind, scalar/list/tuple/array '
               'values, by ghost / duplicate-valued / index descriptors)%s applied to an object of %s (RDMs x conditions; NaN entry; '
               'list- and array-typed descriptors, vector / F-ordered / matrix / 1-D input) with two partner objects; every step of '
               'every sequence checked' % (L_full, len(MENU), '' if thorough else ' and of length 3 over a sub-menu of %d' % len(MENU_SMALL),
                                           ' and '.join('%dx%d' % s for s in shapes)),
               exhaustive=True, budget_s=480 if thorough else 25)
    for (n_rdm, n_cond) in shapes:
        for variant in (0, 1):
            src = _exh_sources(n_rdm, n_cond, variant)
            plans = [(MENU, L_full)] + ([] if thorough else [(MENU_SMALL, 3)])
            for menu, L in plans:
                if variant == 1 and L == 3 and not thorough:
                    continue

                def rec(prefix, fresh):
                    # only maximal admissible sequences are run: every step of a sequence is checked, so all its
                    # prefixes are covered by the same run (the export clause of a shared prefix is judged in the first
                    # sequence through that prefix only: `export_from`)
                    extended = False
                    if len(prefix) < L:
                        for op in menu:
                            cand = prefix + [op]
                            if _admissible(dict(src=src, ops=cand)):
                                rec(cand, len(prefix) if extended else fresh)
                                extended = True
                    if not extended and prefix and not mu.out_of_budget():
                        mu.check(dict(src=src, ops=prefix, export_from=fresh))
                rec([], -1)
    return mu.done()


PENDING = ('permute_rdms-vector-of-another-integer-type', 'concat-default-target-vector-valued-descriptor')
INT_FORMS = [None, 'npint', 'int32', 'int16', 'uint8']


def _gen_history(rs, src, n_ops, kinds, sweep=False, **case_keys):
    """seeded random admissible history (model only).  sweep: additionally varies the TYPES of index / order arguments, draws the
    extended descriptors and never generates a step of a class that is pending triage (extra random draws: other cases than sweep=False)"""
    case = dict(src=src, ops=[], **case_keys)
    _, models = dry_run(case)
    tries = 0
    while len(case['ops']) < n_ops and tries < 40 * n_ops:
        tries += 1
        kind = kinds[rs.randint(len(kinds))]
        i = int(rs.randint(len(models)))
        m = models[i]
        n_r, n_c = len(m.rows), len(m.cids)
        cont = ['list', 'tuple', 'array', 'scalar'][rs.randint(4)]
        if sweep and cont == 'scalar' and rs.rand() < 0.5:
            cont = 'npscalar'
        if kind == 'getitem':
            if n_r == 0:
                continue
            if rs.rand() < 0.4:
                a = {'i': int(rs.randint(-n_r, n_r))}
            else:
                a = {'i': [int(v) for v in rs.randint(-n_r, n_r, size=rs.randint(1, n_r + 2))], 'arr': bool(rs.rand() < 0.5)}
            if sweep:
                a['form'] = INT_FORMS[rs.randint(len(INT_FORMS))]
            op = [kind, i, a]
        elif kind == 'iter':
            if n_r == 0:
                continue
            op = [kind, i, {'k': int(rs.randint(n_r))}]
        elif kind in ('subset', 'subsample'):
            by = ([None] + m.rnames)[rs.randint(len(m.rnames) + 1)]
            k = 1 if cont in ('scalar', 'npscalar') else rs.randint(1, 4)
            pos = [int(v) for v in rs.randint(0, max(n_r, 1), size=k)] if n_r else []
            a = {'by': by, 'pos': pos, 'cont': cont, 'absent': bool(rs.rand() < 0.15 and cont not in ('scalar', 'npscalar')) or not pos}
            op = [kind, i, a]
        elif kind in ('subset_pattern', 'subsample_pattern'):
            by = ([None] + m.pnames)[rs.randint(len(m.pnames) + 1)]
            k = 1 if cont in ('scalar', 'npscalar') else rs.randint(1, n_c + 1)
            pos = [int(v) for v in rs.randint(0, n_c, size=k)]
            op = [kind, i, {'by': by, 'pos': pos, 'cont': cont, 'absent': bool(rs.rand() < 0.15 and cont not in ('scalar', 'npscalar'))}]
        elif kind == 'reorder':
            op = [kind, i, {'perm': [int(v) for v in rs.permutation(n_c)], 'arr': bool(rs.rand() < 0.5)}]
            if sweep:
                op[2]['arr'] = [False, True, 'int32', 'int16', 'uint8', 'tuple'][rs.randint(6)]
        elif kind == 'sort_by':
            if not m.pnames:
                continue
            by = m.pnames[rs.randint(len(m.pnames))]
            how = 'alpha' if rs.rand() < 0.5 else 'list'
            if sweep and how == 'list' and rs.rand() < 0.4:
                how = 'array'
            op = [kind, i, {'by': by, 'how': how, 'perm': [int(v) for v in rs.permutation(n_c)], 'reindex': bool(rs.rand() < 0.6)}]
        elif kind == 'append':
            op = [kind, i, {'other': int(rs.randint(len(models)))}]
        elif kind in ('copy', 'dict'):
            op = [kind, i, {}]
        elif kind == 'permute':
            op = [kind, i, {'perm': [int(v) for v in rs.permutation(n_c)]}]
        elif kind == 'concat':
            mates = [j for j in range(len(models)) if sorted(models[j].cids) == sorted(m.cids)]
            k = rs.randint(1, 4)
            objs = [i] + [int(mates[rs.randint(len(mates))]) for _ in range(k - 1)]
            tg = [None, None, 'cid', 'pn'][rs.randint(4)]
            if sweep and rs.rand() < 0.3:
                tg = 'pw'
            op = [kind, None, {'objs': objs, 'target': tg, 'call': 'list' if rs.rand() < 0.5 else 'args'}]
        elif kind == 'from_partials':
            k = rs.randint(1, 4)
            objs = [i] + [int(rs.randint(len(models))) for _ in range(k - 1)]
            d = ['cid', 'pn'][rs.randint(2)]
            if sweep and rs.rand() < 0.3:
                d = 'pw'
            mode = rs.randint(4)
            if mode == 3:
                un = []
                for j in objs:
                    un += [c for c in models[j].cids if c not in un]
                un += [91] if rs.rand() < 0.5 else []
                allp = [un[v] for v in rs.permutation(len(un))]
            else:
                allp = [None, 'rev', 'rev+extra'][mode]
            op = [kind, None, {'objs': objs, 'desc': d, 'all': allp}]
        else:
            raise ValueError(kind)
        cand = dict(case, ops=case['ops'] + [op])
        try:
            flags, models2 = dry_run(cand)
        except Inadmissible:
            continue
        if sweep and any(c in PENDING for _, c in flags[-1]):
            continue
        case, models = cand, models2
    return case


KINDS = ['getitem', 'iter', 'subset', 'subsample', 'subset_pattern', 'subsample_pattern', 'reorder', 'sort_by', 'append',
         'copy', 'dict', 'concat', 'from_partials']
# histories of independent objects: every derived object is copied before use, so that in-place steps are legal everywhere
KINDS_W = KINDS + ['copy', 'copy', 'reorder', 'sort_by', 'append', 'subset_pattern', 'subsample_pattern', 'concat', 'from_partials']


def _rand_sources(rs):
    n_c = int(rs.randint(2, 9))
    cids = [int(v) for v in rs.permutation(12)[:n_c]]
    srcs = []
    g0 = 0
    for k in range(3):
        n_r = int(rs.randint(1, 7))
        rids = list(range(g0, g0 + n_r))
        g0 += n_r
        order = cids if k == 2 or rs.rand() < 0.5 else [cids[v] for v in rs.permutation(n_c)]
        nan = []
        for _ in range(rs.randint(0, 3)):
            if n_c > 1:
                a, b = rs.permutation(n_c)[:2]
                nan.append([int(rids[rs.randint(n_r)]), int(cids[a]), int(cids[b])])
        srcs.append(_src(rids, order, nan=nan, ptype=['list', 'array'][rs.randint(2)], rtype=['list', 'array'][rs.randint(2)],
                         form=['vector', 'vectorF', 'matrix'][rs.randint(3)],
                         porder=[['cid', 'pn', 'pc', 'pi'], ['pc', 'pi', 'pn', 'cid']][rs.randint(2)],
                         odesc=[{'sess': 's%d' % k, 'lab': 'L'}, {'lab': 'L'}][rs.randint(2)]))
    return srcs


def dom_random(run, thorough):
    n_seeds = 1200 if thorough else 200
    mu = Multi(run, 'histories',
               '%d seeded random admissible histories of <= 12 operations (13 operation kinds, all argument forms) over pools '
               'starting from 3 objects with 1..6 RDMs over 2..8 shared conditions (NaN entries, list/array descriptors, '
               'vector/F-ordered/matrix input, duplicate descriptor values)' % n_seeds, budget_s=240 if thorough else 12)
    for seed in range(n_seeds):
        if mu.out_of_budget():
            break
        rs = np.random.RandomState(1000 + seed)
        src = _rand_sources(rs)
        case = _gen_history(rs, src, int(rs.randint(4, 13)), KINDS_W if seed % 2 else KINDS)
        if case['ops']:
            mu.check(case)
    return mu.done()


def dom_concat(run, thorough):
    sizes = (2, 3, 4) if thorough else (2, 3)
    mu = Multi(run, 'concat',
               'concat of 2 objects over n in %s conditions: ALL orders of the second object, both argument orders, list/array '
               'typed descriptors, target descriptor default / int / str, both call forms; plus 3 objects and single objects'
               % (sizes,), exhaustive=True)
    for n in sizes:
        cids = list(range(n))
        for perm in itertools.permutations(cids):
            for ptype in ('list', 'array'):
                for target in (None, 'cid', 'pn'):
                    src = [_src([0, 1], cids, ptype=ptype, odesc={'sess': 'a'}, nan=[[1, 0, 1]]),
                           _src([5, 6, 7], list(perm), ptype=ptype, rtype='array', odesc={'sess': 'b'}, form='matrix')]
                    for objs, call in (([0, 1], 'args'), ([1, 0], 'list')):
                        mu.check(dict(src=src, ops=[['concat', None, {'objs': objs, 'target': target, 'call': call}]]))
            src = [_src([0], cids, ptype='array'), _src([5, 6], list(perm), ptype='array'), _src([8], list(perm)[::-1], ptype='array')]
            mu.check(dict(src=src, ops=[['concat', None, {'objs': [0, 1, 2], 'target': None, 'call': 'list'}]]))
        for call in ('args', 'list'):
            mu.check(dict(src=[_src([0, 1], cids)], ops=[['concat', None, {'objs': [0], 'target': None, 'call': call}]]))
        # two arguments derived from each other (no copy) that both need re-alignment
        for ptype in ('list', 'array'):
            src = [_src([0], cids, ptype=ptype), _src([5, 6], cids[::-1], ptype=ptype)]
            for objs in ([0, 2, 1], [0, 1, 2], [0, 1, 1]):
                mu.check(dict(src=src, ops=[['subset', 1, {'by': 'rid', 'pos': [0], 'cont': 'list'}],
                                            ['concat', None, {'objs': objs, 'target': 'cid', 'call': 'args'}]]))
    return mu.done()


# every operation kind once, on a pool [object with 2 RDMs, object with 1 RDM over the same conditions]
OPS_EACH = [['getitem', 0, {'i': 0}], ['getitem', 0, {'i': [1, 0]}], ['iter', 0, {'k': 1}],
            ['subset', 0, {'by': 'rid', 'pos': [1], 'cont': 'list'}], ['subsample', 0, {'by': 'rs', 'pos': [0, 0], 'cont': 'tuple'}],
            ['subset_pattern', 0, {'by': 'cid', 'pos': [0], 'cont': 'scalar'}],
            ['subsample_pattern', 0, {'by': 'cid', 'pos': [0, 0], 'cont': 'list'}],
            ['reorder', 0, {'perm': 'rev'}], ['sort_by', 0, {'by': 'pn', 'how': 'alpha'}],
            ['sort_by', 0, {'by': 'cid', 'how': 'list', 'perm': 'rev'}], ['append', 0, {'other': 1}], ['copy', 0, {}], ['dict', 0, {}],
            ['concat', None, {'objs': [0, 1], 'target': None}], ['concat', None, {'objs': [1, 0], 'target': 'cid', 'call': 'list'}],
            ['from_partials', None, {'objs': [0, 1], 'desc': 'cid', 'all': None}],
            ['from_partials', None, {'objs': [1, 0], 'desc': 'pn', 'all': 'rev+extra'}]]


def dom_edge(run, thorough):
    mu = Multi(run, 'edge-sizes',
               'every operation kind once on a 2-RDM object over ONE condition, on an object with ZERO RDMs (selection of an absent '
               'value), on objects over 2 conditions and over 40 conditions; from_partials of partials over disjoint single conditions',
               exhaustive=False)
    one = [_src([0, 1], [5]), _src([7], [5], ptype='array', rtype='array')]
    two = [_src([0, 1], [5, 3], nan=[[1, 3, 5]]), _src([7], [5, 3], ptype='array', form='vector1d')]
    ops_each = OPS_EACH
    big = [_src([0, 1], range(40), nan=[[1, 3, 5]], ptype='array'), _src([7], range(40), form='matrix')]
    for src in (one, two, big):
        for op in ops_each:
            mu.check(dict(src=src, ops=[op]))
            # the same on an object without RDMs
            if op[1] == 0 and op[0] not in ('getitem', 'iter'):
                case = dict(src=src, ops=[['subset', 0, {'by': 'rid', 'pos': [], 'cont': 'list', 'absent': True}], [op[0], -1, op[2]]])
                if _admissible(case):
                    mu.check(case)
    mu.check(dict(src=[_src([0], [5]), _src([1, 2], [3])], ops=[['from_partials', None, {'objs': [0, 1], 'desc': 'cid', 'all': None}],
                                                              ['getitem', -1, {'i': [2, 0]}]]))
    return mu.done()


def _arrangements(univ, kmin):
    for k in range(kmin, len(univ) + 1):
        for p in itertools.permutations(univ, k):
            yield list(p)


def dom_partials(run, thorough):
    mu = Multi(run, 'from_partials',
               'from_partials of two partial RDMs: ALL pairs of arrangements (ordered subsets of >= 2 conditions) of a universe of 3 '
               'conditions%s, pattern list default / reversed / reversed with a condition in no partial, int and str descriptor; '
               'followed by subset_pattern and a second from_partials; single partial'
               % (' and of 4 conditions' if thorough else '; universe of 4: all arrangements against 6 sampled ones (default and '
                  'reversed+extra pattern list only)'),
               exhaustive=bool(thorough))
    for n_u in (3, 4):
        univ = list(range(n_u))
        arr = list(_arrangements(univ, 2))
        seconds = arr if (thorough or n_u == 3) else arr[::10]
        for s1 in arr:
            for s2 in seconds:
                for allp in (None, 'rev', 'rev+extra'):
                    if n_u == 4 and not thorough and allp == 'rev':
                        continue
                    d = 'cid' if (len(s1) + len(s2)) % 2 else 'pn'
                    src = [_src([0], s1, odesc={'sess': 'a'}, form='vector1d'), _src([5, 6], s2, ptype='array', odesc={'sess': 'b'}, nan=[[6, s2[0], s2[1]]])]
                    ops = [['from_partials', None, {'objs': [0, 1], 'desc': d, 'all': allp}]]
                    if s1 == arr[-1] or s2 == arr[0]:
                        ops += [['subset_pattern', -1, {'by': d, 'pos': [0, 1], 'cont': 'list'}],
                                ['from_partials', None, {'objs': [-1, 0], 'desc': d, 'all': None}]]
                    mu.check(dict(src=src, ops=ops, export_from=-1 if s2 == arr[0] else 0))
        mu.check(dict(src=[_src([0, 1], univ)], ops=[['from_partials', None, {'objs': [0], 'desc': 'cid', 'all': 'rev'}]]))
    return mu.done()


def dom_permute(run, thorough):
    sizes = (1, 2, 3, 4, 5) if thorough else (1, 2, 3, 4)
    mu = Multi(run, 'permute_rdms',
               'permute_rdms with ALL permutation vectors of n in %s conditions on a 2-RDM object, alone and after subsample_pattern'
               % (sizes,), exhaustive=True)
    for n in sizes:
        for perm in itertools.permutations(range(n)):
            src = [_src([0, 1], range(n), nan=[[1, 0, n - 1]] if n > 1 else [])]
            mu.check(dict(src=src, ops=[['permute', 0, {'perm': list(perm)}]]))
            if n == 3:
                mu.check(dict(src=src, ops=[['subsample_pattern', 0, {'by': 'cid', 'pos': [0, 2, 0], 'cont': 'list'}],
                                            ['permute', -1, {'perm': list(perm)}]]))
    return mu.done()


def dom_small(run, thorough):
    out = []
    top = 20000 if thorough else 2000
    bd = Bounded(run, 'C10/size-recovery', 'C10/_get_n_from_reduced_vectors/oracle/size-recovery',
                 'every number of conditions 1..%d (helpers, on empty arrays of the right length) and 1..%d (constructed RDMs), plus '
                 '10^5, 10^6, 2^26+1 conditions' % (top, 60 if thorough else 40), exhaustive=True, function='_get_n_from_reduced_vectors')
    for lo in range(1, top, 500):
        bd.check(orc_size, dict(lo=lo, hi=min(lo + 500, top + 1), build_upto=60 if thorough else 40), 'all-sizes',
                 function='_get_n_from_reduced_vectors')
    for n in (10 ** 5, 10 ** 6, 2 ** 26 + 1):
        bd.check(orc_size, dict(lo=n, hi=n + 2), 'large-sizes', function='_get_n_from_reduced_vectors')
    bd.done()
    out.append(bd)
    bd = Bounded(run, 'C10/conversion', 'C10/batch_to_vectors/oracle/conversion',
                 'stacks of 1..3 RDMs over 1..%d conditions in 2-D (C, F, strided view), 3-D (C, F) and 1-D input form, with and without NaN; float64, int64 / int16 / uint8 / float32 typed, and in units of 1e-26, 1e-12, 1e12'
                 % (7 if thorough else 5), exhaustive=True, function='batch_to_vectors')
    for n_r in (1, 2, 3):
        for n in range(1, 8 if thorough else 6):
            for form in ('vector', 'vectorF', 'vector-view', 'matrix', 'matrixF', 'vector1d'):
                for n_nan in (0, 2):
                    if form == 'vector1d' and n_r > 1:
                        continue
                    bd.check(orc_conversion, dict(seed=n + 10 * n_r, n_rdm=n_r, n_cond=n, form=form, n_nan=n_nan),
                             'single-condition' if n == 1 else form, function='batch_to_vectors' if 'vector' in form else 'batch_to_matrices')
                if n_r == 2 or form == 'vector1d' or thorough:
                    # typed data (integer sentinels; no NaN in integer arrays) and extreme units
                    extra = [dict(dtype=dt, n_nan=2 if dt == 'float32' else 0) for dt in ('int64', 'int16', 'uint8', 'float32')]
                    extra += [dict(unit=u, n_nan=1) for u in (1e-26, 1e-12, 1e12)]
                    for kw in extra:
                        if form == 'vector1d' and n_r > 1:
                            continue
                        bd.check(orc_conversion, dict(seed=n + 10 * n_r, n_rdm=n_r, n_cond=n, form=form, **kw),
                                 'single-condition' if n == 1 else form, function='batch_to_vectors' if 'vector' in form else 'batch_to_matrices')
    bd.done()
    out.append(bd)
    bd = Bounded(run, 'C10/argument-forms', 'C10/RDMs/oracle/argument-forms',
                 'rdms_from_dict of hdf5-style dictionaries with 1..25 RDMs (items stored in ascending / alphabetical / descending key order); scalar str value for subset_pattern / subsample_pattern over label sets with and without labels that are substrings of '
                 'each other; sort_by with the explicit order given as list and as ndarray, all orders of 3 labels',
                 exhaustive=False, function='RDMs.subset_pattern')
    for names in (['a', 'b', 'c', 'd'], ['c1', 'c10', 'x', 'y'], ['ab', 'a', 'b', 'y'], ['face', 'house', 'facehouse']):
        for value in names:
            for kind in ('subset_pattern', 'subsample_pattern'):
                contained = any(p != value and p in value for p in names)
                bd.check(orc_argforms, dict(kind=kind, names=names, value=value),
                         'scalar-str-value-containing-another-label' if (contained and kind == 'subset_pattern') else 'scalar-str-value',
                         function='RDMs.' + kind)
    for n_r in (1, 3, 12, 25):
        bd.check(orc_argforms, dict(kind='from_dict', names=['c%02d' % ((5 * a) % 13) for a in range(13)], n_rdm=n_r),
                 'hdf5-style-dictionary', function='rdms_from_dict')
        for ko in ('alpha', 'desc'):
            bd.check(orc_argforms, dict(kind='from_dict', names=['c%02d' % ((5 * a) % 13) for a in range(13)], n_rdm=n_r, key_order=ko),
                     'hdf5-style-dictionary', function='rdms_from_dict')
    for perm in itertools.permutations(range(3)):
        for arr in (False, True):
            bd.check(orc_argforms, dict(kind='sort_by', names=['b', 'c', 'a'], perm=list(perm), array=arr),
                     'sort_by-ndarray-order' if arr else 'sort_by-list-order', function='RDMs.sort_by')
    bd.done()
    out.append(bd)
    return out


# =====================================================================================================
# dimension sweeps: typed data, units, containers, call sequences, environment
# =====================================================================================================
def _doubled(case):
    """call-sequence sweep: every operation that returns a new object is performed TWICE in a row with the same arguments (the
    same call twice must give the same result; the first result, held by the caller, must survive the second call).  The later
    operations of the history act on the FIRST result; the second one stays in the pool and is re-checked after every step."""
    fam = itertools.count(len(case['src']))
    models = [_m_source(s, k) for k, s in enumerate(case['src'])]
    pos = list(range(len(models)))          # object number in the original history -> object number in the doubled one
    n_new = len(models)
    ops = []
    for op in case['ops']:
        kind, ref, a = op
        n_old = len(models)
        a2 = dict(a)
        ref2 = None if ref is None else pos[_abs(ref, n_old)]
        if 'other' in a:
            a2['other'] = pos[_abs(a['other'], n_old)]
        if 'objs' in a:
            a2['objs'] = [pos[_abs(k, n_old)] for k in a['objs']]
        st = m_step(models, op, fam)
        for k, mm in st['repl'].items():
            models[k] = mm
        models += st['new']
        ops.append([kind, ref2, a2])
        if st['new']:
            pos.append(n_new)
            ops.append([kind, ref2, dict(a2)])
            n_new += 2
    out = {k: v for k, v in case.items() if k != 'export_from'}
    out['ops'] = ops
    if 'export_from' in case:
        out['export_from'] = min(case['export_from'], 0)
    return out


EXTRA_OPS = [['subsample_pattern', 0, {'by': 'cid', 'pos': [1, 3, 1, 1], 'cont': 'array'}],
             ['subsample_pattern', 0, {'by': 'pc', 'pos': [0, 2], 'cont': 'tuple'}],
             ['subset_pattern', 0, {'by': 'pn', 'pos': [3, 0, 2], 'cont': 'array'}],
             ['subsample', 0, {'by': 'rid', 'pos': [1, 1, 0], 'cont': 'array'}],
             ['permute', 0, {'perm': 'rot'}],
             ['subset', 0, {'by': 'rid', 'pos': [1], 'cont': 'npscalar'}], ['subsample', 0, {'by': 'rn', 'pos': [0], 'cont': 'npscalar'}],
             ['subset_pattern', 0, {'by': 'pn', 'pos': [2], 'cont': 'npscalar'}], ['subsample_pattern', 0, {'by': 'pc', 'pos': [0], 'cont': 'npscalar'}],
             ['getitem', 0, {'i': 1, 'form': 'npint'}], ['getitem', 0, {'i': [1, 1, 0], 'form': 'int32'}],
             ['getitem', 0, {'i': [0, 1], 'form': 'uint8'}], ['getitem', 0, {'i': -1, 'form': 'int16'}],
             ['reorder', 0, {'perm': 'rot', 'arr': 'int32'}], ['reorder', 0, {'perm': 'rot', 'arr': 'uint8'}],
             ['reorder', 0, {'perm': 'rot', 'arr': 'tuple'}],
             ['sort_by', 0, {'by': 'cid', 'how': 'array', 'perm': 'rot', 'reindex': False}]]
DTYPES = ('int64', 'int32', 'int16', 'uint8', 'float32')
UNITS = (1e-26, 1e-20, 1e-12, 1e6, 1e12)
P_EXT = ['pw', 'cid', 'pf', 'pn', 'pc', 'pi']
R_EXT = ['rw', 'rid', 'rf', 'rs', 'rn', 'ri']


def dom_typed(run, thorough):
    """typed data and units: the operations move NUMBERS -- an integer / float32 typed source, or one in extreme units, gives the
    result of the same numbers as float64 (the model does not know the dtype)"""
    mu = Multi(run, 'typed-units',
               'every operation kind (%d concrete operations incl. numpy-integer typed index / order arguments%s) once on a 2-RDM object '
               'over 4 conditions with a 1-RDM partner: dissimilarities held as %s (integer sentinels 1..240) in 2-D and 3-D input form, and as '
               'float64 multiplied by each of %s (with NaN entries); descriptors incl. variable-width str and float valued ones in '
               'list / tuple / ndarray / int8-ndarray containers' % (len(OPS_EACH) + len(EXTRA_OPS), '' if thorough else '; every other variant: a third of them', ', '.join(DTYPES), UNITS),
               exhaustive=False)
    cids = [4, 1, 5, 0]
    ops = OPS_EACH + EXTRA_OPS
    variants = []
    for k, dt in enumerate(DTYPES):
        for form in (('vector', 'matrix') if thorough or k % 2 == 0 else ('vector',)):
            other = DTYPES[(k + 2) % len(DTYPES)] if form == 'vector' else None      # partner of another dtype (promotion) / float64
            variants.append((dict(vmode='small'),
                             [_src([13, 1], cids, dtype=dt, form=form, porder=P_EXT, rorder=R_EXT, ptype=['list', 'tuple', 'array', 'int8'][k % 4],
                                   rtype=['array', 'list', 'int8', 'tuple'][k % 4], odesc={'sess': 'a', 'lab': 'L'}),
                              _src([15], cids, dtype=other, porder=P_EXT, rorder=R_EXT, ptype='array', odesc={'sess': 'session-b', 'lab': 'L'})]))
    for k, unit in enumerate(UNITS):
        variants.append((dict(unit=unit),
                         [_src([3, 1], cids, nan=[[1, 0, 4]], porder=P_EXT, rorder=R_EXT, ptype=['tuple', 'list'][k % 2], rtype='tuple',
                               form=['vector', 'matrix', 'vectorF'][k % 3], odesc={'sess': 'a'}),
                          _src([7], cids, porder=P_EXT, rorder=R_EXT, rtype='int8', ptype='int8', odesc={'sess': 'session-b'})]))
    for j, (keys, src) in enumerate(variants):
        for k, op in enumerate(ops if thorough or j % 2 == 0 else ops[(j // 2) % 3::3]):
            case = dict(src=src, ops=[op], export_from=-1 if k == 0 else 0, **keys)     # export of the sources judged once per variant
            if _admissible(case):
                mu.check(case)
        # two steps: a selection with repeated conditions / a partial-RDM combination, then the export and a re-selection
        mu.check(dict(src=src, ops=[['subsample_pattern', 0, {'by': 'pc', 'pos': [0, 1, 0], 'cont': 'list'}],
                                    ['subset_pattern', -1, {'by': 'pw', 'pos': [0, 1, 2], 'cont': 'tuple'}],
                                    ['from_partials', None, {'objs': [0, 1], 'desc': 'pw', 'all': 'rev+extra'}],
                                    ['concat', None, {'objs': [-1, -1], 'target': 'pw', 'call': 'list'}]], **keys))
    return mu.done()


def dom_vector(run, thorough):
    """vector-valued (2-D) descriptors are carried along like any other descriptor value"""
    mu = Multi(run, 'vector-valued-descriptors',
               'every operation kind once on a 2-RDM object over 4 conditions (1-RDM partner) whose conditions and RDMs carry a descriptor '
               'holding one VECTOR per element (2-D ndarray / list of lists / tuple of tuples); selections by the other descriptors; '
               'concat with an explicit target descriptor; DataFrame export not judged', exhaustive=False)
    cids = [4, 1, 5, 0]
    pord, rord = ['cid', 'pv', 'pn', 'pc', 'pi'], ['rid', 'rv', 'rs', 'rn', 'ri']
    for ptype, rtype in (('array', 'list'), ('list', 'array'), ('tuple', 'tuple')):
        src = [_src([3, 1], cids, nan=[[1, 0, 4]], porder=pord, rorder=rord, ptype=ptype, rtype=rtype),
               _src([7], cids, porder=pord, rorder=rord, ptype=ptype, rtype=rtype)]
        for op in OPS_EACH + EXTRA_OPS:
            case = dict(src=src, ops=[op])
            if _admissible(case) and not any(c in PENDING for fl in dry_run(case)[0] for _, c in fl):
                mu.check(case, label='vector-valued-descriptor')
    if True:   # repaired in /repo df506db3 (was pending triage): concat-default-target-vector-valued-descriptor
        for ptype in ('array', 'list'):
            src = [_src([3, 1], cids, porder=pord, rorder=rord, ptype=ptype), _src([7], cids, porder=pord, rorder=rord, ptype=ptype)]
            mu.check(dict(src=src, ops=[['concat', None, {'objs': [0, 1], 'target': None}]]))
    if True:   # recorded as an open finding (known_findings.json): to_df-vector-valued-descriptor
        src = [_src([3, 1], cids, porder=pord, ptype='array')]
        mu.check(dict(src=src, ops=[['copy', 0, {}]], export_vector=True), label='to_df-vector-valued-descriptor')
    if True:   # repaired in /repo 13aa238a (was pending triage): permute_rdms-vector-of-another-integer-type
        for dt in ('int32', 'uint8'):
            mu.check(dict(src=[_src([3, 1], cids)], ops=[['permute', 0, {'perm': 'rot', 'dt': dt}]]))
    return mu.done()


def dom_calls(run, thorough):
    """call sequences: the same call twice; twin objects of the same shape with different content, interleaved"""
    mu = Multi(run, 'call-sequences',
               'every operation of the menu of %d performed twice in a row on the same object (first result kept and re-checked), on both '
               'source variants; every operation kind on an object X, then on a twin X\' of the SAME shape and container types but other '
               'values / conditions, then on X again (all results kept and re-checked after every call)' % len(MENU), exhaustive=False)
    for variant in (0, 1):
        src = _exh_sources(3, 4, variant)
        for op in MENU:
            for tail in ([], [['copy', -1, {}], ['sort_by', -1, {'by': 'pn', 'how': 'alpha', 'reindex': True}]]):
                case = dict(src=src, ops=[op] + tail, export_from=0)
                if _admissible(case):
                    mu.check(_doubled(case))
    twins = [_src([3, 1], [4, 1, 5, 0], nan=[[1, 0, 4]]), _src([7], [4, 1, 5, 0], ptype='array'),
             _src([12, 14], [2, 7, 3, 9], nan=[[14, 2, 9]]), _src([19], [2, 7, 3, 9], ptype='array')]

    def shift(op):
        a = dict(op[2])
        if 'other' in a:
            a['other'] += 2
        if 'objs' in a:
            a['objs'] = [k + 2 for k in a['objs']]
        return [op[0], None if op[1] is None else op[1] + 2, a]
    for op in OPS_EACH + EXTRA_OPS:
        case = dict(src=twins, ops=[op, shift(op), op, shift(op)], export_from=0)
        if _admissible(case):
            mu.check(case)
    return mu.done()


def _sweep_sources(rs, mode, thorough):
    """3 sources over one condition set; mode 0: integer / float32 typed, 1: extreme units, 2: vector-valued descriptors,
    3: more RDMs / conditions than the histories domain.  RDM ghosts in non-monotone order, extended descriptors, all containers."""
    if mode == 0:
        n_c = int(rs.randint(2, 7))
        pool_c = 6
    elif mode == 3:
        n_c = int(rs.randint(9, 14 if thorough else 11))
        pool_c = 16
    else:
        n_c = int(rs.randint(2, 9))
        pool_c = 12
    cids = [int(v) for v in rs.permutation(pool_c)[:n_c]]
    ghosts = [int(v) for v in rs.permutation(16)]
    porder = [P_EXT[v] for v in rs.permutation(len(P_EXT))]
    rorder = [R_EXT[v] for v in rs.permutation(len(R_EXT))]
    if mode == 2:
        porder.insert(int(rs.randint(1, 4)), 'pv')
        rorder.insert(int(rs.randint(1, 4)), 'rv')
    srcs = []
    conts = ['list', 'array', 'tuple', 'int8']
    for k in range(3):
        n_r = int(rs.randint(1, 5)) if mode != 3 else int(rs.randint(3, 6))
        if mode == 3 and k == 0:
            n_r = 6
        rids, ghosts = ghosts[:n_r], ghosts[n_r:]
        order = cids if k == 2 or rs.rand() < 0.5 else [cids[v] for v in rs.permutation(n_c)]
        dtype = [None, 'int64', 'int32', 'int16', 'uint8', 'float32'][rs.randint(6)] if mode == 0 else None
        nan = []
        if dtype in (None, 'float32'):
            for _ in range(rs.randint(0, 3)):
                if n_c > 1:
                    a, b = rs.permutation(n_c)[:2]
                    nan.append([int(rids[rs.randint(n_r)]), int(cids[a]), int(cids[b])])
        srcs.append(_src(rids, order, nan=nan, dtype=dtype, ptype=conts[rs.randint(4)], rtype=conts[rs.randint(4)],
                         form=['vector', 'vectorF', 'matrix'][rs.randint(3)], porder=porder, rorder=rorder,
                         odesc=[{'sess': 'session-%d' % k * (k + 1), 'lab': 'L'}, {'lab': 'L'}][rs.randint(2)]))
    return srcs


KINDS_S = KINDS_W + ['permute', 'getitem', 'reorder', 'subsample_pattern']


def dom_sweep_histories(run, thorough):
    n_seeds = 600 if thorough else 80
    mu = Multi(run, 'sweep-histories',
               '%d seeded random admissible histories of <= 12 operations (14 operation kinds; index / order arguments as int, numpy '
               'integer scalars, int32 / int16 / uint8 arrays, tuples) over pools starting from 3 objects, in four modes: integer / float32 '
               'typed dissimilarities (1..4 RDMs, 2..6 conditions), float64 in units of 1e-26..1e12, vector-valued descriptors, and '
               '3..6 RDMs over 9..%d conditions; RDM ghosts in non-monotone order, str (variable width) / int / float descriptors in list / '
               'tuple / ndarray / int8 containers; every third history with every call doubled'
               % (n_seeds, 13 if thorough else 10), budget_s=150 if thorough else 8)
    for seed in range(n_seeds):
        if mu.out_of_budget():
            break
        rs = np.random.RandomState(77000 + seed)
        mode = seed % 4
        src = _sweep_sources(rs, mode, thorough)
        keys = {}
        if mode == 0:
            keys['vmode'] = 'small'
        if mode == 1:
            keys['unit'] = UNITS[(seed // 4) % len(UNITS)]
        case = _gen_history(rs, src, int(rs.randint(4, 13 if mode != 3 else 9)), KINDS_S, sweep=True, **keys)
        if not case['ops']:
            continue
        if seed % 3 == 0:
            case = _doubled(case)
        mu.check(case, label='vector-valued-descriptor' if mode == 2 else None)
    return mu.done()


_HASHSEED_SCRIPT = """
import json, sys, warnings
warnings.simplefilter('ignore')
import contracts.C10_c as m
out = []
for case in json.load(sys.stdin):
    flags, _ = m.dry_run(case)
    for asp, (step, msg) in sorted(m.run_history(case).items()):
        if 0 <= step < len(flags) and asp in dict(flags[step]):
            continue          # a step of an input class with a recorded defect: judged in-process under its own class
        out.append('%s: %s' % (asp, msg))
print('C10-HASHSEED-RESULT ' + json.dumps(out))
"""


def _hashseed_cases(n, seed0):
    cases = []
    for seed in range(seed0, seed0 + n):
        rs = np.random.RandomState(88000 + seed)
        src = _sweep_sources(rs, 1 + seed % 2, False)
        cases.append(_gen_history(rs, src, 8, ['concat', 'from_partials', 'subset', 'subsample', 'subset_pattern', 'append', 'copy', 'dict',
                                                'sort_by'], sweep=True))
    return cases


@oracle('C10/hashseed')
def orc_hashseed(case):
    """environment: a NEW interpreter started with another PYTHONHASHSEED judges the same histories (str labels, descriptor merging
    of concat / from_partials through sets / dicts) -- every clause must hold there too"""
    import os
    import subprocess
    import sys
    cases = _hashseed_cases(case['n'], case['seed0'])
    import rsatoolbox
    root = os.path.dirname(os.path.dirname(os.path.abspath(__file__)))
    lib = os.path.dirname(os.path.dirname(os.path.abspath(rsatoolbox.__file__)))      # the tree under test in THIS interpreter
    env = dict(os.environ, PYTHONHASHSEED=str(case['hashseed']),
               PYTHONPATH=os.pathsep.join([lib, root] + [p for p in os.environ.get('PYTHONPATH', '').split(os.pathsep) if p]))
    pr = subprocess.run([sys.executable, '-c', _HASHSEED_SCRIPT], input=json.dumps(cases), capture_output=True, text=True,
                        env=env, cwd=root, timeout=300)
    lines = [ln for ln in pr.stdout.splitlines() if ln.startswith('C10-HASHSEED-RESULT ')]
    if pr.returncode != 0 or not lines:
        return f'interpreter with PYTHONHASHSEED={case["hashseed"]} failed (rc {pr.returncode}): {pr.stderr[-400:]}'
    probs = json.loads(lines[-1][len('C10-HASHSEED-RESULT '):])
    if probs:
        return f'under PYTHONHASHSEED={case["hashseed"]}: {probs[0]} ({len(probs)} clause failures)'
    return None


def dom_hashseed(run, thorough):
    seeds = (1, 2, 3, 12345, 4294967295) if thorough else (1,)
    n = 40 if thorough else 8
    bd = Bounded(run, 'C10/hashseed', 'C10/RDMs/oracle/hashseed',
                 '%d seeded histories of 8 operations (concat / from_partials / selections / append / sort_by / dictionary round trip; str '
                 'labels) judged by all clauses in a new interpreter started with PYTHONHASHSEED = %s' % (n, ', '.join(map(str, seeds))),
                 exhaustive=False, function='concat')
    for hs in seeds:
        bd.check(orc_hashseed, dict(hashseed=hs, n=n, seed0=0), 'other-hash-seed', function='concat')
    bd.done()
    return [bd]


def tier_c(run, thorough):
    bds = []
    bds += dom_small(run, thorough)
    bds += dom_concat(run, thorough)
    bds += dom_edge(run, thorough)
    bds += dom_partials(run, thorough)
    bds += dom_permute(run, thorough)
    bds += dom_exhaustive(run, thorough)
    bds += dom_random(run, thorough)
    bds += dom_typed(run, thorough)
    bds += dom_vector(run, thorough)
    bds += dom_calls(run, thorough)
    bds += dom_sweep_histories(run, thorough)
    bds += dom_hashseed(run, thorough)
    return bds
