"""C17 (bounded run-time tier) -- RDM transforms mean what they say; measures are invariant as theory dictates.

Every oracle hands the transform a FRESH copy of its input (the in-place writes through get_vectors() are C12's
concern) and judges only the returned dissimilarities, descriptors and measure name.  Expected values are computed here
from the property statement by literal loops (rank counting, pair counting, Floyd-Warshall); repo code is never asked
for an expected value.

Clause of the property                                                       oracle
--------------------------------------------------------------------------  -------------------------------------------
rank_transform = ranks among the non-missing entries of EACH RDM, for each   C17/rank            (orc_rank)
  tie method (average/min/max/dense/ordinal), NaN stays NaN
sqrt_transform = sqrt(max(x,0)), positive_transform = max(x,0), NaN kept     C17/elementwise     (orc_elementwise)
minmax maps each RDM increasingly and affinely onto [0,1]                    C17/minmax          (orc_minmax)
  (min -> exactly 0, max -> exactly 1, weak order kept, (x-min)/(max-min))
geo-topological = clipped-linear map between the two quantile thresholds     C17/geotopological  (orc_geotopological)
  (thresholds = np.quantile of the whole vector array, as DESIGN assumes)
geodesic = shortest-path lengths in the min-max graph without its maximal    C17/geodesic        (orc_geodesic, literal)
  edges                                                                      C17/geodesic-nonzero-edges (regression guard
                                                                              for everything but the known zero-edge loss)
custom transform applies the given function to the vector array             C17/custom          (orc_custom)
all transforms return RDMs with the source's descriptors (str / int / dict,  _check_meta inside every oracle above and
  list-typed, array-typed, user-given 'index') and the documented measure    C17/descriptors-measure (orc_meta: 7 transforms
  name                                                                        x 7 source names x 4 descriptor kinds)
the measure name is UPDATED by every transform                               C17/measure-updated (orc_measure_updated)
Spearman, rho-a, tau-a, tau-b/kendall unchanged by strictly increasing maps  C17/rank-invariance (orc_rank_invariance): the
  of either / both RDMs (scalings down to 1e-13, offsets, cbrt, exp, ...,     value after the maps == value before == value
  sqrt_transform / rank_transform / minmax_transform / transform(fun));       counted by brute force over all pairs;
  data with ties, negatives, common NaN positions, nearly equal values        C17/evaluation (orc_evaluation): the same
                                                                              through inference.eval_fixed
cosine-type measures unchanged by positive scaling, correlation-type by      C17/scale-affine-invariance
  positive affine maps (cosine, cosine_cov, corr, corr_cov; sigma_k None /    (orc_scale_affine)
  vector / matrix); cosine and corr also against np.dot / centred np.dot

Dimension sweeps (function _sweeps; the *-sweeps domains run the oracles above with further keys in the case dicts)
--------------------------------------------------------------------------------------------------------------------
typed data        key dtype: the dissimilarities are handed to RDMs(...) as int8 .. int64 / uint8 / uint16 / float32; the expected
                  values are those of the same numbers in float64 (single precision suffices below 32 bit and for float32).
                  rank, sqrt, positive, minmax, geotopological, geodesic, transform; compare (all 9 methods) and eval_fixed on
                  typed stacks, also after typed library transforms
units             keys scale, shift: x -> s*x+t with s = 1e-26 .. 1e12 and offsets large against the spread, for every
                  transform (sqrt / positive judged relative to the value itself); scalings 1e-26 / 1e12 among the increasing
                  maps of the rank-based measures; correlation-type measures under a*x+b in such units
containers        descriptor kinds 'tuples' (tuple-typed, int and str labels, repeated / interleaved, first appearance not in
                  sorted order, own tuple index) and 'vectors' (2-D arrays and lists of lists) for all transforms
                  (C17/descriptors-measure-containers, and rotated through every sweep); quantiles of the geo-topological
                  transform as int, np.float64, np.float32, 0-d array (key qtype)
sizes             2 conditions (a single pair; for geotopological a stack of such RDMs), 9-15 conditions, up to 12 RDMs
call sequences    C17/call-sequence (orc_call_sequence): t(A), t(B), t(A) with B of the same shape / descriptors / measure:
                  the held first result is unchanged, the repeated call agrees exactly, all three are the stated values;
                  C17/compare-call-sequence (orc_compare_sequence): the same for compare
environment       C17/hashseed (orc_hashseed): a batch of cases of the oracles in new interpreters with other PYTHONHASHSEED
competitor sets / file order: nothing in this property (the geodesic clause is checked against exact Floyd-Warshall lengths)

Defects found by the sweeps, registrations behind `if False:  # pending triage` in _sweeps   [TRIAGED since: every class repaired in /repo, recorded as open finding, or dropped -- DESIGN.md 10.10]
* 'integer-typed' (minmax_transform, and geodesic_transform through it): the result is written back into the integer array
  and truncated to 0 / 1 -- RDMs(np.array([[3, 1, 7, 200, 5, 1]])) -> [0, 0, 0, 1, 0, 0]; geodesic -> all 0
* 'sqrt,8-bit-integer-typed' (sqrt_transform of int8 / uint8 RDMs): np.sqrt of an 8-bit array is float16 -- sqrt(5) = 2.2363
  instead of 2.23607 (relative error up to 5e-4)

NOT covered by this tier
* "for all inputs": everything here is bounded (exhaustive over weak orders of 3 and 6 entries for the element-wise maps
  and the ranks; seeded elsewhere).  The all-reals statements are the business of engines B / L (DESIGN C17).
* NaN entries for minmax / geotopological / geodesic: these transforms make no provision for NaN ("NaN where supported");
  today they return all-NaN resp. the unchanged values.  Mentioned in C17_findings.md as an observation, not asserted.
* constant RDMs for minmax / geodesic (max == min: the statement's "onto [0,1]" presupposes max > min) and quantile pairs
  with equal thresholds for geotopological.
* deep-copy freshness of the returned descriptor dicts and non-mutation of the source (C12).
* that the measures themselves are the textbook formulas for all inputs (C03); here only on the cases generated.
* bures / bures_metric / neg_riem_dist are not named by the property and are not examined.
* typed data: bool and float16 RDMs (minmax / geotopological / geodesic raise TypeError on bool: numpy has no boolean
  subtraction); how exact results for float32 / int16 RDMs are beyond single precision (sqrt_transform, compare and eval_fixed
  return single-precision values there); custom functions whose value depends on the dtype they are handed (wrap-around).
* call sequences on the SAME source object (whether the source is written to is C12), non-mutation of compare's inputs.
* the exact blank in 'sqrt of<name>': names are compared modulo blanks (see findings, observation O1).
"""
import itertools
import math

import numpy as np

from vf.rt.harness import oracle, Bounded, close

NAN = float('nan')
INF = float('inf')
RANK_METHODS = ('average', 'min', 'max', 'dense', 'ordinal')
RANK_SIMS = ('spearman', 'rho-a', 'tau-a', 'tau-b', 'kendall')
TRANSFORMS = ('rank', 'sqrt', 'positive', 'minmax', 'geotopological', 'geodesic', 'custom')
MEASURES = (None, 'squared euclidean', 'squared mahalanobis', 'crossnobis', 'euclidean', 'correlation (ranks)',
            'sqrt of unknown measure')
DESC_KINDS = ('none', 'scalars', 'lists', 'arrays')
# container sweep: tuple-typed descriptors (int and str labels, first-appearance order different from the sorted order) and
# vector-valued (2-D) descriptors.  Kept apart from DESC_KINDS so that the rotation of the earlier cases is unchanged.
DESC_KINDS_X = ('tuples', 'vectors')
# typed-data sweep: dtypes of the dissimilarity vectors handed to RDMs(...)
INT_DTYPES = ('int8', 'uint8', 'int16', 'uint16', 'int32', 'int64')
TYPED = INT_DTYPES + ('float32',)
# strictly increasing value palettes (level -> value); row r of a stack uses palette r % 3, so that the RDMs of one stack
# live on different ranges (per-RDM ranks / min-max differ from pooled ones)
PALETTES = ([-1.5, -0.25, 0.0, 0.5, 2.0, 7.0],
            [-30.0, -2.0, -0.5, 0.0, 1.0, 1.5],
            [0.0, 0.01, 4.0, 9.0, 16.0, 1.0e6])
# the same idea inside the range of int8 (with negatives) and of uint8
PALETTES_INT = ([-3, -1, 0, 2, 5, 90], [-100, -7, -2, 0, 1, 3], [0, 1, 4, 9, 16, 120])
PALETTES_UINT = ([0, 1, 2, 5, 9, 200], [3, 4, 10, 50, 100, 250], [0, 1, 4, 9, 16, 255])


# =====================================================================================================================
# building inputs
# =====================================================================================================================
def _n_pairs(n_cond):
    return n_cond * (n_cond - 1) // 2


def _rows_to_vectors(rows, dtype=None):
    """rows of levels (None = missing) -> float array, row r through palette r % 3 (integer palettes for integer dtypes)"""
    pals = PALETTES
    if dtype is not None and np.dtype(dtype).kind == 'i':
        pals = PALETTES_INT
    if dtype is not None and np.dtype(dtype).kind == 'u':
        pals = PALETTES_UINT
    out = np.empty((len(rows), len(rows[0])))
    for r, row in enumerate(rows):
        pal = pals[r % len(pals)]
        for k, lev in enumerate(row):
            out[r, k] = NAN if lev is None else pal[lev]
    return out


class CaseInvalid(Exception):
    pass


def _values(v, dtype):
    """the float64 values that the cast to dtype leaves of v -- what the library is really given; integer dtypes: rounded,
    have to fit the range and cannot hold missing entries"""
    v = np.array(v, dtype=float)
    if dtype is None:
        return v
    dt = np.dtype(dtype)
    if dt.kind in 'iu':
        if np.isnan(v).any():
            raise CaseInvalid('missing entries in an integer-typed RDM')
        r = np.round(v)
        info = np.iinfo(dt)
        if r.min() < info.min or r.max() > info.max:
            raise CaseInvalid(f'values outside the range of {dtype}')
        return r.astype(dt).astype(float)
    with np.errstate(over='ignore'):
        return v.astype(dt).astype(float)


def _units(v, case):
    """dimension sweeps common to the value oracles: the unit (case['scale'], case['shift']: x -> scale * x + shift) and the
    dtype (case['dtype']) of the dissimilarities.  Returns the float64 values of what the library is given."""
    v = np.array(v, dtype=float)
    if 'scale' in case or 'shift' in case:
        v = v * float(case.get('scale', 1.0)) + float(case.get('shift', 0.0))
    return _values(v, case.get('dtype'))


def _tol(dtype, base):
    """precision asked of a result: that of float64 arithmetic (base) unless the dissimilarities are narrower than 32 bit /
    float32, where single precision suffices (numpy's own promotion: int16 -> float32).  Half precision does not."""
    if dtype is None or np.dtype(dtype).itemsize >= 4 and np.dtype(dtype).kind in 'iu':
        return base
    return max(base, 2e-6)


def _desc(kind, n_rdm, n_cond):
    """fresh descriptor dicts of the given kind: (descriptors, rdm_descriptors, pattern_descriptors) as handed to RDMs(...)"""
    if kind == 'none':
        return None, None, None
    if kind == 'scalars':
        return ({'session': 'a', 'n': 3, 'meta': {'k': [1, 2], 's': 'x'}},
                {'subj': [10 + 3 * i for i in range(n_rdm)]},
                {'cond': ['c%d' % (i // 2) for i in range(n_cond)]})
    if kind == 'lists':   # list-typed, repeated labels, user-given non-default 'index'
        return ({'tags': ['p', 'q'], 'session': 'b'},
                {'subj': [(7 * i) % 3 for i in range(n_rdm)], 'name': ['s%d' % i for i in range(n_rdm)],
                 'index': [100 + i for i in range(n_rdm)]},
                {'cond': ['b', 'a'] * (n_cond // 2) + ['z'] * (n_cond % 2), 'w': [0.5 * i for i in range(n_cond)],
                 'index': [n_cond - i for i in range(n_cond)]})
    if kind == 'tuples':  # tuple-typed; int and str labels; repeated, interleaved, first appearance != sorted order
        return ({'tags': ('p', 'q'), 'run': 7},
                {'subj': tuple((5 * i + 2) % 4 for i in range(n_rdm)), 'name': tuple('s%d' % (n_rdm - i) for i in range(n_rdm))},
                {'cond': tuple('zxy'[(2 * i) % 3] for i in range(n_cond)), 'num': tuple((3 * i + 1) % 5 for i in range(n_cond)),
                 'index': tuple(10 * (n_cond - i) for i in range(n_cond))})
    if kind == 'vectors':  # vector-valued (2-D) descriptors, as arrays and as lists of lists
        return ({'centre': np.array([1.5, -2.0, 3.0])},
                {'coord': np.arange(n_rdm * 3).reshape(n_rdm, 3)[::-1] * 0.5, 'subj': [3 - (i % 2) for i in range(n_rdm)]},
                {'pos': np.arange(n_cond * 2).reshape(n_cond, 2) % 3, 'feat': [[i, i % 2] for i in range(n_cond)],
                 'cond': ['c%d' % (i % 2) for i in range(n_cond)]})
    if kind == 'arrays':
        return ({'roi': np.array([1, 2, 3])},
                {'subj': np.arange(n_rdm)[::-1] * 2, 'name': np.array(['s%d' % i for i in range(n_rdm)])},
                {'cond': np.array(['c%d' % (i % 3) for i in range(n_cond)]), 'pos': np.arange(n_cond) * 1.5})
    raise ValueError(kind)


def _expected_desc(kind, n_rdm, n_cond):
    d, r, p = _desc(kind, n_rdm, n_cond)
    d = {} if d is None else d
    r = {} if r is None else r
    p = {} if p is None else p
    if 'index' not in r:
        r['index'] = list(range(n_rdm))
    if 'index' not in p:
        p['index'] = list(range(n_cond))
    return d, r, p


def _mk(vectors, measure=None, kind='none', dtype=None):
    """a FRESH RDMs object (own array, own descriptor dicts); dtype: the dissimilarities are handed over in that dtype
    (the values must be representable in it: see _values)"""
    from rsatoolbox.rdm import RDMs
    v = np.array(vectors, dtype=float).copy()
    if dtype is not None:
        v = v.astype(dtype)
    n_rdm = v.shape[0]
    n_cond = int(round((1 + math.sqrt(1 + 8 * v.shape[1])) / 2))
    d, r, p = _desc(kind, n_rdm, n_cond)
    return RDMs(v, dissimilarity_measure=measure, descriptors=d, rdm_descriptors=r, pattern_descriptors=p)


def _custom_fun(name):
    if name == 'cbrt':
        return np.cbrt
    if name == 'square':
        return lambda v: v * v
    if name == 'affine':
        return lambda v: 2.5 * v - 1.0
    if name == 'neg':
        return lambda v: -v
    if name == 'rowcenter':        # needs the (n_rdm x n_pairs) array, not single values / flattened data
        return lambda v: v - np.mean(v, axis=1, keepdims=True)
    if name == 'colindex':         # position dependent: adds the column number
        return lambda v: v + np.arange(v.shape[1])[None, :]
    raise ValueError(name)


def _T():
    """the module rsatoolbox.rdm.transform (the package attribute of that name is the function transform)"""
    import importlib
    return importlib.import_module('rsatoolbox.rdm.transform')


def _apply(tname, rdms, par=None):
    T = _T()
    if tname == 'rank':
        return T.rank_transform(rdms) if par is None else T.rank_transform(rdms, method=par)
    if tname == 'sqrt':
        return T.sqrt_transform(rdms)
    if tname == 'positive':
        return T.positive_transform(rdms)
    if tname == 'minmax':
        return T.minmax_transform(rdms)
    if tname == 'geotopological':
        lo, up = par if par is not None else (0.25, 0.75)
        return T.geotopological_transform(rdms, lo, up)
    if tname == 'geodesic':
        return T.geodesic_transform(rdms)
    if tname == 'custom':
        return T.transform(rdms, _custom_fun(par or 'affine'))
    raise ValueError(tname)


# =====================================================================================================================
# specs written from the statement
# =====================================================================================================================
def _spec_ranks(vec, method):
    """ranks among the non-missing entries, by counting; missing entries stay missing"""
    out = [NAN] * len(vec)
    present = [i for i, x in enumerate(vec) if not math.isnan(x)]
    for i in present:
        x = vec[i]
        less = sum(1 for j in present if vec[j] < x)
        equal = sum(1 for j in present if vec[j] == x)
        if method == 'average':
            out[i] = less + (equal + 1) / 2.0
        elif method == 'min':
            out[i] = less + 1
        elif method == 'max':
            out[i] = less + equal
        elif method == 'dense':
            out[i] = len(set(vec[j] for j in present if vec[j] < x)) + 1
        elif method == 'ordinal':
            out[i] = less + sum(1 for j in present if j < i and vec[j] == x) + 1
        else:
            raise ValueError(method)
    return out


def _spec_measure(tname, m):
    """the documented measure-name table"""
    unk = 'unknown measure' if m is None else m
    if tname == 'rank':
        if m is None:
            return '(ranks)'
        return m if '(ranks)' in m else m + ' (ranks)'
    if tname == 'sqrt':
        if m == 'squared euclidean':
            return 'euclidean'
        if m == 'squared mahalanobis':
            return 'mahalanobis'
        return 'sqrt of ' + unk
    if tname == 'custom':
        return 'transformed ' + unk
    if tname == 'minmax':
        return 'minmax transformed ' + unk
    if tname == 'geotopological':
        return 'geo-topological transformed ' + unk
    if tname == 'geodesic':
        return 'geodesic transformed ' + unk
    raise ValueError(tname)


def _squash(s):
    return None if s is None else ''.join(str(s).split())


def _same_value(a, b):
    if isinstance(a, np.ndarray) or isinstance(b, np.ndarray):
        a, b = np.asarray(a), np.asarray(b)
        return a.shape == b.shape and bool(np.all(a == b))
    if isinstance(a, dict) or isinstance(b, dict):
        return isinstance(a, dict) and isinstance(b, dict) and set(a) == set(b) and all(_same_value(a[k], b[k]) for k in a)
    if isinstance(a, (list, tuple)) or isinstance(b, (list, tuple)):
        return (isinstance(a, (list, tuple)) and isinstance(b, (list, tuple)) and len(a) == len(b)
                and all(_same_value(x, y) for x, y in zip(a, b)))
    if isinstance(a, (str, bytes)) != isinstance(b, (str, bytes)):
        return False
    return bool(a == b)


def _same_desc(got, want, per_item):
    """descriptor dicts agree: same keys, same values in the same order (list- and array-typed alike)"""
    if not isinstance(got, dict):
        return f'is a {type(got).__name__}, not a dict'
    if set(got) != set(want):
        return f'keys {sorted(got)} instead of {sorted(want)}'
    for k in want:
        g, w = got[k], want[k]
        if per_item:
            try:
                gl, wl = list(g), list(w)
            except TypeError:
                return f'{k!r}: {g!r} instead of {w!r}'
            if len(gl) != len(wl) or not all(_same_value(x, y) for x, y in zip(gl, wl)):
                return f'{k!r}: {gl!r} instead of {wl!r}'
        elif not _same_value(g, w):
            return f'{k!r}: {g!r} instead of {w!r}'
    return None


def _check_meta(out, tname, measure, kind, n_rdm, n_cond):
    """returned object is an RDMs of the same shape with the source's descriptors and the documented measure name"""
    from rsatoolbox.rdm import RDMs
    if not isinstance(out, RDMs):
        return f'{tname}: returned {type(out).__name__}, not RDMs'
    if out.n_rdm != n_rdm or out.n_cond != n_cond:
        return f'{tname}: result has n_rdm={out.n_rdm}, n_cond={out.n_cond} instead of {n_rdm}, {n_cond}'
    vec = np.asarray(out.get_vectors())
    if vec.shape != (n_rdm, _n_pairs(n_cond)):
        return f'{tname}: result vectors have shape {vec.shape} instead of {(n_rdm, _n_pairs(n_cond))}'
    d, r, p = _expected_desc(kind, n_rdm, n_cond)
    for name, got, want, per_item in (('descriptors', out.descriptors, d, False),
                                      ('rdm_descriptors', out.rdm_descriptors, r, True),
                                      ('pattern_descriptors', out.pattern_descriptors, p, True)):
        msg = _same_desc(got, want, per_item)
        if msg:
            return f'{tname}: {name} not the source\'s ({kind}): {msg}'
    got = out.dissimilarity_measure
    if tname == 'positive':
        # statement: "an updated measure name"; whether it IS updated is judged by C17/measure-updated.  Here: whatever
        # the name is, it still has to name the source measure.
        if measure is not None and (not isinstance(got, str) or measure not in got):
            return f'positive: measure name {got!r} does not name the source measure {measure!r}'
    else:
        want = _spec_measure(tname, measure)
        if not isinstance(got, str) or _squash(got) != _squash(want):
            return f'{tname}: measure name {got!r} instead of {want!r} (source name {measure!r})'
    return None


def _vec_diff(got, want, tol=1e-12, rel=False):
    """None if equal (NaN and +-inf positions identical, finite entries within tol relative to max(1,|want|); rel=True:
    relative to |want| itself, for data in extreme units), else text"""
    got = np.asarray(got, dtype=float)
    want = np.asarray(want, dtype=float)
    if got.shape != want.shape:
        return f'shape {got.shape} instead of {want.shape}'
    for idx in np.ndindex(want.shape):
        g, w = float(got[idx]), float(want[idx])
        if math.isnan(w) or math.isnan(g):
            ok = math.isnan(w) and math.isnan(g)
        elif math.isinf(w) or math.isinf(g):
            ok = g == w
        else:
            ok = abs(g - w) <= tol * (abs(w) if rel else max(1.0, abs(w)))
        if not ok:
            return f'entry {list(idx)}: got {g!r}, expected {w!r}'
    return None


def _fresh_vectors(vectors):
    return np.array(vectors, dtype=float).copy()


# =====================================================================================================================
# value oracles of the transforms
# =====================================================================================================================
@oracle('C17/rank')
def orc_rank(case):
    """case: n_cond, rows (levels, None = missing), method (None = default argument), measure, desc; optional scale, shift
    (unit of the values), dtype (of the dissimilarities handed over)"""
    vectors = _units(_rows_to_vectors(case['rows'], case.get('dtype')), case)
    n_rdm, n_cond = vectors.shape[0], case['n_cond']
    method = case.get('method')
    out = _apply('rank', _mk(vectors, case.get('measure'), case.get('desc', 'none'), case.get('dtype')), method)
    msg = _check_meta(out, 'rank', case.get('measure'), case.get('desc', 'none'), n_rdm, n_cond)
    if msg:
        return msg
    got = np.asarray(out.get_vectors(), dtype=float)
    for r in range(n_rdm):
        want = _spec_ranks([float(x) for x in vectors[r]], method or 'average')
        d = _vec_diff(got[r], want, 0.0)
        if d:
            return (f'rank_transform(method={method!r}) rdm {r}: input {vectors[r].tolist()} -> {got[r].tolist()}, '
                    f'expected ranks among its own non-missing entries {want} ({d})')
    return None


@oracle('C17/elementwise')
def orc_elementwise(case):
    """case: which in (sqrt, positive), n_cond, rows, measure, desc; optional scale, shift, dtype"""
    which = case['which']
    vectors = _units(_rows_to_vectors(case['rows'], case.get('dtype')), case)
    n_rdm, n_cond = vectors.shape[0], case['n_cond']
    out = _apply(which, _mk(vectors, case.get('measure'), case.get('desc', 'none'), case.get('dtype')))
    msg = _check_meta(out, which, case.get('measure'), case.get('desc', 'none'), n_rdm, n_cond)
    if msg:
        return msg
    got = np.asarray(out.get_vectors(), dtype=float)
    want = np.empty_like(vectors)
    for idx in np.ndindex(vectors.shape):
        x = float(vectors[idx])
        if math.isnan(x):
            want[idx] = NAN
        elif which == 'sqrt':
            want[idx] = math.sqrt(max(x, 0.0))
        else:
            want[idx] = max(x, 0.0)
    swept = 'scale' in case or 'shift' in case or 'dtype' in case      # extreme units: relative to the value itself
    d = _vec_diff(got, want, _tol(case.get('dtype'), 1e-15) if which == 'sqrt' else 1e-15, rel=swept)
    if d:
        return (f'{which}_transform of {vectors.tolist()}' + (f' (handed over as {case["dtype"]})' if case.get('dtype') else '')
                + f': {d} ({"sqrt(max(x,0))" if which == "sqrt" else "max(x,0)"})')
    return None


@oracle('C17/minmax')
def orc_minmax(case):
    """case: n_cond, rows (no missing, each with >= 2 levels) or seed/n_rdm for random values, measure, desc; optional
    scale, shift, dtype"""
    if 'rows' in case:
        vectors = _rows_to_vectors(case['rows'], case.get('dtype'))
    else:
        rs = np.random.RandomState(case['seed'])
        vectors = rs.randn(case['n_rdm'], _n_pairs(case['n_cond'])) * rs.uniform(0.01, 100, (case['n_rdm'], 1)) \
            + rs.uniform(-50, 50, (case['n_rdm'], 1))
        if case.get('ties'):
            vectors = np.round(vectors, 0)
            vectors[:, 0] = vectors.min(axis=1) - 1.0      # never constant
    vectors = _units(vectors, case)
    n_rdm, n_cond = vectors.shape[0], case['n_cond']
    for r in range(n_rdm):
        if len(set(vectors[r].tolist())) < 2:
            return 'CASE INVALID: constant RDM'
    out = _apply('minmax', _mk(vectors, case.get('measure'), case.get('desc', 'none'), case.get('dtype')))
    msg = _check_meta(out, 'minmax', case.get('measure'), case.get('desc', 'none'), n_rdm, n_cond)
    if msg:
        return msg
    got = np.asarray(out.get_vectors(), dtype=float)
    for r in range(n_rdm):
        x = [float(t) for t in vectors[r]]
        g = [float(t) for t in got[r]]
        lo, hi = min(x), max(x)
        for k in range(len(x)):
            if x[k] == lo and g[k] != 0.0:
                return f'minmax rdm {r}: minimum {lo} mapped to {g[k]!r}, not 0'
            if x[k] == hi and g[k] != 1.0:
                return f'minmax rdm {r}: maximum {hi} mapped to {g[k]!r}, not 1'
            if not 0.0 <= g[k] <= 1.0:
                return f'minmax rdm {r}: {x[k]} mapped to {g[k]!r} outside [0,1]'
            want = (x[k] - lo) / (hi - lo)
            if abs(g[k] - want) > _tol(case.get('dtype'), 1e-12):
                return f'minmax rdm {r}: {x[k]} mapped to {g[k]!r}, expected (x-min)/(max-min) = {want!r} with its own min {lo}, max {hi}'
        for a in range(len(x)):          # increasing: the weak order of the entries is kept
            for b in range(len(x)):
                if (x[a] < x[b]) and not (g[a] <= g[b]):
                    return f'minmax rdm {r}: order reversed, {x[a]} < {x[b]} but images {g[a]} > {g[b]}'
                if x[a] == x[b] and g[a] != g[b]:
                    return f'minmax rdm {r}: equal entries {x[a]} mapped to different values {g[a]}, {g[b]}'
    return None


def _geotop_vectors(case):
    rs = np.random.RandomState(case['seed'])
    shape = (case['n_rdm'], _n_pairs(case['n_cond']))
    kind = case['kind']
    if kind == 'values>=1':
        v = rs.uniform(1.0, 50.0, shape)
    elif kind == 'nonneg-below-1':
        v = rs.uniform(0.0, 1.0, shape)
    elif kind == 'has-negatives':
        v = rs.uniform(-2.0, 3.0, shape)
        v[0, 0] = -1.9
    else:
        raise ValueError(kind)
    if case.get('ties'):
        step = 2.0 if kind == 'values>=1' else 0.125
        v = np.round(v / step) * step
        if kind == 'values>=1':
            v = np.maximum(v, 1.0)
    return _units(v, case)


def _quantile_arg(q, qtype):
    """the quantile as the caller may hand it over: python float (default), python int (0 / 1 only), numpy scalars, 0-d array"""
    if qtype in (None, 'float'):
        return q
    if qtype == 'int':
        if q not in (0, 1):
            raise CaseInvalid('int quantile other than 0 / 1')
        return int(q)
    if qtype == 'np.float64':
        return np.float64(q)
    if qtype == 'np.float32':
        if float(np.float32(q)) != q:
            raise CaseInvalid('quantile not representable in float32')
        return np.float32(q)
    if qtype == 'array0d':
        return np.array(q)
    raise ValueError(qtype)


def geotop_valid(case):
    """precondition of the clause: the two thresholds differ"""
    v = _geotop_vectors(case)
    return float(np.quantile(v, case['low'])) < float(np.quantile(v, case['up']))


@oracle('C17/geotopological')
def orc_geotopological(case):
    """case: seed, n_rdm, n_cond, kind, ties, low, up, measure, desc; optional scale, shift, dtype, qtype (how the two
    quantiles are handed over: float / int / np.float64 / np.float32 / array0d)"""
    vectors = _geotop_vectors(case)
    n_rdm, n_cond = vectors.shape[0], case['n_cond']
    low, up = case['low'], case['up']
    lo = float(np.quantile(vectors, low))
    hi = float(np.quantile(vectors, up))
    if not lo < hi:
        return 'CASE INVALID: equal thresholds'
    out = _apply('geotopological', _mk(vectors, case.get('measure'), case.get('desc', 'none'), case.get('dtype')),
                 (_quantile_arg(low, case.get('qtype')), _quantile_arg(up, case.get('qtype'))))
    msg = _check_meta(out, 'geotopological', case.get('measure'), case.get('desc', 'none'), n_rdm, n_cond)
    if msg:
        return msg
    got = np.asarray(out.get_vectors(), dtype=float)
    tol = 1e-12
    if case.get('dtype') == 'float32':   # thresholds and differences in single precision: 6e-8 relative to the values
        tol = 1e-6 + 4 * 6e-8 * float(np.max(np.abs(vectors))) / (hi - lo)
    for idx in np.ndindex(vectors.shape):
        x = float(vectors[idx])
        want = 0.0 if x < lo else (1.0 if x > hi else (x - lo) / (hi - lo))
        g = float(got[idx])
        if not abs(g - want) <= tol:
            return (f'geotopological_transform(low={low}, up={up}): thresholds l={lo!r}, u={hi!r}; entry {list(idx)} = {x!r} '
                    f'mapped to {g!r}, expected {want!r} (0 below l, 1 above u, (x-l)/(u-l) between)')
    return None


def _spec_geodesic(x, n_cond, drop_zero_edges):
    """shortest-path lengths (Floyd-Warshall, literal loops) in the graph on the conditions whose edge weights are the
    min-max normalised dissimilarities, without the maximal edges (and, for the guard oracle, without the minimal ones)"""
    lo, hi = min(x), max(x)
    D = [[0.0 if i == j else INF for j in range(n_cond)] for i in range(n_cond)]
    k = 0
    for i in range(n_cond):
        for j in range(i + 1, n_cond):
            if x[k] != hi and not (drop_zero_edges and x[k] == lo):
                D[i][j] = D[j][i] = (x[k] - lo) / (hi - lo)
            k += 1
    for m in range(n_cond):
        for i in range(n_cond):
            for j in range(n_cond):
                if D[i][m] + D[m][j] < D[i][j]:
                    D[i][j] = D[i][m] + D[m][j]
    return [D[i][j] for i in range(n_cond) for j in range(i + 1, n_cond)]


def _geodesic_vectors(case):
    if 'rows' in case:
        return _units(_rows_to_vectors(case['rows'], case.get('dtype')), case)
    rs = np.random.RandomState(case['seed'])
    v = rs.uniform(-1.0, 4.0, (case['n_rdm'], _n_pairs(case['n_cond']))) * rs.uniform(0.1, 20, (case['n_rdm'], 1))
    if case.get('ties'):
        v = np.round(v)
        v[:, 0] = v.min(axis=1) - 1.0      # never constant
    return _units(v, case)


def _geodesic(case, drop_zero_edges):
    vectors = _geodesic_vectors(case)
    n_rdm, n_cond = vectors.shape[0], case['n_cond']
    for r in range(n_rdm):
        if len(set(vectors[r].tolist())) < 2:
            return 'CASE INVALID: constant RDM'
    out = _apply('geodesic', _mk(vectors, case.get('measure'), case.get('desc', 'none'), case.get('dtype')))
    msg = _check_meta(out, 'geodesic', case.get('measure'), case.get('desc', 'none'), n_rdm, n_cond)
    if msg:
        return msg
    got = np.asarray(out.get_vectors(), dtype=float)
    for r in range(n_rdm):
        want = _spec_geodesic([float(t) for t in vectors[r]], n_cond, drop_zero_edges)
        d = _vec_diff(got[r], want, _tol(case.get('dtype'), 1e-12) * (n_cond if case.get('dtype') else 1))
        if d:
            what = ('graph without maximal and without zero-weight edges' if drop_zero_edges
                    else 'min-max graph without its maximal edges')
            return (f'geodesic_transform rdm {r} ({n_cond} conditions) input {vectors[r].tolist()}: got {got[r].tolist()}, '
                    f'expected shortest paths in the {what} {want} ({d})')
    return None


@oracle('C17/geodesic')
def orc_geodesic(case):
    """the clause as stated: all non-maximal edges of the min-max graph are present (also the one of weight 0)"""
    return _geodesic(case, False)


@oracle('C17/geodesic-nonzero-edges')
def orc_geodesic_guard(case):
    """NOT the property: regression guard that pins everything about geodesic_transform except the known loss of the
    zero-weight (minimal) edges -- shortest paths in the graph without maximal AND without minimal edges.  It exists so
    that other breakages of geodesic_transform stay visible while finding F3 is open; to be dropped when F3 is repaired."""
    return _geodesic(case, True)


@oracle('C17/custom')
def orc_custom(case):
    """case: seed, n_rdm, n_cond, fun, measure, desc, nan; optional scale, shift, dtype"""
    T = _T()
    rs = np.random.RandomState(case['seed'])
    n_rdm, n_cond = case['n_rdm'], case['n_cond']
    vectors = np.round(rs.uniform(-3, 3, (n_rdm, _n_pairs(n_cond))), 1)
    if case.get('nan'):
        vectors[0, 1 % vectors.shape[1]] = NAN
    vectors = _units(vectors, case)
    base = _custom_fun(case['fun'])
    seen = []

    def fun(v):
        seen.append(np.array(v, dtype=float).copy())
        return base(v)
    out = T.transform(_mk(vectors, case.get('measure'), case.get('desc', 'none'), case.get('dtype')), fun)
    msg = _check_meta(out, 'custom', case.get('measure'), case.get('desc', 'none'), n_rdm, n_cond)
    if msg:
        return msg
    if len(seen) != 1:
        return f'transform called the function {len(seen)} times, expected once on the vector array'
    d = _vec_diff(seen[0], vectors, 0.0)
    if d:
        return f'transform handed the function something else than the {n_rdm} x {_n_pairs(n_cond)} vectors: {d}'
    # typed sweep: the function applied to the typed array; whether the library hands the function the typed array or the same
    # values in a wider type is left open (the domain only has functions for which that matters at most in single precision)
    want = base(_fresh_vectors(vectors) if not case.get('dtype') else _fresh_vectors(vectors).astype(case['dtype']))
    d = _vec_diff(out.get_vectors(), want, _tol(case.get('dtype'), 0.0))
    if d:
        return f'transform(rdms, {case["fun"]}): result is not fun(vectors): {d}'
    return None


def _generic_vectors(n_rdm, n_cond, seed):
    """non-constant, tie-containing, partly negative vectors on which all 7 transforms are defined"""
    rs = np.random.RandomState(seed)
    v = np.round(rs.uniform(-2, 6, (n_rdm, _n_pairs(n_cond))) * 2) / 2
    v[:, 0] = -2.5
    v[:, 1] = 6.5
    return v


@oracle('C17/descriptors-measure')
def orc_meta(case):
    """case: transform, measure, desc, n_rdm, n_cond -- descriptors and measure-name table only"""
    n_rdm, n_cond = case['n_rdm'], case['n_cond']
    vectors = _generic_vectors(n_rdm, n_cond, case.get('seed', 0))
    par = case.get('par')
    if isinstance(par, list):
        par = tuple(par)
    out = _apply(case['transform'], _mk(vectors, case['measure'], case['desc']), par)
    return _check_meta(out, case['transform'], case['measure'], case['desc'], n_rdm, n_cond)


@oracle('C17/measure-updated')
def orc_measure_updated(case):
    """statement: every transform returns RDMs with 'an updated measure name'.  A name counts as updated when it differs
    from the source's, or (rank only) already carries the mark of the transform ('(ranks)': marking is idempotent)."""
    n_rdm, n_cond = case['n_rdm'], case['n_cond']
    vectors = _generic_vectors(n_rdm, n_cond, 1)
    tname, measure = case['transform'], case['measure']
    out = _apply(tname, _mk(vectors, measure, 'none'))
    got = out.dissimilarity_measure
    if tname == 'rank' and isinstance(got, str) and '(ranks)' in got:
        return None
    if got == measure:
        return f'{tname}: measure name of the result is {got!r}, the same as the source\'s -- not updated'
    if not isinstance(got, str) or not got.strip():
        return f'{tname}: measure name of the result is {got!r}'
    return None


def _spec_transform(tname, par, vectors, n_cond):
    """what the statement says the transform of these (complete, non-constant) vectors is, by the literal specs above"""
    v = np.array(vectors, dtype=float)
    out = np.empty_like(v)
    if tname == 'rank':
        for r in range(v.shape[0]):
            out[r] = _spec_ranks([float(t) for t in v[r]], par or 'average')
    elif tname in ('sqrt', 'positive'):
        for idx in np.ndindex(v.shape):
            x = max(float(v[idx]), 0.0)
            out[idx] = math.sqrt(x) if tname == 'sqrt' else x
    elif tname == 'minmax':
        for r in range(v.shape[0]):
            lo, hi = min(v[r].tolist()), max(v[r].tolist())
            out[r] = [(float(t) - lo) / (hi - lo) for t in v[r]]
    elif tname == 'geotopological':
        low, up = par if par is not None else (0.25, 0.75)
        lo, hi = float(np.quantile(v, low)), float(np.quantile(v, up))
        for idx in np.ndindex(v.shape):
            x = float(v[idx])
            out[idx] = 0.0 if x < lo else (1.0 if x > hi else (x - lo) / (hi - lo))
    elif tname == 'geodesic':
        for r in range(v.shape[0]):
            out[r] = _spec_geodesic([float(t) for t in v[r]], n_cond, False)
    elif tname == 'custom':
        out = _custom_fun(par or 'affine')(v.copy())
    else:
        raise ValueError(tname)
    return out


@oracle('C17/call-sequence')
def orc_call_sequence(case):
    """a transform is a function of the RDMs it is given.  case: transform, par, seed, n_rdm, n_cond, measure, desc.
    Sequence: R1 = t(A); t(B) with B of the same shape, measure and descriptors but other dissimilarities; R2 = t(A again, a
    fresh equal object).  R1 as held by the caller must not change through the later calls (values, descriptors, measure
    name), R2 must equal R1 exactly, and all three must be what the statement says (so a result remembered per shape /
    per descriptors and handed out again is seen on B)."""
    tname, n_rdm, n_cond = case['transform'], case['n_rdm'], case['n_cond']
    par = case.get('par')
    if isinstance(par, list):
        par = tuple(par)
    measure, kind = case.get('measure'), case.get('desc', 'none')
    va = _generic_vectors(n_rdm, n_cond, case['seed'])
    vb = _generic_vectors(n_rdm, n_cond, case['seed'] + 1000)[:, ::-1].copy()
    vb[:, 0], vb[:, 1] = -2.5, 6.5
    if np.array_equal(va, vb):
        return 'CASE INVALID: the two contents are equal'
    r1 = _apply(tname, _mk(va, measure, kind), par)
    held = np.array(r1.get_vectors(), dtype=float).copy()
    rb = _apply(tname, _mk(vb, measure, kind), par)
    r2 = _apply(tname, _mk(va, measure, kind), par)
    d = _vec_diff(r1.get_vectors(), held, 0.0)
    if d:
        return f'{tname}: the result held by the caller changed when the transform was called again on other / equal RDMs: {d}'
    for nm, obj in (('first result, after the later calls', r1), ('result for the other content', rb), ('second result', r2)):
        msg = _check_meta(obj, tname, measure, kind, n_rdm, n_cond)
        if msg:
            return f'{nm}: {msg}'
    d = _vec_diff(r2.get_vectors(), held, 0.0)
    if d:
        return f'{tname}: the same call on equal RDMs gave a different result the second time: {d}'
    for nm, obj, v in (('first call', r1, va), ('call on other dissimilarities of the same shape', rb, vb)):
        d = _vec_diff(obj.get_vectors(), _spec_transform(tname, par, v, n_cond), 1e-12)
        if d:
            return f'{tname}, {nm}: input {v.tolist()} -> {np.asarray(obj.get_vectors()).tolist()}: {d}'
    return None


# =====================================================================================================================
# invariance of the measures
# =====================================================================================================================
def _pair_counts(x, y):
    n = len(x)
    con = dis = tx = ty = 0
    for i in range(n):
        for j in range(i + 1, n):
            dx = (x[i] > x[j]) - (x[i] < x[j])
            dy = (y[i] > y[j]) - (y[i] < y[j])
            if dx == 0:
                tx += 1
            if dy == 0:
                ty += 1
            if dx * dy > 0:
                con += 1
            elif dx * dy < 0:
                dis += 1
    return con, dis, tx, ty, n * (n - 1) // 2


def _spec_sim(method, x, y):
    """similarity of two complete vectors from the definitions"""
    n = len(x)
    if method in ('tau-a', 'tau-b', 'kendall'):
        con, dis, tx, ty, tot = _pair_counts(x, y)
        if method == 'tau-a':
            return (con - dis) / tot
        den = math.sqrt((tot - tx) * (tot - ty))
        return NAN if den == 0 else (con - dis) / den
    rx = _spec_ranks(x, 'average')
    ry = _spec_ranks(y, 'average')
    if method == 'rho-a':
        return 12.0 * sum(a * b for a, b in zip(rx, ry)) / (n ** 3 - n) - 3.0 * (n + 1) / (n - 1)
    if method == 'spearman':
        mx, my = sum(rx) / n, sum(ry) / n
        sxy = sum((a - mx) * (b - my) for a, b in zip(rx, ry))
        sxx = sum((a - mx) ** 2 for a in rx)
        syy = sum((b - my) ** 2 for b in ry)
        return sxy / math.sqrt(sxx * syy)
    raise ValueError(method)


def _monotone(name, v, dtype=None):
    """a strictly increasing map applied to a vector array; 'lib:*' = a library transform -> returns an RDMs object.
    dtype: the library transform is handed the dissimilarities in that dtype (typed sweep: only 'id' and 'lib:*' maps)"""
    T = _T()
    if dtype is not None and name != 'id' and not name.startswith('lib:'):
        raise CaseInvalid('typed data only go through library transforms')
    if name == 'id':
        return v.copy()
    if name.startswith('scale:'):
        return v * float(name[6:])
    if name.startswith('shift:'):
        return v + float(name[6:])
    if name == 'affine':
        return 0.37 * v + 11.0
    if name == 'cbrt':
        return np.cbrt(v)
    if name == 'cube':
        return v ** 3
    if name == 'exp':
        return np.exp(v)
    if name == 'arctan':
        return np.arctan(v)
    if name == 'sqrt':
        return np.sqrt(v)
    if name == 'lib:sqrt':
        return T.sqrt_transform(_mk(v, 'squared euclidean', dtype=dtype))
    if name == 'lib:positive':
        return T.positive_transform(_mk(v, 'crossnobis', dtype=dtype))
    if name == 'lib:minmax':
        return T.minmax_transform(_mk(v, dtype=dtype))
    if name == 'lib:cbrt':
        return T.transform(_mk(v, dtype=dtype), np.cbrt)
    if name == 'lib:affine':
        return T.transform(_mk(v, dtype=dtype), lambda x: 0.37 * x + 11.0)
    if name.startswith('lib:rank-'):
        return T.rank_transform(_mk(v, dtype=dtype), method=name[9:])
    raise ValueError(name)


NONNEG_ONLY = ('sqrt', 'lib:sqrt', 'lib:positive')
NO_NAN = ('lib:minmax',)


def _vec_of(obj):
    return np.asarray(obj if isinstance(obj, np.ndarray) else obj.get_vectors(), dtype=float)


def _same_weak_order(a, b):
    """b is the image of a under a strictly increasing map: same missing positions, same order, same ties"""
    for i in range(len(a)):
        if math.isnan(a[i]) != math.isnan(b[i]):
            return False
    for i in range(len(a)):
        for j in range(len(a)):
            if math.isnan(a[i]) or math.isnan(a[j]):
                continue
            if ((a[i] < a[j]) != (b[i] < b[j])) or ((a[i] == a[j]) != (b[i] == b[j])):
                return False
    return True


def _sim_data(case):
    """two stacks of vectors; kind: lattice (ties, negatives), nonneg (ties), distinct (no ties), close (distinct values
    1e-9 apart on an O(1) offset), tiny (distinct values on a 1e-13 scale); optional common missing positions"""
    rs = np.random.RandomState(case['seed'])
    n = _n_pairs(case['n_cond'])
    n1, n2 = case['n_rdm']
    kind = case['kind']

    def draw(k):
        if kind == 'lattice':
            return rs.randint(-3, 5, (k, n)) / 2.0
        if kind == 'nonneg':
            return rs.randint(0, 6, (k, n)) / 4.0
        if kind == 'distinct':
            return np.array([rs.permutation(n) for _ in range(k)]) / float(n) + 0.25
        if kind == 'close':
            return 1.0 + np.array([rs.permutation(n) for _ in range(k)]) * 1e-9
        if kind == 'tiny':
            return (np.array([rs.permutation(n) for _ in range(k)]) + 1.0) / n * 1e-13
        raise ValueError(kind)
    a, b = draw(n1), draw(n2)
    if kind in ('lattice', 'nonneg'):     # a categorical model with few levels among the second stack
        b[0] = np.floor(np.arange(n) * 3.0 / n)[rs.permutation(n)]
    for v in (a, b):                      # no constant RDM
        if kind == 'lattice':
            v[:, 0], v[:, 1] = -2.0, 2.5
        if kind == 'nonneg':
            v[:, 0], v[:, 1] = 0.0, 2.0
    k = case.get('n_nan', 0)
    if k:
        pos = rs.permutation(n)[:k]
        a[:, pos] = NAN
        b[:, pos] = NAN
    dtype = case.get('dtype')
    if dtype is not None:       # typed sweep: the same orders and ties on values the dtype can hold
        if np.dtype(dtype).kind in 'iu':
            if kind not in ('lattice', 'nonneg', 'distinct'):
                raise CaseInvalid('kind %s has no integer form' % kind)
            mult = {'lattice': 2.0, 'nonneg': 4.0, 'distinct': float(n)}[kind]
            off = {'lattice': 6.0 if np.dtype(dtype).kind == 'u' else 0.0, 'nonneg': 0.0, 'distinct': -0.25 * n}[kind]
            a, b = a * mult + off, b * mult + off
        a, b = _values(a, dtype), _values(b, dtype)
    return a, b


@oracle('C17/rank-invariance')
def orc_rank_invariance(case):
    """case: seed, n_cond, n_rdm [n1,n2], kind, n_nan, f, g (names of strictly increasing maps), method; optional dtype (the
    dissimilarities of both stacks are handed to compare / to the library transforms in that dtype)"""
    from rsatoolbox.rdm import compare
    a, b = _sim_data(case)
    method = case['method']
    dtype = case.get('dtype')
    fa, gb = _monotone(case['f'], a.copy(), dtype), _monotone(case['g'], b.copy(), dtype)
    for src, img, nm in ((a, _vec_of(fa), case['f']), (b, _vec_of(gb), case['g'])):
        for r in range(src.shape[0]):
            if not _same_weak_order([float(t) for t in src[r]], [float(t) for t in img[r]]):
                return (f'the transform {nm} is not strictly increasing on rdm {r}: {src[r].tolist()} -> {img[r].tolist()} '
                        f'(order or ties of the entries changed)')
    want = np.empty((a.shape[0], b.shape[0]))
    for i in range(a.shape[0]):
        for j in range(b.shape[0]):
            keep = [k for k in range(a.shape[1]) if not math.isnan(a[i, k])]
            want[i, j] = _spec_sim(method, [float(a[i, k]) for k in keep], [float(b[j, k]) for k in keep])
    before = compare(_mk(a, dtype=dtype), _mk(b, dtype=dtype), method=method)
    fa_obj = fa if not isinstance(fa, np.ndarray) else _mk(fa, dtype=dtype)
    gb_obj = gb if not isinstance(gb, np.ndarray) else _mk(gb, dtype=dtype)
    after = compare(fa_obj, gb_obj, method=method)
    tol = _tol(dtype, 1e-10)      # float32 / narrow integer stacks: the measures may work in single precision
    d = _vec_diff(after, before, tol)
    if d:
        return (f'{method}: value changed under strictly increasing maps f={case["f"]} (first stack), g={case["g"]} (second): '
                f'before {np.asarray(before).tolist()}, after {np.asarray(after).tolist()} ({d})')
    d = _vec_diff(before, want, tol)
    if d:
        return f'{method} of the untransformed stacks {np.asarray(before).tolist()} differs from the pair/rank-counted value {want.tolist()} ({d})'
    d = _vec_diff(after, want, tol)
    if d:
        return f'{method} after f={case["f"]}, g={case["g"]}: {np.asarray(after).tolist()} differs from the pair/rank-counted value {want.tolist()} ({d})'
    return None


def _sigma(case, n_cond):
    rs = np.random.RandomState(1000 + case['seed'])
    s = case.get('sigma', 'none')
    if s == 'none':
        return None
    if s == 'vector':
        return rs.uniform(0.5, 2.0, n_cond)
    A = rs.randn(n_cond, n_cond + 3)
    return A @ A.T / (n_cond + 3) + 0.1 * np.eye(n_cond)


@oracle('C17/scale-affine-invariance')
def orc_scale_affine(case):
    """case: seed, n_cond, n_rdm [n1,n2], method, sigma (none/vector/matrix), a1, b1, a2, b2, via (array / lib), n_nan.
    cosine-type: x -> a*x (b must be 0); correlation-type: x -> a*x + b; a > 0.  Optional dtype: both stacks are handed over in
    that dtype (integer dtypes: integer values in -10..40 / 0..50, and with via = array the maps must keep them integers in range)"""
    T = _T()
    from rsatoolbox.rdm import compare
    rs = np.random.RandomState(case['seed'])
    n_cond = case['n_cond']
    n = _n_pairs(n_cond)
    n1, n2 = case['n_rdm']
    method = case['method']
    a = np.round(rs.uniform(-1, 4, (n1, n)), 2)
    b = np.round(rs.uniform(-1, 4, (n2, n)), 2)
    if case.get('ties'):
        a, b = np.round(a), np.round(b)
        a[:, 0], a[:, 1], b[:, 0], b[:, 1] = -1.0, 4.0, 4.0, -1.0
    k = case.get('n_nan', 0)
    if k:
        pos = rs.permutation(n)[:k]
        a[:, pos] = NAN
        b[:, pos] = NAN
    dtype = case.get('dtype')
    if dtype is not None:
        if np.dtype(dtype).kind in 'iu':
            off = 1.0 if np.dtype(dtype).kind == 'u' else 0.0
            a, b = (a + off) * 10.0, (b + off) * 10.0
        a, b = _values(a, dtype), _values(b, dtype)
    a1, b1, a2, b2 = case['a1'], case['b1'], case['a2'], case['b2']
    if not (a1 > 0 and a2 > 0):
        return 'CASE INVALID: scaling must be positive'
    if method.startswith('cosine') and (b1 != 0 or b2 != 0):
        return 'CASE INVALID: cosine-type measures are only claimed invariant under scaling'
    sigma = _sigma(case, n_cond)
    kw = {} if not method.endswith('_cov') else dict(sigma_k=sigma)
    before = compare(_mk(a, dtype=dtype), _mk(b, dtype=dtype), method=method, **kw)
    if case.get('via') == 'lib':
        ta = T.transform(_mk(a, 'crossnobis', 'lists', dtype=dtype), lambda v: a1 * v + b1)
        tb = T.transform(_mk(b, None, 'arrays', dtype=dtype), lambda v: a2 * v + b2)
    else:
        if dtype is not None:    # the images have to be representable as well
            for img in (a1 * a + b1, a2 * b + b2):
                if not np.array_equal(_values(img, dtype), img):
                    return 'CASE INVALID: image of the map not representable in ' + dtype
        ta, tb = _mk(a1 * a + b1, dtype=dtype), _mk(a2 * b + b2, dtype=dtype)
    after = compare(ta, tb, method=method, **kw)
    tol = 1e-5 if case.get('sigma') in ('matrix', 'vector') else 1e-9   # a given sigma_k goes through the conjugate-gradient solve
    tol = max(tol, _tol(dtype, 0.0))
    d = _vec_diff(after, before, tol)
    if d:
        return (f'{method} (sigma_k {case.get("sigma", "none")}): value changed under x -> {a1}*x+{b1} (first stack), '
                f'x -> {a2}*x+{b2} (second): before {np.asarray(before).tolist()}, after {np.asarray(after).tolist()} ({d})')
    if method in ('cosine', 'corr'):
        want = np.empty((n1, n2))
        for i in range(n1):
            for j in range(n2):
                keep = [q for q in range(n) if not math.isnan(a[i, q])]
                x = np.array([a[i, q] for q in keep])
                y = np.array([b[j, q] for q in keep])
                if method == 'corr':
                    x, y = x - x.sum() / len(x), y - y.sum() / len(y)
                want[i, j] = float(np.dot(x, y)) / math.sqrt(float(np.dot(x, x)) * float(np.dot(y, y)))
        for nm, val in (('before', before), ('after', after)):
            d = _vec_diff(val, want, _tol(dtype, 1e-9))
            if d:
                return f'{method} {nm} the maps {np.asarray(val).tolist()} differs from the textbook value {want.tolist()} ({d})'
    return None


@oracle('C17/evaluation')
def orc_evaluation(case):
    """a rank-based evaluation (inference.eval_fixed of fixed models) does not change when the data RDMs and / or the model
    RDMs go through a strictly increasing library transform; case: seed, n_cond, n_rdm, kind, method, f (data), g (models);
    optional dtype (data and model RDMs handed over in that dtype)"""
    import warnings
    from rsatoolbox.model import ModelFixed
    from rsatoolbox.inference import eval_fixed
    sub = dict(case)
    sub['n_rdm'] = [case['n_rdm'], 2]
    data, mods = _sim_data(sub)
    method = case['method']

    dtype = case.get('dtype')

    def run(dv, mv, typed_models):
        d_obj = dv if not isinstance(dv, np.ndarray) else _mk(dv, dtype=dtype)
        mv = _vec_of(mv)
        models = [ModelFixed('m%d' % i, _mk(mv[i:i + 1], dtype=dtype if typed_models else None)) for i in range(mv.shape[0])]
        with warnings.catch_warnings():
            warnings.simplefilter('ignore')
            return np.asarray(eval_fixed(models, d_obj, method=method).evaluations, dtype=float)
    before = run(data.copy(), mods.copy(), True)
    after = run(_monotone(case['f'], data.copy(), dtype), _monotone(case['g'], mods.copy(), dtype), case['g'] == 'id')
    want = np.empty((1, mods.shape[0], data.shape[0]))
    for m in range(mods.shape[0]):
        for r in range(data.shape[0]):
            want[0, m, r] = _spec_sim(method, [float(t) for t in mods[m]], [float(t) for t in data[r]])
    d = _vec_diff(after, before, _tol(dtype, 1e-10))
    if d:
        return (f'eval_fixed(method={method}): evaluations changed when data went through {case["f"]} and models through '
                f'{case["g"]}: before {before.tolist()}, after {after.tolist()} ({d})')
    d = _vec_diff(after, want, _tol(dtype, 1e-10))
    if d:
        return f'eval_fixed(method={method}) after the transforms {after.tolist()} differs from the pair/rank-counted {want.tolist()} ({d})'
    return None


def _spec_any(method, x, y):
    """rank-based measures by counting, cosine / corr by np.dot on complete vectors"""
    if method in RANK_SIMS:
        return _spec_sim(method, x, y)
    x, y = np.array(x, dtype=float), np.array(y, dtype=float)
    if method == 'corr':
        x, y = x - x.sum() / len(x), y - y.sum() / len(y)
    return float(np.dot(x, y)) / math.sqrt(float(np.dot(x, x)) * float(np.dot(y, y)))


@oracle('C17/compare-call-sequence')
def orc_compare_sequence(case):
    """the measures are functions of the two stacks.  case: method, seed, n_cond, n_rdm [n1,n2], kind.  S1 = compare(A, B);
    compare(A', B') with stacks of the same shape but other content; S2 = compare(A, B) on fresh equal objects: S1 as held by the
    caller is unchanged, S2 == S1 exactly, and S1 and the value for (A', B') are the counted / textbook values."""
    from rsatoolbox.rdm import compare
    method = case['method']
    a, b = _sim_data(case)
    other = dict(case)
    other['seed'] = case['seed'] + 500
    a2, b2 = _sim_data(other)
    if np.array_equal(a, a2) or np.array_equal(b, b2):
        return 'CASE INVALID: the two contents are equal'
    s1 = compare(_mk(a), _mk(b), method=method)
    held = np.array(s1, dtype=float).copy()
    smid = compare(_mk(a2), _mk(b2), method=method)
    s2 = compare(_mk(a), _mk(b), method=method)
    d = _vec_diff(s1, held, 0.0)
    if d:
        return f'{method}: the similarity matrix held by the caller changed when compare was called again: {d}'
    d = _vec_diff(s2, held, 0.0)
    if d:
        return f'{method}: the same comparison gave a different result the second time: {d}'
    for nm, val, (x, y) in (('first call', s1, (a, b)), ('call on other stacks of the same shape', smid, (a2, b2))):
        want = np.empty((x.shape[0], y.shape[0]))
        for i in range(x.shape[0]):
            for j in range(y.shape[0]):
                want[i, j] = _spec_any(method, [float(t) for t in x[i]], [float(t) for t in y[j]])
        d = _vec_diff(val, want, 1e-10)
        if d:
            return f'{method}, {nm}: {np.asarray(val).tolist()} instead of the counted / textbook value {want.tolist()} ({d})'
    return None


# =====================================================================================================================
# C17/hashseed: the clauses in a new interpreter with another PYTHONHASHSEED
# =====================================================================================================================
_CHILD = r"""
import json, sys, warnings
warnings.simplefilter('ignore')
import contracts.C17_c  # noqa: registers the oracles
from vf.rt.harness import ORACLES
out = []
for name, case in json.load(sys.stdin):
    try:
        r = ORACLES[name](case)
    except Exception as e:
        r = 'exception %s: %s' % (type(e).__name__, e)
    out.append(r)
print('C17-CHILD-RESULT ' + json.dumps(out))
"""


@oracle('C17/hashseed')
def orc_hashseed(case):
    """runs the oracles of case['batch'] = [[oracle name, case], ...] in a new interpreter started with
    PYTHONHASHSEED = case['hashseed'] (same library, same sys.path); every one of them must hold there too (the expected values
    are definite numbers, so this is the statement "the result does not depend on the hash seed")"""
    import json
    import os
    import subprocess
    import sys
    env = dict(os.environ)
    env['PYTHONHASHSEED'] = str(case['hashseed'])
    env['PYTHONPATH'] = os.pathsep.join(q for q in sys.path if q)
    env['PYTHONDONTWRITEBYTECODE'] = '1'
    proc = subprocess.run([sys.executable, '-c', _CHILD], input=json.dumps(case['batch']), capture_output=True, text=True,
                          env=env, timeout=600)
    line = [ln for ln in proc.stdout.splitlines() if ln.startswith('C17-CHILD-RESULT ')]
    if proc.returncode != 0 or not line:
        return f'interpreter with PYTHONHASHSEED={case["hashseed"]} failed (exit {proc.returncode}): {proc.stderr.strip()[-400:]}'
    results = json.loads(line[-1][len('C17-CHILD-RESULT '):])
    for (name, sub), r in zip(case['batch'], results):
        if r is not None:
            return f'with PYTHONHASHSEED={case["hashseed"]}: {name} on {json.dumps(sub)[:300]}: {r}'
    return None


# =====================================================================================================================
# domains
# =====================================================================================================================
def _weak_orders(m):
    """all level vectors of length m using exactly the levels 0..k-1 (= all weak orders of m entries)"""
    out = []
    for levels in itertools.product(range(m), repeat=m):
        k = max(levels) + 1
        if len(set(levels)) == k:
            out.append(list(levels))
    return out


def _rows_with_missing(m, max_nan):
    """all weak orders of m entries of which at most max_nan (and fewer than m) are missing"""
    cache = {}
    rows = []
    for k in range(0, max_nan + 1):
        if m - k < 1:
            break
        if m - k not in cache:
            cache[m - k] = _weak_orders(m - k)
        for pos in itertools.combinations(range(m), k):
            for wo in cache[m - k]:
                it = iter(wo)
                rows.append([None if i in pos else next(it) for i in range(m)])
    return rows


def _seeded_rows(seed, n_cond, n_rdm):
    """random level rows (levels 0..5, so many ties) for n_cond conditions, each RDM missing 0-3 entries of its own"""
    rs = np.random.RandomState(seed)
    m = _n_pairs(n_cond)
    rows = []
    for _ in range(n_rdm):
        row = [int(x) for x in rs.randint(0, 6, m)]
        for pos in rs.permutation(m)[:rs.randint(0, 4)]:
            row[int(pos)] = None
        rows.append(row)
    return rows


def _stacks(rows, size, seed):
    """deterministically shuffled rows, chunked into stacks (so RDMs of one stack miss different entries)"""
    rs = np.random.RandomState(seed)
    rows = [rows[i] for i in rs.permutation(len(rows))]
    return [rows[i:i + size] for i in range(0, len(rows), size)]


def tier_c(run, thorough):
    bds = []
    rows3 = _rows_with_missing(3, 2)                       # 25 rows
    rows6 = _rows_with_missing(6, 2 if thorough else 0)    # 9054 / 4683 rows
    rows6_some_nan = [] if thorough else _stacks(_rows_with_missing(6, 2)[4683:], 1, 5)[:400]
    rows6_some_nan = [r[0] for r in rows6_some_nan]

    # ---- rank_transform ------------------------------------------------------------------------------------------
    bd = Bounded(run, 'C17/rank', 'C17/rank_transform/oracle/ranks-among-non-missing',
                 'ALL weak orders of 3 entries (<= 2 missing) and of 6 entries (%s), in stacks of 3 RDMs on different value '
                 'ranges, x 5 tie methods + default argument; plus %d seeded stacks (1-4 RDMs, 5-7 conditions, 6 levels, 0-3 missing each) x 5 '
                 'tie methods; source names / descriptor kinds rotated'
                 % ('<= 2 missing' if thorough else 'none missing; plus 400 seeded rows with 1-2 missing', 300 if thorough else 40),
                 exhaustive=True, function='rank_transform')
    i = 0
    for n_cond, rows in ((3, rows3), (4, rows6 + rows6_some_nan)):
        for st in _stacks(rows, 3, 17):
            for method in RANK_METHODS + (None,):
                if method is None and i % 7:
                    i += 1
                    continue
                i += 1
                has_nan = any(x is None for r in st for x in r)
                bd.check(orc_rank, dict(n_cond=n_cond, rows=st, method=method, measure=MEASURES[i % len(MEASURES)],
                                        desc=DESC_KINDS[i % len(DESC_KINDS)]),
                         ('with-missing' if has_nan else 'complete') + (',default-method' if method in (None, 'average') else ',tie-method'),
                         function='rank_transform')
    for seed in range(300 if thorough else 40):
        n_cond = 5 + seed % 3
        st = _seeded_rows(seed, n_cond, 1 + seed % 4)
        has_nan = any(x is None for r in st for x in r)
        for method in RANK_METHODS:
            bd.check(orc_rank, dict(n_cond=n_cond, rows=st, method=method, measure=MEASURES[seed % len(MEASURES)],
                                    desc=DESC_KINDS[seed % len(DESC_KINDS)]),
                     ('with-missing' if has_nan else 'complete') + (',default-method' if method == 'average' else ',tie-method'),
                     function='rank_transform')
    bd.done()
    bds.append(bd)

    # ---- sqrt / positive -----------------------------------------------------------------------------------------
    bd = Bounded(run, 'C17/elementwise', 'C17/sqrt_transform,positive_transform/oracle/elementwise-map',
                 'ALL weak orders of 3 entries (<= 2 missing) and of 6 entries (%s) over three palettes with negatives, zero, '
                 '1e6; stacks of 3; plus %d seeded stacks (1-4 RDMs, 5-7 conditions, 0-3 missing each); sqrt and positive'
                 % ('<= 2 missing' if thorough else 'none missing, + 400 seeded rows with missing', 300 if thorough else 40),
                 exhaustive=True, function='sqrt_transform')
    i = 0
    for n_cond, rows in ((3, rows3), (4, rows6 + rows6_some_nan)):
        for st in _stacks(rows, 3, 23):
            for which in ('sqrt', 'positive'):
                i += 1
                bd.check(orc_elementwise, dict(which=which, n_cond=n_cond, rows=st, measure=MEASURES[i % len(MEASURES)],
                                               desc=DESC_KINDS[i % len(DESC_KINDS)]),
                         which, function=which + '_transform')
    for seed in range(300 if thorough else 40):
        n_cond = 5 + seed % 3
        for which in ('sqrt', 'positive'):
            bd.check(orc_elementwise, dict(which=which, n_cond=n_cond, rows=_seeded_rows(seed, n_cond, 1 + seed % 4),
                                           measure=MEASURES[seed % len(MEASURES)], desc=DESC_KINDS[seed % len(DESC_KINDS)]),
                     which, function=which + '_transform')
    bd.done()
    bds.append(bd)

    # ---- minmax --------------------------------------------------------------------------------------------------
    bd = Bounded(run, 'C17/minmax', 'C17/minmax_transform/oracle/affine-increasing-onto-unit-interval',
                 'ALL non-constant weak orders of 3 and 6 entries (complete RDMs) in stacks of 3 on different ranges; plus '
                 '%d seeded stacks (1-4 RDMs, 3-7 conditions, scales 0.01..100, offsets +-50, with / without ties)'
                 % (200 if thorough else 60), exhaustive=True, function='minmax_transform')
    i = 0
    for n_cond, m in ((3, 3), (4, 6)):
        rows = [r for r in _weak_orders(m) if max(r) > 0]
        for st in _stacks(rows, 3, 29):
            i += 1
            bd.check(orc_minmax, dict(n_cond=n_cond, rows=st, measure=MEASURES[i % len(MEASURES)], desc=DESC_KINDS[i % len(DESC_KINDS)]),
                     'enumerated', function='minmax_transform')
    for seed in range(200 if thorough else 60):
        bd.check(orc_minmax, dict(seed=seed, n_rdm=1 + seed % 4, n_cond=3 + seed % 5, ties=bool(seed % 2),
                                  measure=MEASURES[seed % len(MEASURES)], desc=DESC_KINDS[seed % len(DESC_KINDS)]),
                 'seeded', function='minmax_transform')
    bd.done()
    bds.append(bd)

    # ---- geotopological ------------------------------------------------------------------------------------------
    qs = (0.0, 0.1, 0.25, 0.5, 0.75, 0.9, 1.0)
    bd = Bounded(run, 'C17/geotopological', 'C17/geotopological_transform/oracle/clipped-linear-between-quantiles',
                 'seeded stacks (1-3 RDMs, 4-7 conditions; %d seeds) of three kinds (all values >= 1; non-negative with values '
                 'below 1; with negative values), with / without ties, x all %d pairs low < up from %s with distinct thresholds'
                 % (6 if thorough else 2, len(qs) * (len(qs) - 1) // 2, list(qs)), function='geotopological_transform')
    i = 0
    for kind in ('values>=1', 'nonneg-below-1', 'has-negatives'):
        for seed in range(6 if thorough else 2):
            for ties in (False, True):
                for low, up in itertools.combinations(qs, 2):
                    i += 1
                    case = dict(seed=seed, n_rdm=1 + (seed + i) % 3, n_cond=4 + (seed + i) % 4, kind=kind, ties=ties,
                                low=low, up=up, measure=MEASURES[i % len(MEASURES)], desc=DESC_KINDS[i % len(DESC_KINDS)])
                    if geotop_valid(case):
                        bd.check(orc_geotopological, case, kind, function='geotopological_transform')
    bd.done()
    bds.append(bd)

    # ---- geodesic ------------------------------------------------------------------------------------------------
    bd = Bounded(run, 'C17/geodesic', 'C17/geodesic_transform/oracle/shortest-paths-without-maximal-edges',
                 'seeded stacks: 1-3 RDMs, 3-7 conditions, with / without ties, %d seeds; literal clause' % (40 if thorough else 12),
                 function='geodesic_transform')
    for seed in range(40 if thorough else 12):
        bd.check(orc_geodesic, dict(seed=seed, n_rdm=1 + seed % 3, n_cond=(4, 5, 6, 7, 3)[seed % 5], ties=bool(seed % 2),
                                    measure=MEASURES[seed % len(MEASURES)], desc=DESC_KINDS[seed % len(DESC_KINDS)]),
                 'all-inputs', function='geodesic_transform')
    bd.done()
    bds.append(bd)
    # (the regression guard C17/geodesic-nonzero-edges that pinned the behaviour modulo the lost zero-weight edges was dropped
    #  when finding F3 was repaired in /repo 460a14c7; its enumerated domain now runs under the literal clause)
    bd = Bounded(run, 'C17/geodesic-enumerated', 'C17/geodesic_transform/oracle/shortest-paths-without-maximal-edges',
                 'literal clause on ALL non-constant weak orders of 3 and 6 entries in stacks of 3; plus %d seeded stacks '
                 '(1-3 RDMs, 3-8 conditions, with / without ties)' % (150 if thorough else 40),
                 exhaustive=True, function='geodesic_transform')
    i = 0
    for n_cond, m in ((3, 3), (4, 6)):
        rows = [r for r in _weak_orders(m) if max(r) > 0]
        for st in _stacks(rows, 3, 31):
            i += 1
            bd.check(orc_geodesic, dict(n_cond=n_cond, rows=st, measure=MEASURES[i % len(MEASURES)],
                                        desc=DESC_KINDS[i % len(DESC_KINDS)]), 'enumerated', function='geodesic_transform')
    for seed in range(150 if thorough else 40):
        bd.check(orc_geodesic, dict(seed=seed, n_rdm=1 + seed % 3, n_cond=3 + seed % 6, ties=bool(seed % 2)),
                 'seeded', function='geodesic_transform')
    bd.done()
    bds.append(bd)

    # ---- custom transform ----------------------------------------------------------------------------------------
    bd = Bounded(run, 'C17/custom', 'C17/transform/oracle/applies-function-to-vectors',
                 '6 functions (incl. array-shape dependent ones) x 1-3 RDMs x 3-5 conditions x with / without a missing entry',
                 function='transform')
    i = 0
    for fun in ('cbrt', 'square', 'affine', 'neg', 'rowcenter', 'colindex'):
        for n_rdm in (1, 2, 3):
            for n_cond in (3, 4, 5):
                for nan in (False, True):
                    i += 1
                    bd.check(orc_custom, dict(seed=i, n_rdm=n_rdm, n_cond=n_cond, fun=fun, nan=nan,
                                              measure=MEASURES[i % len(MEASURES)], desc=DESC_KINDS[i % len(DESC_KINDS)]),
                             fun, function='transform')
    bd.done()
    bds.append(bd)

    # ---- descriptors and measure names ---------------------------------------------------------------------------
    bd = Bounded(run, 'C17/descriptors-measure', 'C17/rdm.transform/oracle/descriptors-and-measure-name',
                 'ALL 7 transforms x 7 source measure names (None, squared euclidean / mahalanobis, plain, already ranked, ...) x 4 '
                 'descriptor kinds (none, scalars+dict, list-typed with own index, numpy arrays) x (n_rdm, n_cond) in '
                 '{(1,3), (3,5)}; rank also with every tie method', exhaustive=True, function='rdm.transform')
    for tname in TRANSFORMS:
        pars = [None] if tname != 'rank' else [None] + list(RANK_METHODS)
        for par in pars:
            for measure in MEASURES:
                for kind in DESC_KINDS:
                    for n_rdm, n_cond in ((1, 3), (3, 5)):
                        bd.check(orc_meta, dict(transform=tname, par=par, measure=measure, desc=kind, n_rdm=n_rdm, n_cond=n_cond),
                                 tname, function=tname + '_transform' if tname != 'custom' else 'transform')
    bd.done()
    bds.append(bd)
    bd = Bounded(run, 'C17/measure-updated', 'C17/rdm.transform/oracle/measure-name-updated',
                 'ALL 7 transforms x 7 source measure names', exhaustive=True, function='rdm.transform')
    for tname in TRANSFORMS:
        for measure in MEASURES:
            bd.check(orc_measure_updated, dict(transform=tname, measure=measure, n_rdm=2, n_cond=4),
                     'positive_transform:name-kept' if tname == 'positive' else tname,
                     function=tname + '_transform' if tname != 'custom' else 'transform')
    bd.done()
    bds.append(bd)

    # ---- rank-based measures under strictly increasing maps ------------------------------------------------------
    plain = ['id', 'scale:1e-13', 'scale:3.7', 'scale:1e6', 'shift:5000', 'shift:-3', 'affine', 'cbrt', 'cube', 'exp', 'arctan',
             'lib:cbrt', 'lib:rank-average', 'lib:rank-min', 'lib:rank-max', 'lib:rank-dense', 'lib:minmax']
    maps_for = {
        'lattice': plain,
        'nonneg': plain + ['sqrt', 'lib:sqrt', 'lib:positive'],
        'distinct': plain + ['sqrt', 'lib:sqrt', 'lib:positive', 'lib:rank-ordinal'],
        # nearly equal / tiny values: only maps that keep them distinct in floating point
        'close': ['id', 'scale:1e-13', 'scale:3.7', 'scale:1e6', 'shift:-3', 'lib:rank-average', 'lib:rank-dense', 'lib:minmax',
                  'lib:rank-ordinal'],
        'tiny': ['id', 'scale:3.7', 'scale:1e6', 'cbrt', 'sqrt', 'lib:sqrt', 'lib:cbrt', 'lib:positive', 'lib:rank-min', 'lib:minmax'],
    }
    n_seed = 8 if thorough else 1
    bd = Bounded(run, 'C17/rank-invariance', 'C17/compare/oracle/rank-measures-invariant-under-increasing-maps',
                 '5 rank-based methods x 5 kinds of data (ties+negatives, non-negative ties, tie-free, values 1e-9 apart, 1e-13 scale) '
                 'x every applicable map of %d (scalings 1e-13..1e6, shifts, cbrt, cube, exp, arctan, sqrt, library sqrt / positive / '
                 'rank (5 tie methods) / minmax / transform) on the first, the second and (a rotating partner) both stacks; 0 or 2 '
                 'common missing entries; 4-6 conditions; %d seed(s)' % (len(set(sum(maps_for.values(), []))), n_seed),
                 function='compare')
    i = 0
    for kind, maps in maps_for.items():
        for method in RANK_SIMS:
            for seed in range(n_seed):
                for q, f in enumerate(maps):
                    partner = maps[(q + 3 + seed) % len(maps)]
                    for (ff, gg) in ((f, 'id'), ('id', f), (f, partner)):
                        i += 1
                        n_nan = 2 if (i % 3 == 0 and ff not in NO_NAN and gg not in NO_NAN) else 0
                        if not thorough and method == 'kendall' and (ff, gg) != (f, partner):
                            continue       # 'kendall' is an alias of 'tau-b'
                        bd.check(orc_rank_invariance,
                                 dict(seed=seed, n_cond=4 + i % 3, n_rdm=[1 + i % 2, 1 + (i // 2) % 2], kind=kind, n_nan=n_nan,
                                      f=ff, g=gg, method=method),
                                 f'{method},{kind}', function='compare')
    bd.done()
    bds.append(bd)

    # ---- cosine-type under scaling, correlation-type under affine maps -------------------------------------------
    bd = Bounded(run, 'C17/scale-affine-invariance', 'C17/compare/oracle/cosine-scaling-correlation-affine',
                 'cosine, cosine_cov (sigma_k none / vector / matrix) under x -> a*x; corr, corr_cov (same sigma_k) under x -> a*x+b; '
                 'a in {1e-3, 0.5, 1, 7, 1e3} (+ extreme units 1e-26 .. 1e12 with b = 0), b in {0, -2, 30}; arrays and transform(fun); 4-6 conditions, 1-3 RDMs per stack, '
                 'with / without ties, 0 or 2 common missing entries (not with matrix sigma_k); %d seed(s)' % (3 if thorough else 1),
                 function='compare')
    scales = (1e-3, 0.5, 1.0, 7.0, 1e3)
    shifts = (0.0, -2.0, 30.0)
    i = 0
    for seed in range(3 if thorough else 1):
        for method, sigmas in (('cosine', ('none',)), ('corr', ('none',)), ('cosine_cov', ('none', 'vector', 'matrix')),
                               ('corr_cov', ('none', 'vector', 'matrix'))):
            for sigma in sigmas:
                for a1 in scales:
                    for a2 in (scales if thorough else (1.0, 7.0, 1e-3)):
                        for b1 in (shifts if method.startswith('corr') else (0.0,)):
                            i += 1
                            b2 = 0.0 if method.startswith('cosine') else shifts[i % 3]
                            n_nan = 2 if (i % 4 == 0 and sigma != 'matrix') else 0
                            bd.check(orc_scale_affine,
                                     dict(seed=seed * 100 + i % 5, n_cond=4 + i % 3, n_rdm=[1 + i % 3, 1 + (i // 3) % 2], method=method,
                                          sigma=sigma, a1=a1, b1=b1, a2=a2, b2=b2, via='lib' if i % 2 else 'array', ties=bool(i % 5 == 0),
                                          n_nan=n_nan),
                                     f'{method},sigma_k={sigma}' + (',with-missing' if n_nan else ''), function='compare')
    # extreme physical units (e.g. squared field strengths in Tesla^2 ~ 1e-26): no absolute threshold may turn a small RDM into a zero RDM
    for j, (method, sigma) in enumerate((('cosine', 'none'), ('corr', 'none'), ('cosine_cov', 'none'), ('corr_cov', 'none'),
                                         ('cosine_cov', 'vector'), ('corr_cov', 'matrix'))):
        for a1, a2 in ((1e-18, 1.0), (1e-26, 1e-26), (1.0, 1e-20), (1e12, 1e-15)):
            bd.check(orc_scale_affine,
                     dict(seed=900 + j, n_cond=5, n_rdm=[2, 2], method=method, sigma=sigma, a1=a1, b1=0.0, a2=a2, b2=0.0,
                          via='array' if j % 2 else 'lib', ties=False, n_nan=0),
                     f'{method},sigma_k={sigma},extreme-scale', function='compare')
    bd.done()
    bds.append(bd)

    # ---- evaluations ---------------------------------------------------------------------------------------------
    bd = Bounded(run, 'C17/evaluation', 'C17/eval_fixed/oracle/rank-based-evaluation-invariant',
                 'eval_fixed with 2 fixed models, 2-3 data RDMs, 4-5 conditions; 4 rank-based methods x library transforms (sqrt, '
                 'rank average / dense, minmax, transform(cbrt)) of data and / or models; non-negative data with ties, tie-free, '
                 '1e-13 scale', function='eval_fixed')
    libs = {'nonneg': ['lib:sqrt', 'lib:rank-average', 'lib:rank-dense', 'lib:minmax', 'lib:cbrt'],
            'distinct': ['lib:sqrt', 'lib:rank-average', 'lib:minmax'],
            'tiny': ['lib:sqrt', 'lib:cbrt', 'lib:minmax']}
    i = 0
    for kind, maps in libs.items():
        for method in ('spearman', 'rho-a', 'tau-a', 'tau-b'):
            for q, f in enumerate(maps):
                for ff, gg in ((f, 'id'), ('id', f), (f, maps[(q + 1) % len(maps)])):
                    i += 1
                    bd.check(orc_evaluation, dict(seed=i % 4, n_cond=4 + i % 2, n_rdm=2 + i % 2, kind=kind, method=method, f=ff, g=gg),
                             f'{method},{kind}', function='eval_fixed')
    bd.done()
    bds.append(bd)
    bds.extend(_sweeps(run, thorough))
    return bds


# =====================================================================================================================
# dimension sweeps: typed data, units, containers, sizes, call sequences, hash seed
# =====================================================================================================================
OB_RANK = 'C17/rank_transform/oracle/ranks-among-non-missing'
OB_ELEM = 'C17/sqrt_transform,positive_transform/oracle/elementwise-map'
OB_MINMAX = 'C17/minmax_transform/oracle/affine-increasing-onto-unit-interval'
OB_GEOTOP = 'C17/geotopological_transform/oracle/clipped-linear-between-quantiles'
OB_GEOD = 'C17/geodesic_transform/oracle/shortest-paths-without-maximal-edges'
OB_CUSTOM = 'C17/transform/oracle/applies-function-to-vectors'
OB_META = 'C17/rdm.transform/oracle/descriptors-and-measure-name'
OB_RANKINV = 'C17/compare/oracle/rank-measures-invariant-under-increasing-maps'
OB_SCALE = 'C17/compare/oracle/cosine-scaling-correlation-affine'
OB_EVAL = 'C17/eval_fixed/oracle/rank-based-evaluation-invariant'
OB_SEQ = 'C17/rdm.transform/oracle/function-of-its-input-over-call-sequences'
OB_CSEQ = 'C17/compare/oracle/function-of-its-input-over-call-sequences'
OB_HASH = 'C17/rdm.transform,compare/oracle/independent-of-hash-seed'
ALL_KINDS = DESC_KINDS + DESC_KINDS_X
SCALES = (1e-26, 1e-12, 1e6, 1e12)
# legitimate units: pure scalings, and offsets that are large against the spread (in the unit of the case)
UNITS = [dict(scale=sc) for sc in SCALES] + [dict(scale=1e-20, shift=3e-18), dict(scale=1.0, shift=1e9), dict(scale=1e8, shift=-4e11)]


def _utag(u):
    return 'unit:x%g%+g' % (u.get('scale', 1.0), u.get('shift', 0.0))


def _sweeps(run, thorough):
    bds = []
    rows3 = _rows_with_missing(3, 2)
    wo6 = _weak_orders(6)
    nc3 = [r for r in _weak_orders(3) if max(r) > 0]
    nc6 = [r for r in wo6 if max(r) > 0]
    k_enum = 60 if thorough else 10          # enumerated stacks (of 3 RDMs) per dtype / unit
    n_big = 8 if thorough else 2

    # ---- rank_transform ------------------------------------------------------------------------------------------
    bd = Bounded(run, 'C17/rank-sweeps', OB_RANK,
                 'typed: %d stacks of 3 complete RDMs (weak orders of 6 entries, integer palettes) per dtype of %s, float32 also the '
                 '9 stacks of 3-entry rows with missing entries; units: the same + with-missing stacks under x -> s*x+t for %s; '
                 'sizes: 2 conditions (a single pair; 1-3 RDMs) and %d seeded stacks of 8 x 12 / 12 x 9 (RDMs x conditions); tie '
                 'methods and the 6 descriptor kinds (incl. tuples, 2-D) rotated'
                 % (k_enum, list(TYPED), [_utag(u) for u in UNITS], n_big), function='rank_transform')
    i = 0
    for dt in TYPED:
        for st in _stacks(wo6, 3, 41)[:k_enum] + (_stacks(rows3, 3, 43) if dt == 'float32' else []):
            i += 1
            bd.check(orc_rank, dict(n_cond=4 if len(st[0]) == 6 else 3, rows=st, method=(RANK_METHODS + (None,))[i % 6],
                                    measure=MEASURES[i % len(MEASURES)], desc=ALL_KINDS[i % len(ALL_KINDS)], dtype=dt),
                     'typed:' + dt, function='rank_transform')
    for u in UNITS:
        for st in _stacks(wo6, 3, 47)[:k_enum] + _stacks(rows3, 3, 43):
            i += 1
            bd.check(orc_rank, dict(n_cond=4 if len(st[0]) == 6 else 3, rows=st, method=(RANK_METHODS + (None,))[i % 6],
                                    measure=MEASURES[i % len(MEASURES)], desc=ALL_KINDS[i % len(ALL_KINDS)], **u),
                     _utag(u), function='rank_transform')
    for n_rdm in (1, 2, 3):
        for method in RANK_METHODS + (None,):
            i += 1
            bd.check(orc_rank, dict(n_cond=2, rows=[[0]] * n_rdm, method=method, measure=MEASURES[i % len(MEASURES)],
                                    desc=ALL_KINDS[i % len(ALL_KINDS)]), 'size:single-pair', function='rank_transform')
    for seed in range(n_big):
        n_cond, n_rdm = ((12, 8), (9, 12))[seed % 2]
        for method in RANK_METHODS:
            i += 1
            bd.check(orc_rank, dict(n_cond=n_cond, rows=_seeded_rows(1000 + seed, n_cond, n_rdm), method=method,
                                    measure=MEASURES[i % len(MEASURES)], desc=ALL_KINDS[i % len(ALL_KINDS)]),
                     'size:large', function='rank_transform')
    bd.done()
    bds.append(bd)

    # ---- sqrt / positive -----------------------------------------------------------------------------------------
    bd = Bounded(run, 'C17/elementwise-sweeps', OB_ELEM,
                 'sqrt and positive; typed: %d stacks of 3 complete RDMs per dtype of %s (sqrt: int16 and wider, float32; single '
                 'precision suffices below 32 bit), float32 also with missing entries; units: x -> s*x+t for %s, judged relative '
                 'to the value itself; sizes: 2 conditions and %d seeded stacks of 8 x 12 / 12 x 9'
                 % (k_enum, list(TYPED), [_utag(u) for u in UNITS], n_big), function='sqrt_transform')
    i = 0
    for dt in TYPED:
        for st in _stacks(wo6, 3, 59)[:k_enum] + (_stacks(rows3, 3, 43) if dt == 'float32' else []):
            for which in ('sqrt', 'positive'):
                if which == 'sqrt' and dt in ('int8', 'uint8'):
                    continue        # see pending triage below
                i += 1
                bd.check(orc_elementwise, dict(which=which, n_cond=4 if len(st[0]) == 6 else 3, rows=st, dtype=dt,
                                               measure=MEASURES[i % len(MEASURES)], desc=ALL_KINDS[i % len(ALL_KINDS)]),
                         which + ',typed:' + dt, function=which + '_transform')
    if True:   # repaired in /repo 472c8e40 (was pending triage): sqrt,8-bit-integer-typed
        for dt in ('int8', 'uint8'):
            for st in _stacks(wo6, 3, 59)[:k_enum]:
                i += 1
                bd.check(orc_elementwise, dict(which='sqrt', n_cond=4, rows=st, dtype=dt, measure=MEASURES[i % len(MEASURES)],
                                               desc=ALL_KINDS[i % len(ALL_KINDS)]),
                         'sqrt,8-bit-integer-typed', function='sqrt_transform')
    for u in UNITS:
        for st in _stacks(wo6, 3, 61)[:k_enum] + _stacks(rows3, 3, 43):
            for which in ('sqrt', 'positive'):
                i += 1
                bd.check(orc_elementwise, dict(which=which, n_cond=4 if len(st[0]) == 6 else 3, rows=st,
                                               measure=MEASURES[i % len(MEASURES)], desc=ALL_KINDS[i % len(ALL_KINDS)], **u),
                         which + ',' + _utag(u), function=which + '_transform')
    for which in ('sqrt', 'positive'):
        for n_rdm in (1, 2, 3):
            for lev in (0, 4, None):
                i += 1
                rows = [[lev]] * n_rdm if lev is not None else [[None]] + [[3]] * (n_rdm - 1)
                bd.check(orc_elementwise, dict(which=which, n_cond=2, rows=rows, measure=MEASURES[i % len(MEASURES)],
                                               desc=ALL_KINDS[i % len(ALL_KINDS)]), which + ',size:single-pair',
                         function=which + '_transform')
        for seed in range(n_big):
            n_cond, n_rdm = ((12, 8), (9, 12))[seed % 2]
            i += 1
            bd.check(orc_elementwise, dict(which=which, n_cond=n_cond, rows=_seeded_rows(2000 + seed, n_cond, n_rdm),
                                           measure=MEASURES[i % len(MEASURES)], desc=ALL_KINDS[i % len(ALL_KINDS)]),
                     which + ',size:large', function=which + '_transform')
    bd.done()
    bds.append(bd)

    # ---- minmax --------------------------------------------------------------------------------------------------
    bd = Bounded(run, 'C17/minmax-sweeps', OB_MINMAX,
                 'typed: float32 on %d enumerated stacks + all 3-entry orders + %d seeded stacks (integer dtypes: pending triage); '
                 'units: x -> s*x+t for %s on %d enumerated + %d seeded stacks each; sizes: %d seeded stacks of 6 x 10 / 10 x 15 '
                 '(RDMs x conditions); 6 descriptor kinds rotated'
                 % (k_enum, 3 * n_big, [_utag(u) for u in UNITS], k_enum, 2 * n_big, n_big), function='minmax_transform')
    i = 0

    def minmax_typed(dts_enum, dts_seeded, label):
        j = 0
        for dt in dts_enum:
            for st in _stacks(nc6, 3, 53)[:k_enum] + _stacks(nc3, 3, 53):
                j += 1
                bd.check(orc_minmax, dict(n_cond=4 if len(st[0]) == 6 else 3, rows=st, dtype=dt, measure=MEASURES[j % len(MEASURES)],
                                          desc=ALL_KINDS[j % len(ALL_KINDS)]), label(dt), function='minmax_transform')
        for dt in dts_seeded:
            for seed in range(3 * n_big):
                j += 1
                bd.check(orc_minmax, dict(seed=300 + seed, n_rdm=1 + seed % 4, n_cond=3 + seed % 5, ties=bool(seed % 2), dtype=dt,
                                          measure=MEASURES[j % len(MEASURES)], desc=ALL_KINDS[j % len(ALL_KINDS)]),
                         label(dt), function='minmax_transform')
    minmax_typed(('float32',), ('float32',), lambda dt: 'typed:' + dt)
    if True:   # repaired in /repo 472c8e40 (was pending triage): integer-typed
        minmax_typed(INT_DTYPES, ('int16', 'int32', 'int64'), lambda dt: 'integer-typed')
    for u in UNITS:
        for st in _stacks(nc6, 3, 67)[:k_enum]:
            i += 1
            bd.check(orc_minmax, dict(n_cond=4, rows=st, measure=MEASURES[i % len(MEASURES)], desc=ALL_KINDS[i % len(ALL_KINDS)], **u),
                     _utag(u), function='minmax_transform')
        for seed in range(2 * n_big):
            i += 1
            bd.check(orc_minmax, dict(seed=400 + seed, n_rdm=1 + seed % 4, n_cond=3 + seed % 5, ties=bool(seed % 2),
                                      measure=MEASURES[i % len(MEASURES)], desc=ALL_KINDS[i % len(ALL_KINDS)], **u),
                     _utag(u), function='minmax_transform')
    for seed in range(n_big):
        n_rdm, n_cond = ((6, 10), (10, 15))[seed % 2]
        i += 1
        bd.check(orc_minmax, dict(seed=500 + seed, n_rdm=n_rdm, n_cond=n_cond, ties=bool((seed // 2) % 2),
                                  measure=MEASURES[i % len(MEASURES)], desc=ALL_KINDS[i % len(ALL_KINDS)]),
                 'size:large', function='minmax_transform')
    bd.done()
    bds.append(bd)

    # ---- geotopological ------------------------------------------------------------------------------------------
    pairs5 = ((0.1, 0.9), (0.25, 0.75), (0.0, 1.0), (0.0, 0.5), (0.5, 1.0))
    typed_geo = (('values>=1', ('uint8', 'int16', 'int32', 'float32'), 1.0),
                 ('has-negatives', ('int8', 'int16', 'int64', 'float32'), 20.0),
                 ('nonneg-below-1', ('uint8', 'uint16', 'float32'), 100.0))
    n_seed = 4 if thorough else 1
    bd = Bounded(run, 'C17/geotopological-sweeps', OB_GEOTOP,
                 'the three kinds of the main domain, %d seed(s), with / without ties, quantile pairs %s with distinct thresholds; '
                 'typed: values x 1 / 20 / 100 rounded into %s; units: x -> s*x for %s; quantiles handed over as int (0, 1), '
                 'np.float64, np.float32, 0-d array; sizes: stacks of 3-6 RDMs of 2 conditions (one pair each), 6 x 12'
                 % (n_seed, list(pairs5), [list(t[1]) for t in typed_geo], list(SCALES)), function='geotopological_transform')
    i = 0
    for kind, dts, mult in typed_geo:
        for dt in dts:
            for seed in range(n_seed):
                for ties in (False, True):
                    for low, up in pairs5:
                        i += 1
                        case = dict(seed=seed, n_rdm=1 + (seed + i) % 3, n_cond=4 + (seed + i) % 4, kind=kind, ties=ties, low=low,
                                    up=up, dtype=dt, measure=MEASURES[i % len(MEASURES)], desc=ALL_KINDS[i % len(ALL_KINDS)])
                        if mult != 1.0 and np.dtype(dt).kind in 'iu':
                            case['scale'] = mult
                        if geotop_valid(case):
                            bd.check(orc_geotopological, case, kind + ',typed:' + dt, function='geotopological_transform')
    for kind in ('values>=1', 'nonneg-below-1', 'has-negatives'):
        for sc in SCALES:
            for seed in range(n_seed):
                for low, up in pairs5:
                    i += 1
                    case = dict(seed=seed, n_rdm=1 + (seed + i) % 3, n_cond=4 + (seed + i) % 4, kind=kind, ties=bool(i % 2), low=low,
                                up=up, scale=sc, measure=MEASURES[i % len(MEASURES)], desc=ALL_KINDS[i % len(ALL_KINDS)])
                    if geotop_valid(case):
                        bd.check(orc_geotopological, case, kind + ',unit:x%g' % sc, function='geotopological_transform')
        for qtype, pairs in (('int', ((0, 1),)), ('np.float64', pairs5), ('np.float32', ((0.25, 0.75), (0.0, 0.5), (0.5, 1.0))),
                             ('array0d', pairs5)):
            for low, up in pairs:
                i += 1
                case = dict(seed=7, n_rdm=1 + i % 3, n_cond=4 + i % 4, kind=kind, ties=bool(i % 2), low=low, up=up, qtype=qtype,
                            measure=MEASURES[i % len(MEASURES)], desc=ALL_KINDS[i % len(ALL_KINDS)])
                if geotop_valid(case):
                    bd.check(orc_geotopological, case, kind + ',quantiles-as:' + qtype, function='geotopological_transform')
        for n_rdm, n_cond in ((3, 2), (4, 2), (6, 2), (6, 12)):
            for low, up in pairs5:
                i += 1
                case = dict(seed=11, n_rdm=n_rdm, n_cond=n_cond, kind=kind, ties=bool(i % 2), low=low, up=up,
                            measure=MEASURES[i % len(MEASURES)], desc=ALL_KINDS[i % len(ALL_KINDS)])
                if geotop_valid(case):
                    bd.check(orc_geotopological, case, kind + (',size:single-pair' if n_cond == 2 else ',size:large'),
                             function='geotopological_transform')
    bd.done()
    bds.append(bd)

    # ---- geodesic ------------------------------------------------------------------------------------------------
    bd = Bounded(run, 'C17/geodesic-sweeps', OB_GEOD,
                 'typed: float32 on %d enumerated stacks + all 3-entry orders + %d seeded stacks (integer dtypes: pending triage); '
                 'units: x -> s*x+t for %s on %d enumerated + %d seeded stacks each; sizes: %d seeded stacks of 4 x 10 / 3 x 12'
                 % (k_enum, 3 * n_big, [_utag(u) for u in UNITS], k_enum, n_big, n_big), function='geodesic_transform')
    i = 0

    def geodesic_typed(dts_enum, dts_seeded, label):
        j = 0
        for dt in dts_enum:
            for st in _stacks(nc6, 3, 71)[:k_enum] + _stacks(nc3, 3, 71):
                j += 1
                bd.check(orc_geodesic, dict(n_cond=4 if len(st[0]) == 6 else 3, rows=st, dtype=dt, measure=MEASURES[j % len(MEASURES)],
                                            desc=ALL_KINDS[j % len(ALL_KINDS)]), label(dt), function='geodesic_transform')
        for dt in dts_seeded:
            for seed in range(3 * n_big):
                j += 1
                bd.check(orc_geodesic, dict(seed=600 + seed, n_rdm=1 + seed % 3, n_cond=3 + seed % 6, ties=bool(seed % 2), dtype=dt,
                                            measure=MEASURES[j % len(MEASURES)], desc=ALL_KINDS[j % len(ALL_KINDS)]),
                         label(dt), function='geodesic_transform')
    geodesic_typed(('float32',), ('float32',), lambda dt: 'typed:' + dt)
    if True:   # repaired in /repo 472c8e40 (was pending triage): integer-typed
        geodesic_typed(INT_DTYPES, ('int8', 'int16', 'int64'), lambda dt: 'integer-typed')
    for u in UNITS:
        for st in _stacks(nc6, 3, 73)[:k_enum]:
            i += 1
            bd.check(orc_geodesic, dict(n_cond=4, rows=st, measure=MEASURES[i % len(MEASURES)], desc=ALL_KINDS[i % len(ALL_KINDS)], **u),
                     _utag(u), function='geodesic_transform')
        for seed in range(n_big):
            i += 1
            bd.check(orc_geodesic, dict(seed=700 + seed, n_rdm=1 + seed % 3, n_cond=4 + seed % 5, ties=bool(seed % 2),
                                        measure=MEASURES[i % len(MEASURES)], desc=ALL_KINDS[i % len(ALL_KINDS)], **u),
                     _utag(u), function='geodesic_transform')
    for seed in range(n_big):
        n_rdm, n_cond = ((4, 10), (3, 12))[seed % 2]
        i += 1
        bd.check(orc_geodesic, dict(seed=800 + seed, n_rdm=n_rdm, n_cond=n_cond, ties=bool((seed // 2) % 2),
                                    measure=MEASURES[i % len(MEASURES)], desc=ALL_KINDS[i % len(ALL_KINDS)]),
                 'size:large', function='geodesic_transform')
    bd.done()
    bds.append(bd)

    # ---- custom transform ----------------------------------------------------------------------------------------
    funs = ('cbrt', 'square', 'affine', 'neg', 'rowcenter', 'colindex')
    bd = Bounded(run, 'C17/custom-sweeps', OB_CUSTOM,
                 '6 functions; typed: values x 10 (+30 for unsigned) in %s (functions free of wrap-around / narrow-precision effects '
                 'of the dtype itself), 2-3 RDMs x 4-5 conditions, float32 also with a missing entry; units: x -> s*x+t for %s; sizes: 2 conditions (1 / 3 RDMs, with / without the missing entry), 8 x 12'
                 % (list(TYPED), [_utag(u) for u in UNITS]), function='transform')
    i = 0
    for fun in funs:
        for dt in TYPED:
            # only functions whose value does not hinge on the type the vectors arrive in: no wrap-around (square of 8-bit
            # integers, negation of unsigned ones), no half / single precision results of numpy for narrow integers (cbrt)
            if (fun == 'square' and dt in ('int8', 'uint8')) or (fun == 'neg' and np.dtype(dt).kind == 'u') \
                    or (fun == 'cbrt' and dt in ('int8', 'uint8', 'int16', 'uint16')):
                continue
            for nan in ((False, True) if dt == 'float32' else (False,)):
                i += 1
                case = dict(seed=100 + i, n_rdm=2 + i % 2, n_cond=4 + i % 2, fun=fun, nan=nan, dtype=dt,
                            measure=MEASURES[i % len(MEASURES)], desc=ALL_KINDS[i % len(ALL_KINDS)])
                if np.dtype(dt).kind in 'iu':
                    case.update(scale=10.0, shift=30.0 if np.dtype(dt).kind == 'u' else 0.0)
                bd.check(orc_custom, case, fun + ',typed:' + dt, function='transform')
        for u in UNITS:
            i += 1
            bd.check(orc_custom, dict(seed=200 + i, n_rdm=1 + i % 3, n_cond=3 + i % 3, fun=fun, nan=bool(i % 2),
                                      measure=MEASURES[i % len(MEASURES)], desc=ALL_KINDS[i % len(ALL_KINDS)], **u),
                     fun + ',' + _utag(u), function='transform')
        for n_rdm, n_cond, nan in ((1, 2, False), (3, 2, False), (3, 2, True), (8, 12, True)):
            i += 1
            bd.check(orc_custom, dict(seed=300 + i, n_rdm=n_rdm, n_cond=n_cond, fun=fun, nan=nan, measure=MEASURES[i % len(MEASURES)],
                                      desc=ALL_KINDS[i % len(ALL_KINDS)]),
                     fun + (',size:single-pair' if n_cond == 2 else ',size:large'), function='transform')
    bd.done()
    bds.append(bd)

    # ---- descriptors: container kinds ----------------------------------------------------------------------------
    bd = Bounded(run, 'C17/descriptors-measure-containers', OB_META,
                 'ALL 7 transforms (rank with every tie method) x 7 source measure names x 2 further descriptor kinds (tuple-typed '
                 'with int and str labels in non-sorted first-appearance order and an own tuple index; vector-valued 2-D arrays and '
                 'lists of lists) x (n_rdm, n_cond) in {(1,3), (3,5), (4,6)}', exhaustive=True, function='rdm.transform')
    for tname in TRANSFORMS:
        pars = [None] if tname != 'rank' else [None] + list(RANK_METHODS)
        for par in pars:
            for measure in MEASURES:
                for kind in DESC_KINDS_X:
                    for n_rdm, n_cond in ((1, 3), (3, 5), (4, 6)):
                        bd.check(orc_meta, dict(transform=tname, par=par, measure=measure, desc=kind, n_rdm=n_rdm, n_cond=n_cond),
                                 tname + ',' + kind, function=tname + '_transform' if tname != 'custom' else 'transform')
    bd.done()
    bds.append(bd)

    # ---- call sequences ------------------------------------------------------------------------------------------
    seq_pars = [('rank', None), ('rank', 'min'), ('rank', 'ordinal'), ('sqrt', None), ('positive', None), ('minmax', None),
                ('geotopological', None), ('geotopological', [0.1, 0.9]), ('geodesic', None), ('custom', 'affine'),
                ('custom', 'rowcenter')]
    bd = Bounded(run, 'C17/call-sequence', OB_SEQ,
                 't(A), t(B), t(A) with B of the same shape / descriptors / measure and other dissimilarities: %d transform x parameter '
                 'combinations x 2 source measure names x (n_rdm, n_cond) in {(1,3), (2,4), (3,5)} x %d seed(s), 6 descriptor kinds '
                 'rotated' % (len(seq_pars), 3 if thorough else 1), function='rdm.transform')
    i = 0
    for tname, par in seq_pars:
        for measure in (None, 'crossnobis'):
            for n_rdm, n_cond in ((1, 3), (2, 4), (3, 5)):
                for seed in range(3 if thorough else 1):
                    i += 1
                    bd.check(orc_call_sequence, dict(transform=tname, par=par, seed=seed, n_rdm=n_rdm, n_cond=n_cond, measure=measure,
                                                     desc=ALL_KINDS[i % len(ALL_KINDS)]),
                             tname, function=tname + '_transform' if tname != 'custom' else 'transform')
    bd.done()
    bds.append(bd)
    bd = Bounded(run, 'C17/compare-call-sequence', OB_CSEQ,
                 'compare(A,B), compare(A\',B\'), compare(A,B) with stacks of the same shape and other content: 5 rank-based methods + '
                 'cosine + corr x 3 kinds of data x 4 / 6 conditions x 2 x 3 RDMs x %d seed(s)' % (3 if thorough else 1),
                 function='compare')
    for method in RANK_SIMS + ('cosine', 'corr'):
        for kind in ('lattice', 'nonneg', 'distinct'):
            for n_cond in (4, 6):
                for seed in range(3 if thorough else 1):
                    bd.check(orc_compare_sequence, dict(method=method, seed=seed, n_cond=n_cond, n_rdm=[2, 3], kind=kind),
                             method + ',' + kind, function='compare')
    bd.done()
    bds.append(bd)

    # ---- rank-based measures: units, typed stacks, sizes -----------------------------------------------------------
    base_maps = {'lattice': ['cbrt', 'lib:rank-average', 'exp', 'lib:minmax'],
                 'nonneg': ['sqrt', 'lib:sqrt', 'lib:rank-dense', 'lib:minmax'],
                 'distinct': ['lib:positive', 'lib:rank-ordinal', 'arctan', 'lib:cbrt'],
                 'close': ['scale:3.7', 'lib:rank-average', 'lib:minmax', 'shift:-3'],
                 'tiny': ['cbrt', 'lib:sqrt', 'lib:rank-min', 'lib:minmax']}
    typed_maps = {'lattice': [('id', 'id'), ('lib:rank-average', 'id'), ('id', 'lib:rank-dense'), ('lib:affine', 'lib:rank-min')],
                  'nonneg': [('id', 'id'), ('lib:positive', 'lib:rank-max'), ('lib:affine', 'id'), ('lib:rank-average', 'lib:positive')],
                  'distinct': [('id', 'id'), ('lib:rank-ordinal', 'lib:affine'), ('lib:positive', 'id')]}
    n_seed = 4 if thorough else 1
    bd = Bounded(run, 'C17/rank-invariance-sweeps', OB_RANKINV,
                 '5 rank-based methods; units: scalings 1e-26 and 1e12 of the first / second / both stacks (partner maps rotated) on '
                 'the 5 kinds of data; typed: both stacks in %s (ties+negatives, non-negative ties, tie-free) handed to compare and '
                 'to the library transforms rank / positive / transform(fun) / sqrt (int16 and wider); sizes: 8 and 10 conditions, '
                 '3-4 RDMs per stack; %d seed(s)' % (list(TYPED), n_seed), function='compare')
    i = 0
    for kind, partners in base_maps.items():
        for method in RANK_SIMS:
            for seed in range(n_seed):
                for q, f in enumerate(('scale:1e-26', 'scale:1e12')):
                    for (ff, gg) in ((f, 'id'), ('id', f), (f, partners[(q + seed + i) % len(partners)])):
                        i += 1
                        n_nan = 2 if (i % 3 == 0 and ff not in NO_NAN and gg not in NO_NAN) else 0
                        bd.check(orc_rank_invariance,
                                 dict(seed=seed, n_cond=4 + i % 3, n_rdm=[1 + i % 2, 1 + (i // 2) % 2], kind=kind, n_nan=n_nan,
                                      f=ff, g=gg, method=method), f'{method},{kind},unit', function='compare')
                for n_cond, n_rdm in ((8, [3, 4]), (10, [4, 1])):
                    i += 1
                    ff, gg = partners[i % len(partners)], partners[(i + 1) % len(partners)]
                    n_nan = 3 if (i % 2 == 0 and ff not in NO_NAN and gg not in NO_NAN) else 0
                    bd.check(orc_rank_invariance, dict(seed=seed, n_cond=n_cond, n_rdm=n_rdm, kind=kind, n_nan=n_nan, f=ff, g=gg,
                                                       method=method), f'{method},{kind},size:large', function='compare')
    for kind, pairs in typed_maps.items():
        for method in RANK_SIMS:
            for dt in TYPED:
                for seed in range(n_seed):
                    extra = [('lib:sqrt', 'id')] if (kind != 'lattice' and dt not in ('int8', 'uint8')) else []
                    for ff, gg in pairs + extra:
                        i += 1
                        if not thorough and method == 'kendall' and (ff, gg) != ('id', 'id'):
                            continue
                        n_nan = 2 if (dt == 'float32' and i % 2) else 0
                        bd.check(orc_rank_invariance,
                                 dict(seed=seed, n_cond=4 + i % 3, n_rdm=[1 + i % 2, 1 + (i // 2) % 2], kind=kind, n_nan=n_nan,
                                      f=ff, g=gg, method=method, dtype=dt), f'{method},{kind},typed:{dt}', function='compare')
    if True:   # repaired in /repo 472c8e40 (was pending triage): integer-typed (the defect of minmax_transform seen through compare: order and ties are lost)
        for method in RANK_SIMS:
            for dt in INT_DTYPES:
                for kind in ('lattice', 'nonneg', 'distinct'):
                    bd.check(orc_rank_invariance, dict(seed=0, n_cond=5, n_rdm=[2, 2], kind=kind, n_nan=0, f='lib:minmax', g='id',
                                                       method=method, dtype=dt), f'{method},{kind},integer-typed,lib:minmax',
                             function='compare')
    bd.done()
    bds.append(bd)

    # ---- cosine / correlation type: typed stacks, affine maps in extreme units, sizes ------------------------------
    bd = Bounded(run, 'C17/scale-affine-invariance-sweeps', OB_SCALE,
                 'cosine, corr, cosine_cov, corr_cov (sigma_k none / vector); typed: both stacks in %s, integer-valued maps on the '
                 'typed arrays (x -> 2x, 2x+5) and float maps through transform(fun); units: corr-type under x -> a*x+b with '
                 '(a, b) in 1e-26 .. 1e12, offsets a few a; sizes: 9 and 12 conditions, up to 6 RDMs per stack, sigma_k none / matrix; '
                 '%d seed(s)' % (list(TYPED), n_seed), function='compare')
    i = 0
    for seed in range(n_seed):
        for method, sigmas in (('cosine', ('none',)), ('corr', ('none',)), ('cosine_cov', ('none', 'vector')),
                               ('corr_cov', ('none', 'vector'))):
            aff = method.startswith('corr')
            for sigma in sigmas:
                for dt in TYPED:
                    for via in (('array', 'lib') if dt != 'float32' else ('lib',)):
                        i += 1
                        if via == 'array':
                            a1, b1, a2, b2 = 2.0, (5.0 if aff else 0.0), 1.0, 0.0
                        else:
                            a1, b1, a2, b2 = 0.5, (-2.0 if aff else 0.0), 7.0, (30.0 if aff and i % 2 else 0.0)
                        bd.check(orc_scale_affine,
                                 dict(seed=seed * 100 + 40 + i % 5, n_cond=4 + i % 3, n_rdm=[1 + i % 3, 1 + (i // 3) % 2], method=method,
                                      sigma=sigma, a1=a1, b1=b1, a2=a2, b2=b2, via=via, ties=bool(i % 3 == 0), n_nan=0, dtype=dt),
                                 f'{method},sigma_k={sigma},typed:{dt}', function='compare')
                if aff:
                    for a1, b1, a2, b2 in ((1e-20, 5e-20, 1e9, -2e9), (1e-26, -2e-26, 1e-26, 3e-26), (1e12, 3e13, 1.0, 0.0)):
                        i += 1
                        bd.check(orc_scale_affine,
                                 dict(seed=seed * 100 + 50 + i % 5, n_cond=4 + i % 3, n_rdm=[2, 2], method=method, sigma=sigma, a1=a1,
                                      b1=b1, a2=a2, b2=b2, via='lib' if i % 2 else 'array', ties=bool(i % 4 == 0),
                                      n_nan=2 if i % 3 == 0 else 0),
                                 f'{method},sigma_k={sigma},extreme-scale-affine', function='compare')
            for sigma in ('none', 'matrix') if method.endswith('_cov') else ('none',):
                for n_cond, n_rdm in ((9, [4, 5]), (12, [1, 6])):
                    i += 1
                    bd.check(orc_scale_affine,
                             dict(seed=seed * 100 + 60 + i % 5, n_cond=n_cond, n_rdm=n_rdm, method=method, sigma=sigma, a1=7.0,
                                  b1=-2.0 if aff else 0.0, a2=1e-3, b2=30.0 if aff else 0.0, via='lib' if i % 2 else 'array',
                                  ties=bool(i % 2), n_nan=3 if sigma == 'none' else 0),
                             f'{method},sigma_k={sigma},size:large', function='compare')
    bd.done()
    bds.append(bd)

    # ---- evaluations: typed data / models, sizes -------------------------------------------------------------------
    bd = Bounded(run, 'C17/evaluation-sweeps', OB_EVAL,
                 'eval_fixed, 4 rank-based methods; typed: data and model RDMs in int16 / uint8 / int64 / float32 (non-negative with '
                 'ties, tie-free) through rank / transform(fun) or untouched; sizes: 7 conditions, 5 data RDMs', function='eval_fixed')
    i = 0
    for kind in ('nonneg', 'distinct'):
        for method in ('spearman', 'rho-a', 'tau-a', 'tau-b'):
            for dt in ('int16', 'uint8', 'int64', 'float32'):
                for ff, gg in (('id', 'id'), ('lib:rank-average', 'id'), ('id', 'lib:rank-dense'), ('lib:affine', 'lib:rank-average')):
                    i += 1
                    if not thorough and i % 2:
                        continue
                    bd.check(orc_evaluation, dict(seed=i % 4, n_cond=4 + i % 2, n_rdm=2 + i % 2, kind=kind, method=method, f=ff, g=gg,
                                                  dtype=dt), f'{method},{kind},typed:{dt}', function='eval_fixed')
            for ff, gg in (('lib:sqrt', 'lib:minmax'), ('lib:rank-average', 'lib:sqrt')):
                i += 1
                bd.check(orc_evaluation, dict(seed=i % 4, n_cond=7, n_rdm=5, kind=kind, method=method, f=ff, g=gg),
                         f'{method},{kind},size:large', function='eval_fixed')
    bd.done()
    bds.append(bd)

    # ---- another hash seed -----------------------------------------------------------------------------------------
    batch = []
    for q, tname in enumerate(TRANSFORMS):
        for kind in ('scalars', 'lists', 'tuples'):
            batch.append(['C17/descriptors-measure', dict(transform=tname, par=None, measure=MEASURES[(q + 1) % len(MEASURES)],
                                                          desc=kind, n_rdm=3, n_cond=5)])
        batch.append(['C17/call-sequence', dict(transform=tname, par=None, seed=q, n_rdm=2, n_cond=5, measure='crossnobis',
                                                desc=ALL_KINDS[q % len(ALL_KINDS)])])
    for seed in range(4):
        batch.append(['C17/geodesic', dict(seed=seed, n_rdm=2, n_cond=4 + seed, ties=bool(seed % 2), desc='lists')])
        batch.append(['C17/rank', dict(n_cond=6, rows=_seeded_rows(seed, 6, 3), method=RANK_METHODS[seed], desc='tuples')])
    for q, method in enumerate(RANK_SIMS):
        batch.append(['C17/rank-invariance', dict(seed=q, n_cond=5, n_rdm=[2, 2], kind='lattice', n_nan=2 * (q % 2), f='lib:rank-average',
                                                  g='cbrt', method=method)])
    for q, method in enumerate(('cosine', 'corr', 'cosine_cov', 'corr_cov')):
        batch.append(['C17/scale-affine-invariance', dict(seed=q, n_cond=5, n_rdm=[2, 2], method=method, sigma='vector', a1=7.0, b1=0.0,
                                                          a2=0.5, b2=0.0, via='lib', ties=True, n_nan=0)])
    batch.append(['C17/evaluation', dict(seed=1, n_cond=5, n_rdm=3, kind='nonneg', method='tau-a', f='lib:sqrt', g='lib:rank-dense')])
    import os
    hashseeds = (1, 2, 31337, 4294967295) if thorough else (31337,)
    bd = Bounded(run, 'C17/hashseed', OB_HASH,
                 'new interpreters with PYTHONHASHSEED in %s (this process runs with %s), each running %d cases of the oracles '
                 'descriptors-measure (str / int / tuple labels), call-sequence, geodesic, rank, rank-invariance, '
                 'scale-affine-invariance, evaluation' % (list(hashseeds), os.environ.get('PYTHONHASHSEED', 'unset'), len(batch)),
                 function='rdm.transform')
    for hs in hashseeds:
        bd.check(orc_hashseed, dict(hashseed=hs, batch=batch), 'PYTHONHASHSEED=%d' % hs, function='rdm.transform')
    bd.done()
    bds.append(bd)
    return bds
