"""C17 (bounded run-time tier) -- RDM transforms mean what they say; measures are invariant as theory dictates.

Every oracle hands the transform a FRESH copy of its input (the in-place writes through get_vectors() are C12's
concern) and judges only the returned dissimilarities, descriptors and measure name.  Expected values are computed here
from the property statement by literal loops (rank counting, pair counting, Floyd-Warshall); repo code is never asked
for an expected value.

Clause of the property                                                       oracle
--------------------------------------------------------------------------  -------------------------------------------
rank_transform = ranks among the non-missing entries of EACH RDM, for each   C17/rank            (orc_rank)
  tie method (average/min/max/dense/ordinal), NaN stays NaN
sqrt_transform = sqrt(max(x,0)), positive_transform = max(x,0), NaN kept     C17/elementwise     (orc_elementwise)
minmax maps each RDM increasingly and affinely onto [0,1]                    C17/minmax          (orc_minmax)
  (min -> exactly 0, max -> exactly 1, weak order kept, (x-min)/(max-min))
geo-topological = clipped-linear map between the two quantile thresholds     C17/geotopological  (orc_geotopological)
  (thresholds = np.quantile of the whole vector array, as DESIGN assumes)
geodesic = shortest-path lengths in the min-max graph without its maximal    C17/geodesic        (orc_geodesic, literal)
  edges                                                                      C17/geodesic-nonzero-edges (regression guard
                                                                              for everything but the known zero-edge loss)
custom transform applies the given function to the vector array             C17/custom          (orc_custom)
all transforms return RDMs with the source's descriptors (str / int / dict,  _check_meta inside every oracle above and
  list-typed, array-typed, user-given 'index') and the documented measure    C17/descriptors-measure (orc_meta: 7 transforms
  name                                                                        x 7 source names x 4 descriptor kinds)
the measure name is UPDATED by every transform                               C17/measure-updated (orc_measure_updated)
Spearman, rho-a, tau-a, tau-b/kendall unchanged by strictly increasing maps  C17/rank-invariance (orc_rank_invariance): the
  of either / both RDMs (scalings down to 1e-13, offsets, cbrt, exp, ...,     value after the maps == value before == value
  sqrt_transform / rank_transform / minmax_transform / transform(fun));       counted by brute force over all pairs;
  data with ties, negatives, common NaN positions, nearly equal values        C17/evaluation (orc_evaluation): the same
                                                                              through inference.eval_fixed
cosine-type measures unchanged by positive scaling, correlation-type by      C17/scale-affine-invariance
  positive affine maps (cosine, cosine_cov, corr, corr_cov; sigma_k None /    (orc_scale_affine)
  vector / matrix); cosine and corr also against np.dot / centred np.dot

NOT covered by this tier
* "for all inputs": everything here is bounded (exhaustive over weak orders of 3 and 6 entries for the element-wise maps
  and the ranks; seeded elsewhere).  The all-reals statements are the business of engines B / L (DESIGN C17).
* NaN entries for minmax / geotopological / geodesic: these transforms make no provision for NaN ("NaN where supported");
  today they return all-NaN resp. the unchanged values.  Mentioned in C17_findings.md as an observation, not asserted.
* constant RDMs for minmax / geodesic (max == min: the statement's "onto [0,1]" presupposes max > min) and quantile pairs
  with equal thresholds for geotopological.
* deep-copy freshness of the returned descriptor dicts and non-mutation of the source (C12).
* that the measures themselves are the textbook formulas for all inputs (C03); here only on the cases generated.
* bures / bures_metric / neg_riem_dist are not named by the property and are not examined.
* the exact blank in 'sqrt of<name>': names are compared modulo blanks (see findings, observation O1).
"""
import itertools
import math

import numpy as np

from vf.rt.harness import oracle, Bounded, close

NAN = float('nan')
INF = float('inf')
RANK_METHODS = ('average', 'min', 'max', 'dense', 'ordinal')
RANK_SIMS = ('spearman', 'rho-a', 'tau-a', 'tau-b', 'kendall')
TRANSFORMS = ('rank', 'sqrt', 'positive', 'minmax', 'geotopological', 'geodesic', 'custom')
MEASURES = (None, 'squared euclidean', 'squared mahalanobis', 'crossnobis', 'euclidean', 'correlation (ranks)',
            'sqrt of unknown measure')
DESC_KINDS = ('none', 'scalars', 'lists', 'arrays')
# container sweep: tuple-typed descriptors (int and str labels, first-appearance order different from the sorted order) and
# vector-valued (2-D) descriptors.  Kept apart from DESC_KINDS so that the rotation of the earlier cases is unchanged.
DESC_KINDS_X = ('tuples', 'vectors')
# typed-data sweep: dtypes of the dissimilarity vectors handed to RDMs(...)
INT_DTYPES = ('int8', 'uint8', 'int16', 'uint16', 'int32', 'int64')
TYPED = INT_DTYPES + ('float32',)
# strictly increasing value palettes (level -> value); row r of a stack uses palette r % 3, so that the RDMs of one stack
# live on different ranges (per-RDM ranks / min-max differ from pooled ones)
PALETTES = ([-1.5, -0.25, 0.0, 0.5, 2.0, 7.0],
            [-30.0, -2.0, -0.5, 0.0, 1.0, 1.5],
            [0.0, 0.01, 4.0, 9.0, 16.0, 1.0e6])
# the same idea inside the range of int8 (with negatives) and of uint8
PALETTES_INT = ([-3, -1, 0, 2, 5, 90], [-100, -7, -2, 0, 1, 3], [0, 1, 4, 9, 16, 120])
PALETTES_UINT = ([0, 1, 2, 5, 9, 200], [3, 4, 10, 50, 100, 250], [0, 1, 4, 9, 16, 255])


# =====================================================================================================================
# building inputs
# =====================================================================================================================
def _n_pairs(n_cond):
    return n_cond * (n_cond - 1) // 2


def _rows_to_vectors(rows, dtype=None):
    """rows of levels (None = missing) -> float array, row r through palette r % 3 (integer palettes for integer dtypes)"""
    pals = PALETTES
    if dtype is not None and np.dtype(dtype).kind == 'i':
        pals = PALETTES_INT
    if dtype is not None and np.dtype(dtype).kind == 'u':
        pals = PALETTES_UINT
    out = np.empty((len(rows), len(rows[0])))
    for r, row in enumerate(rows):
        pal = pals[r % len(pals)]
        for k, lev in enumerate(row):
            out[r, k] = NAN if lev is None else pal[lev]
    return out


class CaseInvalid(Exception):
    pass


def _values(v, dtype):
    """the float64 values that the cast to dtype leaves of v -- what the library is really given; integer dtypes: rounded,
    have to fit the range and cannot hold missing entries"""
    v = np.array(v, dtype=float)
    if dtype is None:
        return v
    dt = np.dtype(dtype)
    if dt.kind in 'iu':
        if np.isnan(v).any():
            raise CaseInvalid('missing entries in an integer-typed RDM')
        r = np.round(v)
        info = np.iinfo(dt)
        if r.min() < info.min or r.max() > info.max:
            raise CaseInvalid(f'values outside the range of {dtype}')
        return r.astype(dt).astype(float)
    with np.errstate(over='ignore'):
        return v.astype(dt).astype(float)


def _units(v, case):
    """dimension sweeps common to the value oracles: the unit (case['scale'], case['shift']: x -> scale * x + shift) and the
    dtype (case['dtype']) of the dissimilarities.  Returns the float64 values of what the library is given."""
    v = np.array(v, dtype=float)
    if 'scale' in case or 'shift' in case:
        v = v * float(case.get('scale', 1.0)) + float(case.get('shift', 0.0))
    return _values(v, case.get('dtype'))


def _tol(dtype, base):
    """precision asked of a result: that of float64 arithmetic (base) unless the dissimilarities are narrower than 32 bit /
    float32, where single precision suffices (numpy's own promotion: int16 -> float32).  Half precision does not."""
    if dtype is None or np.dtype(dtype).itemsize >= 4 and np.dtype(dtype).kind in 'iu':
        return base
    return max(base, 2e-6)


def _desc(kind, n_rdm, n_cond):
    """fresh descriptor dicts of the given kind: (descriptors, rdm_descriptors, pattern_descriptors) as handed to RDMs(...)"""
    if kind == 'none':
        return None, None, None
    if kind == 'scalars':
        return ({'session': 'a', 'n': 3, 'meta': {'k': [1, 2], 's': 'x'}},
                {'subj': [10 + 3 * i for i in range(n_rdm)]},
                {'cond': ['c%d' % (i // 2) for i in range(n_cond)]})
    if kind == 'lists':   # list-typed, repeated labels, user-given non-default 'index'
        return ({'tags': ['p', 'q'], 'session': 'b'},
                {'subj': [(7 * i) % 3 for i in range(n_rdm)], 'name': ['s%d' % i for i in range(n_rdm)],
                 'index': [100 + i for i in range(n_rdm)]},
                {'cond': ['b', 'a'] * (n_cond // 2) + ['z'] * (n_cond % 2), 'w': [0.5 * i for i in range(n_cond)],
                 'index': [n_cond - i for i in range(n_cond)]})
    if kind == 'tuples':  # tuple-typed; int and str labels; repeated, interleaved, first appearance != sorted order
        return ({'tags': ('p', 'q'), 'run': 7},
                {'subj': tuple((5 * i + 2) % 4 for i in range(n_rdm)), 'name': tuple('s%d' % (n_rdm - i) for i in range(n_rdm))},
                {'cond': tuple('zxy'[(2 * i) % 3] for i in range(n_cond)), 'num': tuple((3 * i + 1) % 5 for i in range(n_cond)),
                 'index': tuple(10 * (n_cond - i) for i in range(n_cond))})
    if kind == 'vectors':  # vector-valued (2-D) descriptors, as arrays and as lists of lists
        return ({'centre': np.array([1.5, -2.0, 3.0])},
                {'coord': np.arange(n_rdm * 3).reshape(n_rdm, 3)[::-1] * 0.5, 'subj': [3 - (i % 2) for i in range(n_rdm)]},
                {'pos': np.arange(n_cond * 2).reshape(n_cond, 2) % 3, 'feat': [[i, i % 2] for i in range(n_cond)],
                 'cond': ['c%d' % (i % 2) for i in range(n_cond)]})
    if kind == 'arrays':
        return ({'roi': np.array([1, 2, 3])},
                {'subj': np.arange(n_rdm)[::-1] * 2, 'name': np.array(['s%d' % i for i in range(n_rdm)])},
                {'cond': np.array(['c%d' % (i % 3) for i in range(n_cond)]), 'pos': np.arange(n_cond) * 1.5})
    raise ValueError(kind)


def _expected_desc(kind, n_rdm, n_cond):
    d, r, p = _desc(kind, n_rdm, n_cond)
    d = {} if d is None else d
    r = {} if r is None else r
    p = {} if p is None else p
    if 'index' not in r:
        r['index'] = list(range(n_rdm))
    if 'index' not in p:
        p['index'] = list(range(n_cond))
    return d, r, p


def _mk(vectors, measure=None, kind='none', dtype=None):
    """a FRESH RDMs object (own array, own descriptor dicts); dtype: the dissimilarities are handed over in that dtype
    (the values must be representable in it: see _values)"""
    from rsatoolbox.rdm import RDMs
    v = np.array(vectors, dtype=float).copy()
    if dtype is not None:
        v = v.astype(dtype)
    n_rdm = v.shape[0]
    n_cond = int(round((1 + math.sqrt(1 + 8 * v.shape[1])) / 2))
    d, r, p = _desc(kind, n_rdm, n_cond)
    return RDMs(v, dissimilarity_measure=measure, descriptors=d, rdm_descriptors=r, pattern_descriptors=p)


def _custom_fun(name):
    if name == 'cbrt':
        return np.cbrt
    if name == 'square':
        return lambda v: v * v
    if name == 'affine':
        return lambda v: 2.5 * v - 1.0
    if name == 'neg':
        return lambda v: -v
    if name == 'rowcenter':        # needs the (n_rdm x n_pairs) array, not single values / flattened data
        return lambda v: v - np.mean(v, axis=1, keepdims=True)
    if name == 'colindex':         # position dependent: adds the column number
        return lambda v: v + np.arange(v.shape[1])[None, :]
    raise ValueError(name)


def _T():
    """the module rsatoolbox.rdm.transform (the package attribute of that name is the function transform)"""
    import importlib
    return importlib.import_module('rsatoolbox.rdm.transform')


def _apply(tname, rdms, par=None):
    T = _T()
    if tname == 'rank':
        return T.rank_transform(rdms) if par is None else T.rank_transform(rdms, method=par)
    if tname == 'sqrt':
        return T.sqrt_transform(rdms)
    if tname == 'positive':
        return T.positive_transform(rdms)
    if tname == 'minmax':
        return T.minmax_transform(rdms)
    if tname == 'geotopological':
        lo, up = par if par is not None else (0.25, 0.75)
        return T.geotopological_transform(rdms, lo, up)
    if tname == 'geodesic':
        return T.geodesic_transform(rdms)
    if tname == 'custom':
        return T.transform(rdms, _custom_fun(par or 'affine'))
    raise ValueError(tname)


# =====================================================================================================================
# specs written from the statement
# =====================================================================================================================
def _spec_ranks(vec, method):
    """ranks among the non-missing entries, by counting; missing entries stay missing"""
    out = [NAN] * len(vec)
    present = [i for i, x in enumerate(vec) if not math.isnan(x)]
    for i in present:
        x = vec[i]
        less = sum(1 for j in present if vec[j] < x)
        equal = sum(1 for j in present if vec[j] == x)
        if method == 'average':
            out[i] = less + (equal + 1) / 2.0
        elif method == 'min':
            out[i] = less + 1
        elif method == 'max':
            out[i] = less + equal
        elif method == 'dense':
            out[i] = len(set(vec[j] for j in present if vec[j] < x)) + 1
        elif method == 'ordinal':
            out[i] = less + sum(1 for j in present if j < i and vec[j] == x) + 1
        else:
            raise ValueError(method)
    return out


def _spec_measure(tname, m):
    """the documented measure-name table"""
    unk = 'unknown measure' if m is None else m
    if tname == 'rank':
        if m is None:
            return '(ranks)'
        return m if '(ranks)' in m else m + ' (ranks)'
    if tname == 'sqrt':
        if m == 'squared euclidean':
            return 'euclidean'
        if m == 'squared mahalanobis':
            return 'mahalanobis'
        return 'sqrt of ' + unk
    if tname == 'custom':
        return 'transformed ' + unk
    if tname == 'minmax':
        return 'minmax transformed ' + unk
    if tname == 'geotopological':
        return 'geo-topological transformed ' + unk
    if tname == 'geodesic':
        return 'geodesic transformed ' + unk
    raise ValueError(tname)


def _squash(s):
    return None if s is None else ''.join(str(s).split())


def _same_value(a, b):
    if isinstance(a, np.ndarray) or isinstance(b, np.ndarray):
        a, b = np.asarray(a), np.asarray(b)
        return a.shape == b.shape and bool(np.all(a == b))
    if isinstance(a, dict) or isinstance(b, dict):
        return isinstance(a, dict) and isinstance(b, dict) and set(a) == set(b) and all(_same_value(a[k], b[k]) for k in a)
    if isinstance(a, (list, tuple)) or isinstance(b, (list, tuple)):
        return (isinstance(a, (list, tuple)) and isinstance(b, (list, tuple)) and len(a) == len(b)
                and all(_same_value(x, y) for x, y in zip(a, b)))
    if isinstance(a, (str, bytes)) != isinstance(b, (str, bytes)):
        return False
    return bool(a == b)


def _same_desc(got, want, per_item):
    """descriptor dicts agree: same keys, same values in the same order (list- and array-typed alike)"""
    if not isinstance(got, dict):
        return f'is a {type(got).__name__}, not a dict'
    if set(got) != set(want):
        return f'keys {sorted(got)} instead of {sorted(want)}'
    for k in want:
        g, w = got[k], want[k]
        if per_item:
            try:
                gl, wl = list(g), list(w)
            except TypeError:
                return f'{k!r}: {g!r} instead of {w!r}'
            if len(gl) != len(wl) or not all(_same_value(x, y) for x, y in zip(gl, wl)):
                return f'{k!r}: {gl!r} instead of {wl!r}'
        elif not _same_value(g, w):
            return f'{k!r}: {g!r} instead of {w!r}'
    return None


def _check_meta(out, tname, measure, kind, n_rdm, n_cond):
    """returned object is an RDMs of the same shape with the source's descriptors and the documented measure name"""
    from rsatoolbox.rdm import RDMs
    if not isinstance(out, RDMs):
        return f'{tname}: returned {type(out).__name__}, not RDMs'
    if out.n_rdm != n_rdm or out.n_cond != n_cond:
        return f'{tname}: result has n_rdm={out.n_rdm}, n_cond={out.n_cond} instead of {n_rdm}, {n_cond}'
    vec = np.asarray(out.get_vectors())
    if vec.shape != (n_rdm, _n_pairs(n_cond)):
        return f'{tname}: result vectors have shape {vec.shape} instead of {(n_rdm, _n_pairs(n_cond))}'
    d, r, p = _expected_desc(kind, n_rdm, n_cond)
    for name, got, want, per_item in (('descriptors', out.descriptors, d, False),
                                      ('rdm_descriptors', out.rdm_descriptors, r, True),
                                      ('pattern_descriptors', out.pattern_descriptors, p, True)):
        msg = _same_desc(got, want, per_item)
        if msg:
            return f'{tname}: {name} not the source\'s ({kind}): {msg}'
    got = out.dissimilarity_measure
    if tname == 'positive':
        # statement: "an updated measure name"; whether it IS updated is judged by C17/measure-updated.  Here: whatever
        # the name is, it still has to name the source measure.
        if measure is not None and (not isinstance(got, str) or measure not in got):
            return f'positive: measure name {got!r} does not name the source measure {measure!r}'
    else:
        want = _spec_measure(tname, measure)
        if not isinstance(got, str) or _squash(got) != _squash(want):
            return f'{tname}: measure name {got!r} instead of {want!r} (source name {measure!r})'
    return None


def _vec_diff(got, want, tol=1e-12, rel=False):
    """None if equal (NaN and +-inf positions identical, finite entries within tol relative to max(1,|want|); rel=True:
    relative to |want| itself, for data in extreme units), else text"""
    got = np.asarray(got, dtype=float)
    want = np.asarray(want, dtype=float)
    if got.shape != want.shape:
        return f'shape {got.shape} instead of {want.shape}'
    for idx in np.ndindex(want.shape):
        g, w = float(got[idx]), float(want[idx])
        if math.isnan(w) or math.isnan(g):
            ok = math.isnan(w) and math.isnan(g)
        elif math.isinf(w) or math.isinf(g):
            ok = g == w
        else:
            ok = abs(g - w) <= tol * (abs(w) if rel else max(1.0, abs(w)))
        if not ok:
            return f'entry {list(idx)}: got {g!r}, expected {w!r}'
    return None


def _fresh_vectors(vectors):
    return np.array(vectors, dtype=float).copy()


# =====================================================================================================================
# value oracles of the transforms
# =====================================================================================================================
@oracle('C17/rank')
def orc_rank(case):
    """case: n_cond, rows (levels, None = missing), method (None = default argument), measure, desc; optional scale, shift
    (unit of the values), dtype (of the dissimilarities handed over)"""
    vectors = _units(_rows_to_vectors(case['rows'], case.get('dtype')), case)
    n_rdm, n_cond = vectors.shape[0], case['n_cond']
    method = case.get('method')
    out = _apply('rank', _mk(vectors, case.get('measure'), case.get('desc', 'none'), case.get('dtype')), method)
    msg = _check_meta(out, 'rank', case.get('measure'), case.get('desc', 'none'), n_rdm, n_cond)
    if msg:
        return msg
    got = np.asarray(out.get_vectors(), dtype=float)
    for r in range(n_rdm):
        want = _spec_ranks([float(x) for x in vectors[r]], method or 'average')
        d = _vec_diff(got[r], want, 0.0)
        if d:
            return (f'rank_transform(method={method!r}) rdm {r}: input {vectors[r].tolist()} -> {got[r].tolist()}, '
                    f'expected ranks among its own non-missing entries {want} ({d})')
    return None


@oracle('C17/elementwise')
def orc_elementwise(case):
    """case: which in (sqrt, positive), n_cond, rows, measure, desc; optional scale, shift, dtype"""
    which = case['which']
    vectors = _units(_rows_to_vectors(case['rows'], case.get('dtype')), case)
    n_rdm, n_cond = vectors.shape[0], case['n_cond']
    out = _apply(which, _mk(vectors, case.get('measure'), case.get('desc', 'none'), case.get('dtype')))
    msg = _check_meta(out, which, case.get('measure'), case.get('desc', 'none'), n_rdm, n_cond)
    if msg:
        return msg
    got = np.asarray(out.get_vectors(), dtype=float)
    want = np.empty_like(vectors)
    for idx in np.ndindex(vectors.shape):
        x = float(vectors[idx])
        if math.isnan(x):
            want[idx] = NAN
        elif which == 'sqrt':
            want[idx] = math.sqrt(max(x, 0.0))
        else:
            want[idx] = max(x, 0.0)
    swept = 'scale' in case or 'shift' in case or 'dtype' in case      # extreme units: relative to the value itself
    d = _vec_diff(got, want, _tol(case.get('dtype'), 1e-15) if which == 'sqrt' else 1e-15, rel=swept)
    if d:
        return (f'{which}_transform of {vectors.tolist()}' + (f' (handed over as {case["dtype"]})' if case.get('dtype') else '')
                + f': {d} ({"sqrt(max(x,0))" if which == "sqrt" else "max(x,0)"})')
    return None


@oracle('C17/minmax')
def orc_minmax(case):
    """case: n_cond, rows (no missing, each with >= 2 levels) or seed/n_rdm for random values, measure, desc; optional
    scale, shift, dtype"""
    if 'rows' in case:
        vectors = _rows_to_vectors(case['rows'], case.get('dtype'))
    else:
        rs = np.random.RandomState(case['seed'])
        vectors = rs.randn(case['n_rdm'], _n_pairs(case['n_cond'])) * rs.uniform(0.01, 100, (case['n_rdm'], 1)) \
            + rs.uniform(-50, 50, (case['n_rdm'], 1))
        if case.get('ties'):
            vectors = np.round(vectors, 0)
            vectors[:, 0] = vectors.min(axis=1) - 1.0      # never constant
    vectors = _units(vectors, case)
    n_rdm, n_cond = vectors.shape[0], case['n_cond']
    for r in range(n_rdm):
        if len(set(vectors[r].tolist())) < 2:
            return 'CASE INVALID: constant RDM'
    out = _apply('minmax', _mk(vectors, case.get('measure'), case.get('desc', 'none'), case.get('dtype')))
    msg = _check_meta(out, 'minmax', case.get('measure'), case.get('desc', 'none'), n_rdm, n_cond)
    if msg:
        return msg
    got = np.asarray(out.get_vectors(), dtype=float)
    for r in range(n_rdm):
        x = [float(t) for t in vectors[r]]
        g = [float(t) for t in got[r]]
        lo, hi = min(x), max(x)
        for k in range(len(x)):
            if x[k] == lo and g[k] != 0.0:
                return f'minmax rdm {r}: minimum {lo} mapped to {g[k]!r}, not 0'
            if x[k] == hi and g[k] != 1.0:
                return f'minmax rdm {r}: maximum {hi} mapped to {g[k]!r}, not 1'
            if not 0.0 <= g[k] <= 1.0:
                return f'minmax rdm {r}: {x[k]} mapped to {g[k]!r} outside [0,1]'
            want = (x[k] - lo) / (hi - lo)
            if abs(g[k] - want) > _tol(case.get('dtype'), 1e-12):
                return f'minmax rdm {r}: {x[k]} mapped to {g[k]!r}, expected (x-min)/(max-min) = {want!r} with its own min {lo}, max {hi}'
        for a in range(len(x)):          # increasing: the weak order of the entries is kept
            for b in range(len(x)):
                if (x[a] < x[b]) and not (g[a] <= g[b]):
                    return f'minmax rdm {r}: order reversed, {x[a]} < {x[b]} but images {g[a]} > {g[b]}'
                if x[a] == x[b] and g[a] != g[b]:
                    return f'minmax rdm {r}: equal entries {x[a]} mapped to different values {g[a]}, {g[b]}'
    return None


def _geotop_vectors(case):
    rs = np.random.RandomState(case['seed'])
    shape = (case['n_rdm'], _n_pairs(case['n_cond']))
    kind = case['kind']
    if kind == 'values>=1':
        v = rs.uniform(1.0, 50.0, shape)
    elif kind == 'nonneg-below-1':
        v = rs.uniform(0.0, 1.0, shape)
    elif kind == 'has-negatives':
        v = rs.uniform(-2.0, 3.0, shape)
        v[0, 0] = -1.9
    else:
        raise ValueError(kind)
    if case.get('ties'):
        step = 2.0 if kind == 'values>=1' else 0.125
        v = np.round(v / step) * step
        if kind == 'values>=1':
            v = np.maximum(v, 1.0)
    return _units(v, case)


def _quantile_arg(q, qtype):
    """the quantile as the caller may hand it over: python float (default), python int (0 / 1 only), numpy scalars, 0-d array"""
    if qtype in (None, 'float'):
        return q
    if qtype == 'int':
        if q not in (0, 1):
            raise CaseInvalid('int quantile other than 0 / 1')
        return int(q)
    if qtype == 'np.float64':
        return np.float64(q)
    if qtype == 'np.float32':
        if float(np.float32(q)) != q:
            raise CaseInvalid('quantile not representable in float32')
        return np.float32(q)
    if qtype == 'array0d':
        return np.array(q)
    raise ValueError(qtype)


def geotop_valid(case):
    """precondition of the clause: the two thresholds differ"""
    v = _geotop_vectors(case)
    return float(np.quantile(v, case['low'])) < float(np.quantile(v, case['up']))


@oracle('C17/geotopological')
def orc_geotopological(case):
    """case: seed, n_rdm, n_cond, kind, ties, low, up, measure, desc; optional scale, shift, dtype, qtype (how the two
    quantiles are handed over: float / int / np.float64 / np.float32 / array0d)"""
    vectors = _geotop_vectors(case)
    n_rdm, n_cond = vectors.shape[0], case['n_cond']
    low, up = case['low'], case['up']
    lo = float(np.quantile(vectors, low))
    hi = float(np.quantile(vectors, up))
    if not lo < hi:
        return 'CASE INVALID: equal thresholds'
    out = _apply('geotopological', _mk(vectors, case.get('measure'), case.get('desc', 'none'), case.get('dtype')),
                 (_quantile_arg(low, case.get('qtype')), _quantile_arg(up, case.get('qtype'))))
    msg = _check_meta(out, 'geotopological', case.get('measure'), case.get('desc', 'none'), n_rdm, n_cond)
    if msg:
        return msg
    got = np.asarray(out.get_vectors(), dtype=float)
    tol = 1e-12
    if case.get('dtype') == 'float32':   # thresholds and differences in single precision: 6e-8 relative to the values
        tol = 1e-6 + 4 * 6e-8 * float(np.max(np.abs(vectors))) / (hi - lo)
    for idx in np.ndindex(vectors.shape):
        x = float(vectors[idx])
        want = 0.0 if x < lo else (1.0 if x > hi else (x - lo) / (hi - lo))
        g = float(got[idx])
        if not abs(g - want) <= tol:
            return (f'geotopological_transform(low={low}, up={up}): thresholds l={lo!r}, u={hi!r}; entry {list(idx)} = {x!r} '
                    f'mapped to {g!r}, expected {want!r} (0 below l, 1 above u, (x-l)/(u-l) between)')
    return None


def _spec_geodesic(x, n_cond, drop_zero_edges):
    """shortest-path lengths (Floyd-Warshall, literal loops) in the graph on the conditions whose edge weights are the
    min-max normalised dissimilarities, without the maximal edges (and, for the guard oracle, without the minimal ones)"""
    lo, hi = min(x), max(x)
    D = [[0.0 if i == j else INF for j in range(n_cond)] for i in range(n_cond)]
    k = 0
    for i in range(n_cond):
        for j in range(i + 1, n_cond):
            if x[k] != hi and not (drop_zero_edges and x[k] == lo):
                D[i][j] = D[j][i] = (x[k] - lo) / (hi - lo)
            k += 1
    for m in range(n_cond):
        for i in range(n_cond):
            for j in range(n_cond):
                if D[i][m] + D[m][j] < D[i][j]:
                    D[i][j] = D[i][m] + D[m][j]
    return [D[i][j] for i in range(n_cond) for j in range(i + 1, n_cond)]


def _geodesic_vectors(case):
    if 'rows' in case:
        return _units(_rows_to_vectors(case['rows'], case.get('dtype')), case)
    rs = np.random.RandomState(case['seed'])
    v = rs.uniform(-1.0, 4.0, (case['n_rdm'], _n_pairs(case['n_cond']))) * rs.uniform(0.1, 20, (case['n_rdm'], 1))
    if case.get('ties'):
        v = np.round(v)
        v[:, 0] = v.min(axis=1) - 1.0      # never constant
    return _units(v, case)


def _geodesic(case, drop_zero_edges):
    vectors = _geodesic_vectors(case)
    n_rdm, n_cond = vectors.shape[0], case['n_cond']
    for r in range(n_rdm):
        if len(set(vectors[r].tolist())) < 2:
            return 'CASE INVALID: constant RDM'
    out = _apply('geodesic', _mk(vectors, case.get('measure'), case.get('desc', 'none'), case.get('dtype')))
    msg = _check_meta(out, 'geodesic', case.get('measure'), case.get('desc', 'none'), n_rdm, n_cond)
    if msg:
        return msg
    got = np.asarray(out.get_vectors(), dtype=float)
    for r in range(n_rdm):
        want = _spec_geodesic([float(t) for t in vectors[r]], n_cond, drop_zero_edges)
        d = _vec_diff(got[r], want, _tol(case.get('dtype'), 1e-12) * (n_cond if case.get('dtype') else 1))
        if d:
            what = ('graph without maximal and without zero-weight edges' if drop_zero_edges
                    else 'min-max graph without its maximal edges')
            return (f'geodesic_transform rdm {r} ({n_cond} conditions) input {vectors[r].tolist()}: got {got[r].tolist()}, '
                    f'expected shortest paths in the {what} {want} ({d})')
    return None


@oracle('C17/geodesic')
def orc_geodesic(case):
    """the clause as stated: all non-maximal edges of the min-max graph are present (also the one of weight 0)"""
    return _geodesic(case, False)


@oracle('C17/geodesic-nonzero-edges')
def orc_geodesic_guard(case):
    """NOT the property: regression guard that pins everything about geodesic_transform except the known loss of the
    zero-weight (minimal) edges -- shortest paths in the graph without maximal AND without minimal edges.  It exists so
    that other breakages of geodesic_transform stay visible while finding F3 is open; to be dropped when F3 is repaired."""
    return _geodesic(case, True)


@oracle('C17/custom')
def orc_custom(case):
    """case: seed, n_rdm, n_cond, fun, measure, desc, nan; optional scale, shift, dtype"""
    T = _T()
    rs = np.random.RandomState(case['seed'])
    n_rdm, n_cond = case['n_rdm'], case['n_cond']
    vectors = np.round(rs.uniform(-3, 3, (n_rdm, _n_pairs(n_cond))), 1)
    if case.get('nan'):
        vectors[0, 1 % vectors.shape[1]] = NAN
    vectors = _units(vectors, case)
    base = _custom_fun(case['fun'])
    seen = []

    def fun(v):
        seen.append(np.array(v, dtype=float).copy())
        return base(v)
    out = T.transform(_mk(vectors, case.get('measure'), case.get('desc', 'none'), case.get('dtype')), fun)
    msg = _check_meta(out, 'custom', case.get('measure'), case.get('desc', 'none'), n_rdm, n_cond)
    if msg:
        return msg
    if len(seen) != 1:
        return f'transform called the function {len(seen)} times, expected once on the vector array'
    d = _vec_diff(seen[0], vectors, 0.0)
    if d:
        return f'transform handed the function something else than the {n_rdm} x {_n_pairs(n_cond)} vectors: {d}'
    want = base(_fresh_vectors(vectors) if not case.get('dtype') else _fresh_vectors(vectors).astype(case['dtype']))
    d = _vec_diff(out.get_vectors(), want, 0.0)
    if d:
        return f'transform(rdms, {case["fun"]}): result is not fun(vectors): {d}'
    return None


def _generic_vectors(n_rdm, n_cond, seed):
    """non-constant, tie-containing, partly negative vectors on which all 7 transforms are defined"""
    rs = np.random.RandomState(seed)
    v = np.round(rs.uniform(-2, 6, (n_rdm, _n_pairs(n_cond))) * 2) / 2
    v[:, 0] = -2.5
    v[:, 1] = 6.5
    return v


@oracle('C17/descriptors-measure')
def orc_meta(case):
    """case: transform, measure, desc, n_rdm, n_cond -- descriptors and measure-name table only"""
    n_rdm, n_cond = case['n_rdm'], case['n_cond']
    vectors = _generic_vectors(n_rdm, n_cond, case.get('seed', 0))
    par = case.get('par')
    if isinstance(par, list):
        par = tuple(par)
    out = _apply(case['transform'], _mk(vectors, case['measure'], case['desc']), par)
    return _check_meta(out, case['transform'], case['measure'], case['desc'], n_rdm, n_cond)


@oracle('C17/measure-updated')
def orc_measure_updated(case):
    """statement: every transform returns RDMs with 'an updated measure name'.  A name counts as updated when it differs
    from the source's, or (rank only) already carries the mark of the transform ('(ranks)': marking is idempotent)."""
    n_rdm, n_cond = case['n_rdm'], case['n_cond']
    vectors = _generic_vectors(n_rdm, n_cond, 1)
    tname, measure = case['transform'], case['measure']
    out = _apply(tname, _mk(vectors, measure, 'none'))
    got = out.dissimilarity_measure
    if tname == 'rank' and isinstance(got, str) and '(ranks)' in got:
        return None
    if got == measure:
        return f'{tname}: measure name of the result is {got!r}, the same as the source\'s -- not updated'
    if not isinstance(got, str) or not got.strip():
        return f'{tname}: measure name of the result is {got!r}'
    return None


# =====================================================================================================================
# invariance of the measures
# =====================================================================================================================
def _pair_counts(x, y):
    n = len(x)
    con = dis = tx = ty = 0
    for i in range(n):
        for j in range(i + 1, n):
            dx = (x[i] > x[j]) - (x[i] < x[j])
            dy = (y[i] > y[j]) - (y[i] < y[j])
            if dx == 0:
                tx += 1
            if dy == 0:
                ty += 1
            if dx * dy > 0:
                con += 1
            elif dx * dy < 0:
                dis += 1
    return con, dis, tx, ty, n * (n - 1) // 2


def _spec_sim(method, x, y):
    """similarity of two complete vectors from the definitions"""
    n = len(x)
    if method in ('tau-a', 'tau-b', 'kendall'):
        con, dis, tx, ty, tot = _pair_counts(x, y)
        if method == 'tau-a':
            return (con - dis) / tot
        den = math.sqrt((tot - tx) * (tot - ty))
        return NAN if den == 0 else (con - dis) / den
    rx = _spec_ranks(x, 'average')
    ry = _spec_ranks(y, 'average')
    if method == 'rho-a':
        return 12.0 * sum(a * b for a, b in zip(rx, ry)) / (n ** 3 - n) - 3.0 * (n + 1) / (n - 1)
    if method == 'spearman':
        mx, my = sum(rx) / n, sum(ry) / n
        sxy = sum((a - mx) * (b - my) for a, b in zip(rx, ry))
        sxx = sum((a - mx) ** 2 for a in rx)
        syy = sum((b - my) ** 2 for b in ry)
        return sxy / math.sqrt(sxx * syy)
    raise ValueError(method)


def _monotone(name, v):
    """a strictly increasing map applied to a vector array; 'lib:*' = a library transform -> returns an RDMs object"""
    T = _T()
    if name == 'id':
        return v.copy()
    if name.startswith('scale:'):
        return v * float(name[6:])
    if name.startswith('shift:'):
        return v + float(name[6:])
    if name == 'affine':
        return 0.37 * v + 11.0
    if name == 'cbrt':
        return np.cbrt(v)
    if name == 'cube':
        return v ** 3
    if name == 'exp':
        return np.exp(v)
    if name == 'arctan':
        return np.arctan(v)
    if name == 'sqrt':
        return np.sqrt(v)
    if name == 'lib:sqrt':
        return T.sqrt_transform(_mk(v, 'squared euclidean'))
    if name == 'lib:positive':
        return T.positive_transform(_mk(v, 'crossnobis'))
    if name == 'lib:minmax':
        return T.minmax_transform(_mk(v))
    if name == 'lib:cbrt':
        return T.transform(_mk(v), np.cbrt)
    if name.startswith('lib:rank-'):
        return T.rank_transform(_mk(v), method=name[9:])
    raise ValueError(name)


NONNEG_ONLY = ('sqrt', 'lib:sqrt', 'lib:positive')
NO_NAN = ('lib:minmax',)


def _vec_of(obj):
    return np.asarray(obj if isinstance(obj, np.ndarray) else obj.get_vectors(), dtype=float)


def _same_weak_order(a, b):
    """b is the image of a under a strictly increasing map: same missing positions, same order, same ties"""
    for i in range(len(a)):
        if math.isnan(a[i]) != math.isnan(b[i]):
            return False
    for i in range(len(a)):
        for j in range(len(a)):
            if math.isnan(a[i]) or math.isnan(a[j]):
                continue
            if ((a[i] < a[j]) != (b[i] < b[j])) or ((a[i] == a[j]) != (b[i] == b[j])):
                return False
    return True


def _sim_data(case):
    """two stacks of vectors; kind: lattice (ties, negatives), nonneg (ties), distinct (no ties), close (distinct values
    1e-9 apart on an O(1) offset), tiny (distinct values on a 1e-13 scale); optional common missing positions"""
    rs = np.random.RandomState(case['seed'])
    n = _n_pairs(case['n_cond'])
    n1, n2 = case['n_rdm']
    kind = case['kind']

    def draw(k):
        if kind == 'lattice':
            return rs.randint(-3, 5, (k, n)) / 2.0
        if kind == 'nonneg':
            return rs.randint(0, 6, (k, n)) / 4.0
        if kind == 'distinct':
            return np.array([rs.permutation(n) for _ in range(k)]) / float(n) + 0.25
        if kind == 'close':
            return 1.0 + np.array([rs.permutation(n) for _ in range(k)]) * 1e-9
        if kind == 'tiny':
            return (np.array([rs.permutation(n) for _ in range(k)]) + 1.0) / n * 1e-13
        raise ValueError(kind)
    a, b = draw(n1), draw(n2)
    if kind in ('lattice', 'nonneg'):     # a categorical model with few levels among the second stack
        b[0] = np.floor(np.arange(n) * 3.0 / n)[rs.permutation(n)]
    for v in (a, b):                      # no constant RDM
        if kind == 'lattice':
            v[:, 0], v[:, 1] = -2.0, 2.5
        if kind == 'nonneg':
            v[:, 0], v[:, 1] = 0.0, 2.0
    k = case.get('n_nan', 0)
    if k:
        pos = rs.permutation(n)[:k]
        a[:, pos] = NAN
        b[:, pos] = NAN
    return a, b


@oracle('C17/rank-invariance')
def orc_rank_invariance(case):
    """case: seed, n_cond, n_rdm [n1,n2], kind, n_nan, f, g (names of strictly increasing maps), method"""
    from rsatoolbox.rdm import compare
    a, b = _sim_data(case)
    method = case['method']
    fa, gb = _monotone(case['f'], a.copy()), _monotone(case['g'], b.copy())
    for src, img, nm in ((a, _vec_of(fa), case['f']), (b, _vec_of(gb), case['g'])):
        for r in range(src.shape[0]):
            if not _same_weak_order([float(t) for t in src[r]], [float(t) for t in img[r]]):
                return (f'the transform {nm} is not strictly increasing on rdm {r}: {src[r].tolist()} -> {img[r].tolist()} '
                        f'(order or ties of the entries changed)')
    want = np.empty((a.shape[0], b.shape[0]))
    for i in range(a.shape[0]):
        for j in range(b.shape[0]):
            keep = [k for k in range(a.shape[1]) if not math.isnan(a[i, k])]
            want[i, j] = _spec_sim(method, [float(a[i, k]) for k in keep], [float(b[j, k]) for k in keep])
    before = compare(_mk(a), _mk(b), method=method)
    fa_obj = fa if not isinstance(fa, np.ndarray) else _mk(fa)
    gb_obj = gb if not isinstance(gb, np.ndarray) else _mk(gb)
    after = compare(fa_obj, gb_obj, method=method)
    d = _vec_diff(after, before, 1e-10)
    if d:
        return (f'{method}: value changed under strictly increasing maps f={case["f"]} (first stack), g={case["g"]} (second): '
                f'before {np.asarray(before).tolist()}, after {np.asarray(after).tolist()} ({d})')
    d = _vec_diff(before, want, 1e-10)
    if d:
        return f'{method} of the untransformed stacks {np.asarray(before).tolist()} differs from the pair/rank-counted value {want.tolist()} ({d})'
    d = _vec_diff(after, want, 1e-10)
    if d:
        return f'{method} after f={case["f"]}, g={case["g"]}: {np.asarray(after).tolist()} differs from the pair/rank-counted value {want.tolist()} ({d})'
    return None


def _sigma(case, n_cond):
    rs = np.random.RandomState(1000 + case['seed'])
    s = case.get('sigma', 'none')
    if s == 'none':
        return None
    if s == 'vector':
        return rs.uniform(0.5, 2.0, n_cond)
    A = rs.randn(n_cond, n_cond + 3)
    return A @ A.T / (n_cond + 3) + 0.1 * np.eye(n_cond)


@oracle('C17/scale-affine-invariance')
def orc_scale_affine(case):
    """case: seed, n_cond, n_rdm [n1,n2], method, sigma (none/vector/matrix), a1, b1, a2, b2, via (array / lib), n_nan.
    cosine-type: x -> a*x (b must be 0); correlation-type: x -> a*x + b; a > 0"""
    T = _T()
    from rsatoolbox.rdm import compare
    rs = np.random.RandomState(case['seed'])
    n_cond = case['n_cond']
    n = _n_pairs(n_cond)
    n1, n2 = case['n_rdm']
    method = case['method']
    a = np.round(rs.uniform(-1, 4, (n1, n)), 2)
    b = np.round(rs.uniform(-1, 4, (n2, n)), 2)
    if case.get('ties'):
        a, b = np.round(a), np.round(b)
        a[:, 0], a[:, 1], b[:, 0], b[:, 1] = -1.0, 4.0, 4.0, -1.0
    k = case.get('n_nan', 0)
    if k:
        pos = rs.permutation(n)[:k]
        a[:, pos] = NAN
        b[:, pos] = NAN
    a1, b1, a2, b2 = case['a1'], case['b1'], case['a2'], case['b2']
    if not (a1 > 0 and a2 > 0):
        return 'CASE INVALID: scaling must be positive'
    if method.startswith('cosine') and (b1 != 0 or b2 != 0):
        return 'CASE INVALID: cosine-type measures are only claimed invariant under scaling'
    sigma = _sigma(case, n_cond)
    kw = {} if not method.endswith('_cov') else dict(sigma_k=sigma)
    before = compare(_mk(a), _mk(b), method=method, **kw)
    if case.get('via') == 'lib':
        ta = T.transform(_mk(a, 'crossnobis', 'lists'), lambda v: a1 * v + b1)
        tb = T.transform(_mk(b, None, 'arrays'), lambda v: a2 * v + b2)
    else:
        ta, tb = _mk(a1 * a + b1), _mk(a2 * b + b2)
    after = compare(ta, tb, method=method, **kw)
    tol = 1e-5 if case.get('sigma') in ('matrix', 'vector') else 1e-9   # a given sigma_k goes through the conjugate-gradient solve
    d = _vec_diff(after, before, tol)
    if d:
        return (f'{method} (sigma_k {case.get("sigma", "none")}): value changed under x -> {a1}*x+{b1} (first stack), '
                f'x -> {a2}*x+{b2} (second): before {np.asarray(before).tolist()}, after {np.asarray(after).tolist()} ({d})')
    if method in ('cosine', 'corr'):
        want = np.empty((n1, n2))
        for i in range(n1):
            for j in range(n2):
                keep = [q for q in range(n) if not math.isnan(a[i, q])]
                x = np.array([a[i, q] for q in keep])
                y = np.array([b[j, q] for q in keep])
                if method == 'corr':
                    x, y = x - x.sum() / len(x), y - y.sum() / len(y)
                want[i, j] = float(np.dot(x, y)) / math.sqrt(float(np.dot(x, x)) * float(np.dot(y, y)))
        for nm, val in (('before', before), ('after', after)):
            d = _vec_diff(val, want, 1e-9)
            if d:
                return f'{method} {nm} the maps {np.asarray(val).tolist()} differs from the textbook value {want.tolist()} ({d})'
    return None


@oracle('C17/evaluation')
def orc_evaluation(case):
    """a rank-based evaluation (inference.eval_fixed of fixed models) does not change when the data RDMs and / or the model
    RDMs go through a strictly increasing library transform; case: seed, n_cond, n_rdm, kind, method, f (data), g (models)"""
    import warnings
    from rsatoolbox.model import ModelFixed
    from rsatoolbox.inference import eval_fixed
    sub = dict(case)
    sub['n_rdm'] = [case['n_rdm'], 2]
    data, mods = _sim_data(sub)
    method = case['method']

    def run(dv, mv):
        d_obj = dv if not isinstance(dv, np.ndarray) else _mk(dv)
        mv = _vec_of(mv)
        models = [ModelFixed('m%d' % i, _mk(mv[i:i + 1])) for i in range(mv.shape[0])]
        with warnings.catch_warnings():
            warnings.simplefilter('ignore')
            return np.asarray(eval_fixed(models, d_obj, method=method).evaluations, dtype=float)
    before = run(data.copy(), mods.copy())
    after = run(_monotone(case['f'], data.copy()), _monotone(case['g'], mods.copy()))
    want = np.empty((1, mods.shape[0], data.shape[0]))
    for m in range(mods.shape[0]):
        for r in range(data.shape[0]):
            want[0, m, r] = _spec_sim(method, [float(t) for t in mods[m]], [float(t) for t in data[r]])
    d = _vec_diff(after, before, 1e-10)
    if d:
        return (f'eval_fixed(method={method}): evaluations changed when data went through {case["f"]} and models through '
                f'{case["g"]}: before {before.tolist()}, after {after.tolist()} ({d})')
    d = _vec_diff(after, want, 1e-10)
    if d:
        return f'eval_fixed(method={method}) after the transforms {after.tolist()} differs from the pair/rank-counted {want.tolist()} ({d})'
    return None


# =====================================================================================================================
# domains
# =====================================================================================================================
def _weak_orders(m):
    """all level vectors of length m using exactly the levels 0..k-1 (= all weak orders of m entries)"""
    out = []
    for levels in itertools.product(range(m), repeat=m):
        k = max(levels) + 1
        if len(set(levels)) == k:
            out.append(list(levels))
    return out


def _rows_with_missing(m, max_nan):
    """all weak orders of m entries of which at most max_nan (and fewer than m) are missing"""
    cache = {}
    rows = []
    for k in range(0, max_nan + 1):
        if m - k < 1:
            break
        if m - k not in cache:
            cache[m - k] = _weak_orders(m - k)
        for pos in itertools.combinations(range(m), k):
            for wo in cache[m - k]:
                it = iter(wo)
                rows.append([None if i in pos else next(it) for i in range(m)])
    return rows


def _seeded_rows(seed, n_cond, n_rdm):
    """random level rows (levels 0..5, so many ties) for n_cond conditions, each RDM missing 0-3 entries of its own"""
    rs = np.random.RandomState(seed)
    m = _n_pairs(n_cond)
    rows = []
    for _ in range(n_rdm):
        row = [int(x) for x in rs.randint(0, 6, m)]
        for pos in rs.permutation(m)[:rs.randint(0, 4)]:
            row[int(pos)] = None
        rows.append(row)
    return rows


def _stacks(rows, size, seed):
    """deterministically shuffled rows, chunked into stacks (so RDMs of one stack miss different entries)"""
    rs = np.random.RandomState(seed)
    rows = [rows[i] for i in rs.permutation(len(rows))]
    return [rows[i:i + size] for i in range(0, len(rows), size)]


def tier_c(run, thorough):
    bds = []
    rows3 = _rows_with_missing(3, 2)                       # 25 rows
    rows6 = _rows_with_missing(6, 2 if thorough else 0)    # 9054 / 4683 rows
    rows6_some_nan = [] if thorough else _stacks(_rows_with_missing(6, 2)[4683:], 1, 5)[:400]
    rows6_some_nan = [r[0] for r in rows6_some_nan]

    # ---- rank_transform ------------------------------------------------------------------------------------------
    bd = Bounded(run, 'C17/rank', 'C17/rank_transform/oracle/ranks-among-non-missing',
                 'ALL weak orders of 3 entries (<= 2 missing) and of 6 entries (%s), in stacks of 3 RDMs on different value '
                 'ranges, x 5 tie methods + default argument; plus %d seeded stacks (1-4 RDMs, 5-7 conditions, 6 levels, 0-3 missing each) x 5 '
                 'tie methods; source names / descriptor kinds rotated'
                 % ('<= 2 missing' if thorough else 'none missing; plus 400 seeded rows with 1-2 missing', 300 if thorough else 40),
                 exhaustive=True, function='rank_transform')
    i = 0
    for n_cond, rows in ((3, rows3), (4, rows6 + rows6_some_nan)):
        for st in _stacks(rows, 3, 17):
            for method in RANK_METHODS + (None,):
                if method is None and i % 7:
                    i += 1
                    continue
                i += 1
                has_nan = any(x is None for r in st for x in r)
                bd.check(orc_rank, dict(n_cond=n_cond, rows=st, method=method, measure=MEASURES[i % len(MEASURES)],
                                        desc=DESC_KINDS[i % len(DESC_KINDS)]),
                         ('with-missing' if has_nan else 'complete') + (',default-method' if method in (None, 'average') else ',tie-method'),
                         function='rank_transform')
    for seed in range(300 if thorough else 40):
        n_cond = 5 + seed % 3
        st = _seeded_rows(seed, n_cond, 1 + seed % 4)
        has_nan = any(x is None for r in st for x in r)
        for method in RANK_METHODS:
            bd.check(orc_rank, dict(n_cond=n_cond, rows=st, method=method, measure=MEASURES[seed % len(MEASURES)],
                                    desc=DESC_KINDS[seed % len(DESC_KINDS)]),
                     ('with-missing' if has_nan else 'complete') + (',default-method' if method == 'average' else ',tie-method'),
                     function='rank_transform')
    bd.done()
    bds.append(bd)

    # ---- sqrt / positive -----------------------------------------------------------------------------------------
    bd = Bounded(run, 'C17/elementwise', 'C17/sqrt_transform,positive_transform/oracle/elementwise-map',
                 'ALL weak orders of 3 entries (<= 2 missing) and of 6 entries (%s) over three palettes with negatives, zero, '
                 '1e6; stacks of 3; plus %d seeded stacks (1-4 RDMs, 5-7 conditions, 0-3 missing each); sqrt and positive'
                 % ('<= 2 missing' if thorough else 'none missing, + 400 seeded rows with missing', 300 if thorough else 40),
                 exhaustive=True, function='sqrt_transform')
    i = 0
    for n_cond, rows in ((3, rows3), (4, rows6 + rows6_some_nan)):
        for st in _stacks(rows, 3, 23):
            for which in ('sqrt', 'positive'):
                i += 1
                bd.check(orc_elementwise, dict(which=which, n_cond=n_cond, rows=st, measure=MEASURES[i % len(MEASURES)],
                                               desc=DESC_KINDS[i % len(DESC_KINDS)]),
                         which, function=which + '_transform')
    for seed in range(300 if thorough else 40):
        n_cond = 5 + seed % 3
        for which in ('sqrt', 'positive'):
            bd.check(orc_elementwise, dict(which=which, n_cond=n_cond, rows=_seeded_rows(seed, n_cond, 1 + seed % 4),
                                           measure=MEASURES[seed % len(MEASURES)], desc=DESC_KINDS[seed % len(DESC_KINDS)]),
                     which, function=which + '_transform')
    bd.done()
    bds.append(bd)

    # ---- minmax --------------------------------------------------------------------------------------------------
    bd = Bounded(run, 'C17/minmax', 'C17/minmax_transform/oracle/affine-increasing-onto-unit-interval',
                 'ALL non-constant weak orders of 3 and 6 entries (complete RDMs) in stacks of 3 on different ranges; plus '
                 '%d seeded stacks (1-4 RDMs, 3-7 conditions, scales 0.01..100, offsets +-50, with / without ties)'
                 % (200 if thorough else 60), exhaustive=True, function='minmax_transform')
    i = 0
    for n_cond, m in ((3, 3), (4, 6)):
        rows = [r for r in _weak_orders(m) if max(r) > 0]
        for st in _stacks(rows, 3, 29):
            i += 1
            bd.check(orc_minmax, dict(n_cond=n_cond, rows=st, measure=MEASURES[i % len(MEASURES)], desc=DESC_KINDS[i % len(DESC_KINDS)]),
                     'enumerated', function='minmax_transform')
    for seed in range(200 if thorough else 60):
        bd.check(orc_minmax, dict(seed=seed, n_rdm=1 + seed % 4, n_cond=3 + seed % 5, ties=bool(seed % 2),
                                  measure=MEASURES[seed % len(MEASURES)], desc=DESC_KINDS[seed % len(DESC_KINDS)]),
                 'seeded', function='minmax_transform')
    bd.done()
    bds.append(bd)

    # ---- geotopological ------------------------------------------------------------------------------------------
    qs = (0.0, 0.1, 0.25, 0.5, 0.75, 0.9, 1.0)
    bd = Bounded(run, 'C17/geotopological', 'C17/geotopological_transform/oracle/clipped-linear-between-quantiles',
                 'seeded stacks (1-3 RDMs, 4-7 conditions; %d seeds) of three kinds (all values >= 1; non-negative with values '
                 'below 1; with negative values), with / without ties, x all %d pairs low < up from %s with distinct thresholds'
                 % (6 if thorough else 2, len(qs) * (len(qs) - 1) // 2, list(qs)), function='geotopological_transform')
    i = 0
    for kind in ('values>=1', 'nonneg-below-1', 'has-negatives'):
        for seed in range(6 if thorough else 2):
            for ties in (False, True):
                for low, up in itertools.combinations(qs, 2):
                    i += 1
                    case = dict(seed=seed, n_rdm=1 + (seed + i) % 3, n_cond=4 + (seed + i) % 4, kind=kind, ties=ties,
                                low=low, up=up, measure=MEASURES[i % len(MEASURES)], desc=DESC_KINDS[i % len(DESC_KINDS)])
                    if geotop_valid(case):
                        bd.check(orc_geotopological, case, kind, function='geotopological_transform')
    bd.done()
    bds.append(bd)

    # ---- geodesic ------------------------------------------------------------------------------------------------
    bd = Bounded(run, 'C17/geodesic', 'C17/geodesic_transform/oracle/shortest-paths-without-maximal-edges',
                 'seeded stacks: 1-3 RDMs, 3-7 conditions, with / without ties, %d seeds; literal clause' % (40 if thorough else 12),
                 function='geodesic_transform')
    for seed in range(40 if thorough else 12):
        bd.check(orc_geodesic, dict(seed=seed, n_rdm=1 + seed % 3, n_cond=(4, 5, 6, 7, 3)[seed % 5], ties=bool(seed % 2),
                                    measure=MEASURES[seed % len(MEASURES)], desc=DESC_KINDS[seed % len(DESC_KINDS)]),
                 'all-inputs', function='geodesic_transform')
    bd.done()
    bds.append(bd)
    # (the regression guard C17/geodesic-nonzero-edges that pinned the behaviour modulo the lost zero-weight edges was dropped
    #  when finding F3 was repaired in /repo 460a14c7; its enumerated domain now runs under the literal clause)
    bd = Bounded(run, 'C17/geodesic-enumerated', 'C17/geodesic_transform/oracle/shortest-paths-without-maximal-edges',
                 'literal clause on ALL non-constant weak orders of 3 and 6 entries in stacks of 3; plus %d seeded stacks '
                 '(1-3 RDMs, 3-8 conditions, with / without ties)' % (150 if thorough else 40),
                 exhaustive=True, function='geodesic_transform')
    i = 0
    for n_cond, m in ((3, 3), (4, 6)):
        rows = [r for r in _weak_orders(m) if max(r) > 0]
        for st in _stacks(rows, 3, 31):
            i += 1
            bd.check(orc_geodesic, dict(n_cond=n_cond, rows=st, measure=MEASURES[i % len(MEASURES)],
                                        desc=DESC_KINDS[i % len(DESC_KINDS)]), 'enumerated', function='geodesic_transform')
    for seed in range(150 if thorough else 40):
        bd.check(orc_geodesic, dict(seed=seed, n_rdm=1 + seed % 3, n_cond=3 + seed % 6, ties=bool(seed % 2)),
                 'seeded', function='geodesic_transform')
    bd.done()
    bds.append(bd)

    # ---- custom transform ----------------------------------------------------------------------------------------
    bd = Bounded(run, 'C17/custom', 'C17/transform/oracle/applies-function-to-vectors',
                 '6 functions (incl. array-shape dependent ones) x 1-3 RDMs x 3-5 conditions x with / without a missing entry',
                 function='transform')
    i = 0
    for fun in ('cbrt', 'square', 'affine', 'neg', 'rowcenter', 'colindex'):
        for n_rdm in (1, 2, 3):
            for n_cond in (3, 4, 5):
                for nan in (False, True):
                    i += 1
                    bd.check(orc_custom, dict(seed=i, n_rdm=n_rdm, n_cond=n_cond, fun=fun, nan=nan,
                                              measure=MEASURES[i % len(MEASURES)], desc=DESC_KINDS[i % len(DESC_KINDS)]),
                             fun, function='transform')
    bd.done()
    bds.append(bd)

    # ---- descriptors and measure names ---------------------------------------------------------------------------
    bd = Bounded(run, 'C17/descriptors-measure', 'C17/rdm.transform/oracle/descriptors-and-measure-name',
                 'ALL 7 transforms x 7 source measure names (None, squared euclidean / mahalanobis, plain, already ranked, ...) x 4 '
                 'descriptor kinds (none, scalars+dict, list-typed with own index, numpy arrays) x (n_rdm, n_cond) in '
                 '{(1,3), (3,5)}; rank also with every tie method', exhaustive=True, function='rdm.transform')
    for tname in TRANSFORMS:
        pars = [None] if tname != 'rank' else [None] + list(RANK_METHODS)
        for par in pars:
            for measure in MEASURES:
                for kind in DESC_KINDS:
                    for n_rdm, n_cond in ((1, 3), (3, 5)):
                        bd.check(orc_meta, dict(transform=tname, par=par, measure=measure, desc=kind, n_rdm=n_rdm, n_cond=n_cond),
                                 tname, function=tname + '_transform' if tname != 'custom' else 'transform')
    bd.done()
    bds.append(bd)
    bd = Bounded(run, 'C17/measure-updated', 'C17/rdm.transform/oracle/measure-name-updated',
                 'ALL 7 transforms x 7 source measure names', exhaustive=True, function='rdm.transform')
    for tname in TRANSFORMS:
        for measure in MEASURES:
            bd.check(orc_measure_updated, dict(transform=tname, measure=measure, n_rdm=2, n_cond=4),
                     'positive_transform:name-kept' if tname == 'positive' else tname,
                     function=tname + '_transform' if tname != 'custom' else 'transform')
    bd.done()
    bds.append(bd)

    # ---- rank-based measures under strictly increasing maps ------------------------------------------------------
    plain = ['id', 'scale:1e-13', 'scale:3.7', 'scale:1e6', 'shift:5000', 'shift:-3', 'affine', 'cbrt', 'cube', 'exp', 'arctan',
             'lib:cbrt', 'lib:rank-average', 'lib:rank-min', 'lib:rank-max', 'lib:rank-dense', 'lib:minmax']
    maps_for = {
        'lattice': plain,
        'nonneg': plain + ['sqrt', 'lib:sqrt', 'lib:positive'],
        'distinct': plain + ['sqrt', 'lib:sqrt', 'lib:positive', 'lib:rank-ordinal'],
        # nearly equal / tiny values: only maps that keep them distinct in floating point
        'close': ['id', 'scale:1e-13', 'scale:3.7', 'scale:1e6', 'shift:-3', 'lib:rank-average', 'lib:rank-dense', 'lib:minmax',
                  'lib:rank-ordinal'],
        'tiny': ['id', 'scale:3.7', 'scale:1e6', 'cbrt', 'sqrt', 'lib:sqrt', 'lib:cbrt', 'lib:positive', 'lib:rank-min', 'lib:minmax'],
    }
    n_seed = 8 if thorough else 1
    bd = Bounded(run, 'C17/rank-invariance', 'C17/compare/oracle/rank-measures-invariant-under-increasing-maps',
                 '5 rank-based methods x 5 kinds of data (ties+negatives, non-negative ties, tie-free, values 1e-9 apart, 1e-13 scale) '
                 'x every applicable map of %d (scalings 1e-13..1e6, shifts, cbrt, cube, exp, arctan, sqrt, library sqrt / positive / '
                 'rank (5 tie methods) / minmax / transform) on the first, the second and (a rotating partner) both stacks; 0 or 2 '
                 'common missing entries; 4-6 conditions; %d seed(s)' % (len(set(sum(maps_for.values(), []))), n_seed),
                 function='compare')
    i = 0
    for kind, maps in maps_for.items():
        for method in RANK_SIMS:
            for seed in range(n_seed):
                for q, f in enumerate(maps):
                    partner = maps[(q + 3 + seed) % len(maps)]
                    for (ff, gg) in ((f, 'id'), ('id', f), (f, partner)):
                        i += 1
                        n_nan = 2 if (i % 3 == 0 and ff not in NO_NAN and gg not in NO_NAN) else 0
                        if not thorough and method == 'kendall' and (ff, gg) != (f, partner):
                            continue       # 'kendall' is an alias of 'tau-b'
                        bd.check(orc_rank_invariance,
                                 dict(seed=seed, n_cond=4 + i % 3, n_rdm=[1 + i % 2, 1 + (i // 2) % 2], kind=kind, n_nan=n_nan,
                                      f=ff, g=gg, method=method),
                                 f'{method},{kind}', function='compare')
    bd.done()
    bds.append(bd)

    # ---- cosine-type under scaling, correlation-type under affine maps -------------------------------------------
    bd = Bounded(run, 'C17/scale-affine-invariance', 'C17/compare/oracle/cosine-scaling-correlation-affine',
                 'cosine, cosine_cov (sigma_k none / vector / matrix) under x -> a*x; corr, corr_cov (same sigma_k) under x -> a*x+b; '
                 'a in {1e-3, 0.5, 1, 7, 1e3} (+ extreme units 1e-26 .. 1e12 with b = 0), b in {0, -2, 30}; arrays and transform(fun); 4-6 conditions, 1-3 RDMs per stack, '
                 'with / without ties, 0 or 2 common missing entries (not with matrix sigma_k); %d seed(s)' % (3 if thorough else 1),
                 function='compare')
    scales = (1e-3, 0.5, 1.0, 7.0, 1e3)
    shifts = (0.0, -2.0, 30.0)
    i = 0
    for seed in range(3 if thorough else 1):
        for method, sigmas in (('cosine', ('none',)), ('corr', ('none',)), ('cosine_cov', ('none', 'vector', 'matrix')),
                               ('corr_cov', ('none', 'vector', 'matrix'))):
            for sigma in sigmas:
                for a1 in scales:
                    for a2 in (scales if thorough else (1.0, 7.0, 1e-3)):
                        for b1 in (shifts if method.startswith('corr') else (0.0,)):
                            i += 1
                            b2 = 0.0 if method.startswith('cosine') else shifts[i % 3]
                            n_nan = 2 if (i % 4 == 0 and sigma != 'matrix') else 0
                            bd.check(orc_scale_affine,
                                     dict(seed=seed * 100 + i % 5, n_cond=4 + i % 3, n_rdm=[1 + i % 3, 1 + (i // 3) % 2], method=method,
                                          sigma=sigma, a1=a1, b1=b1, a2=a2, b2=b2, via='lib' if i % 2 else 'array', ties=bool(i % 5 == 0),
                                          n_nan=n_nan),
                                     f'{method},sigma_k={sigma}' + (',with-missing' if n_nan else ''), function='compare')
    # extreme physical units (e.g. squared field strengths in Tesla^2 ~ 1e-26): no absolute threshold may turn a small RDM into a zero RDM
    for j, (method, sigma) in enumerate((('cosine', 'none'), ('corr', 'none'), ('cosine_cov', 'none'), ('corr_cov', 'none'),
                                         ('cosine_cov', 'vector'), ('corr_cov', 'matrix'))):
        for a1, a2 in ((1e-18, 1.0), (1e-26, 1e-26), (1.0, 1e-20), (1e12, 1e-15)):
            bd.check(orc_scale_affine,
                     dict(seed=900 + j, n_cond=5, n_rdm=[2, 2], method=method, sigma=sigma, a1=a1, b1=0.0, a2=a2, b2=0.0,
                          via='array' if j % 2 else 'lib', ties=False, n_nan=0),
                     f'{method},sigma_k={sigma},extreme-scale', function='compare')
    bd.done()
    bds.append(bd)

    # ---- evaluations ---------------------------------------------------------------------------------------------
    bd = Bounded(run, 'C17/evaluation', 'C17/eval_fixed/oracle/rank-based-evaluation-invariant',
                 'eval_fixed with 2 fixed models, 2-3 data RDMs, 4-5 conditions; 4 rank-based methods x library transforms (sqrt, '
                 'rank average / dense, minmax, transform(cbrt)) of data and / or models; non-negative data with ties, tie-free, '
                 '1e-13 scale', function='eval_fixed')
    libs = {'nonneg': ['lib:sqrt', 'lib:rank-average', 'lib:rank-dense', 'lib:minmax', 'lib:cbrt'],
            'distinct': ['lib:sqrt', 'lib:rank-average', 'lib:minmax'],
            'tiny': ['lib:sqrt', 'lib:cbrt', 'lib:minmax']}
    i = 0
    for kind, maps in libs.items():
        for method in ('spearman', 'rho-a', 'tau-a', 'tau-b'):
            for q, f in enumerate(maps):
                for ff, gg in ((f, 'id'), ('id', f), (f, maps[(q + 1) % len(maps)])):
                    i += 1
                    bd.check(orc_evaluation, dict(seed=i % 4, n_cond=4 + i % 2, n_rdm=2 + i % 2, kind=kind, method=method, f=ff, g=gg),
                             f'{method},{kind}', function='eval_fixed')
    bd.done()
    bds.append(bd)
    return bds
