"""C16 -- saving and loading returns an equal object for every type and file format."""
import z3

from vf.pyvc.values import V, SV, Obj, SeqV, CaseV, ArrV, DictV, Undecided, fresh_name
from vf.pyvc.api import FuncCheck
from vf.pyvc.core import Contract
from contracts.common import new_engine, finish_engine
from contracts._wrap import finish, replay  # noqa

LEVEL = 'exploration'
H5 = 'rsatoolbox.io.hdf5.'


def check_writer_totality(run, E):
    """_write_to_group: for every admitted value type, exactly one store under the entry's key happens
    (dataset, attribute, sub-group or list writer) -- no value type is silently dropped"""
    log = []

    def g_set(E, g, key, v):
        log.append(('dataset', key))
    E.methods[('Group', '__setitem__')] = g_set
    E.methods[('Attrs', '__setitem__')] = lambda E, g, key, v: log.append(('attr', key))

    def create_group(E, g, key):
        log.append(('group', key))
        return Obj(z3.Const(fresh_name('grp'), V), 'Group')
    E.methods[('Group', 'create_group')] = create_group
    E.schemas['Group'] = {'attrs': 'obj:Attrs'}
    E.contracts[H5 + '_write_list'] = Contract(H5 + '_write_list', define=lambda E, group, key, value: log.append(('list', key)))
    E.inline |= {H5 + '_write_to_group'}

    def tuple_of(*xs):
        return tuple(xs)
    cases = {
        'str': lambda E: E.sym_val('v', tag='str'),
        'python-str': lambda E: 'text',
        'ndarray': lambda E: E.sym_val('v', tag='ndarray'),
        'list': lambda E: E.sym_list('v'),
        'empty-dict': lambda E: DictV({}),
        'nested-dict': lambda E: DictV({'inner': E.sym_val('w', tag='ndarray')}),
        'None': lambda E: None,
        'int': lambda E: E.sym_int('v'),
        'float': lambda E: SV(z3.Real('v'), 'real'),
        'bool': lambda E: True,
        'tuple-of-numbers': lambda E: tuple_of(E.sym_int('a'), E.sym_int('b')),
        'tuple-of-str': lambda E: tuple_of('a', 'b'),
        'tuple-of-arrays': lambda E: tuple_of(E.sym_val('a', tag='ndarray'), E.sym_val('b', tag='ndarray')),
    }
    for name, gen in cases.items():
        ck = FuncCheck(E, run, 'C16', H5 + '_write_to_group', f'value={name}')

        def mk(E, gen=gen):
            log.clear()
            return [Obj(z3.Const('group', V), 'Group'), DictV({'k': gen(E)})], {}, []

        def post(ck, E, args, kw, p, name=name):
            stores = [x for x in log if x[1] == 'k']
            ck.ensure('post/value-is-stored-under-its-key', z3.BoolVal(len(stores) == 1),
                      note=f'stores under key k: {log}')
            if name == 'nested-dict':
                ck.ensure('post/nested-entries-are-stored-too', z3.BoolVal(any(x[1] == 'inner' for x in log)))
        ck.execute(mk, post=post, allow_raise=lambda *a: None)
        yield ck
    del E.contracts[H5 + '_write_list']


def check_rdms_dict(run, E):
    """dictionary form of RDMs: to_dict stores EVERY defining field under its own key (nothing dropped or regenerated:
    dissimilarities, descriptors, rdm_descriptors incl. index, pattern_descriptors incl. index, measure); rdms_from_dict builds
    the object from exactly these entries (descriptor dictionaries through dict_to_list); hence from_dict(to_dict(x)) has x's fields"""
    from contracts.common import install_rdms
    RD = 'rsatoolbox.rdm.rdms.'
    fields = ('dissimilarities', 'descriptors', 'rdm_descriptors', 'pattern_descriptors', 'dissimilarity_measure')
    ck = FuncCheck(E, run, 'C16', RD + 'RDMs.to_dict', '')

    def post_to(ck, E, args, kw, p):
        res = p.value
        ok = isinstance(res, DictV)
        ck.ensure('post/returns-a-dictionary', z3.BoolVal(ok), structure=True)
        if not ok:
            return
        ck.ensure('post/exactly-the-defining-fields-are-stored', z3.BoolVal(set(res.d) == set(fields)),
                  note=f'keys: {sorted(res.d)}')
        for f in fields:
            if f in res.d:
                ck.ensure_eq(f'post/{f}-is-the-objects-own-value', res.d[f], E.getattr(args[0], f))
    ck.execute(lambda E: ([E.sym_obj('self', 'RDMs')], {}, []), post=post_to, allow_raise=lambda *a: None)
    yield ck
    ck = FuncCheck(E, run, 'C16', RD + 'rdms_from_dict', '')
    hold = {}

    def mk(E):
        d = DictV({f: E.sym_val('d_' + f) for f in fields})
        hold['d'] = d
        return [d], {}, []

    def post_from(ck, E, args, kw, p):
        res, d = p.value, hold['d']
        ok = isinstance(res, Obj) and res.cls == 'RDMs'
        ck.ensure('post/returns-an-RDMs-object', z3.BoolVal(ok), structure=True)
        if not ok:
            return
        for f in ('dissimilarities', 'descriptors', 'dissimilarity_measure'):
            ck.ensure_eq(f'post/{f}-taken-from-the-dictionary', res.fields.get(f), d.d[f])
        for f in ('rdm_descriptors', 'pattern_descriptors'):
            ck.ensure_eq(f'post/{f}-taken-from-the-dictionary-(lists-restored)', res.fields.get(f),
                         E.app('rsatoolbox.util.descriptor_utils.dict_to_list', [d.d[f]]))
    ck.execute(mk, post=post_from, allow_raise=lambda *a: None)
    yield ck


def run(run):
    E = new_engine(run)
    fails = []
    for ck in check_writer_totality(run, E):
        fails += ck.failed
    for ck in check_rdms_dict(run, new_engine(run)):
        fails += ck.failed
    finish_engine(E, run)
    run.trust('h5py / pickle are assumed dependencies; object <-> dict conversions and real file round trips are decided by the bounded tier')
    finish(run, fails, 'C16')
    run.explanation = ('engine A: totality of the HDF5 writer over the admitted value types (no silent drop), per type case on the real AST; '
                       'bounded tier: real file round trips in temporary directories for all object kinds, formats and targets')
