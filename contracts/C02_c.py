"""C02 (bounded run-time tier) -- cross-validated distances are the mean of between-fold products only.

Every oracle builds a fold-balanced Dataset from explicit row label lists (conditions, folds) and a seed, calls the REAL
public functions (`rsatoolbox.rdm.calc_rdm(method='crossnobis'|'poisson_cv')`, `calc_rdm_crossnobis`,
`calc_rdm_poisson_cv`, and `_gen_default_cv_descriptor` which the property's anchors name) and compares with the property
statement computed literally in `_spec`: fold-wise condition means picked row by row, then for every pair of conditions
the plain average over ALL ORDERED pairs (m, n), m != n, of the bilinear form.  No repo code is asked for an expected
value.  The observed RDM is always read through its own `pattern_descriptors[<condition descriptor>]`, i.e. the value
compared for (a, b) is the one the library labels (a, b) -- that is the clause "conditions are labelled by the
dataset's condition descriptor".

Clause of the property                                                        oracle
---------------------------------------------------------------------------  ------------------------------------------
crossnobis(a,b) = mean over ordered pairs m != n of                           C02/crossnobis-value  (orc_crossnobis)
  (x_am-x_bm) N (x_an-x_bn)' / P on fold-wise condition means;                  seeded designs, all label kinds, all noise
  identity if no precision; one precision; one precision per fold               forms, both entry points
  (pair precision = inverse of the mean of the two folds' covariances,        C02/crossnobis-all-row-orders (same oracle,
  precision i belongs to the i-th fold label in sorted order);                  exhaustive over the row orders of small
  remove_mean = channel mean of every pattern removed                           designs, integer sentinel data)
products of a fold with itself never contribute                               C02/fold-contributions (orc_contributions,
  (fold differences on disjoint channels -> every cross product is 0,           kind 'orthogonal': must be 0, the within-fold
  every within-fold product is large)                                            products would give >= 1)
every fold contributes (every ordered pair exactly once, equally weighted)    C02/fold-contributions (kind 'powers': the
                                                                                difference in fold m is 2^m on one channel,
                                                                                so each pair owns its own binary digit)
invariance to observation order / fold relabelling (ints in another order,    C02/invariances (orc_invariances): real result
  negative, float, string labels; per-fold precisions follow their fold) /      on the transformed dataset == real result on
  channel order with the precision permuted alike / all three at once           the base dataset (and the base one == spec)
default fold descriptor: k-th occurrence of a condition is fold k             C02/default-descriptor (orc_default_descriptor,
                                                                                the partition + order of the generated labels,
                                                                                exhaustive over balanced label sequences) and
                                                                              C02/default-folds (orc_default_folds: the
                                                                                crossnobis / poisson_cv value with
                                                                                cv_descriptor=None == spec with folds counted
                                                                                by occurrence)
poisson_cv(a,b) = mean over ordered pairs m != n of                           C02/poisson-value (orc_poisson), plus fold
  (l_am-l_bm).(log l_an - log l_bn) / P, l = (mean + lambda*w)/(1+w)            relabelling of poisson_cv; input_class
                                                                                'poisson_cv' (finding F1: up to 90de72c3 only
                                                                                the last fold was returned; repaired in /repo
                                                                                9bef06dc, see C02_findings.md)
poisson_cv: no within-fold product, observation / channel order invariance,   C02/poisson-structure (orc_poisson_structure):
  labels, default folds == explicit occurrence folds                            the part of the poisson clause that a
                                                                                last-fold-only estimator still satisfies, kept
                                                                                apart so that it stays a live regression guard

Dimension sweeps (domains 8-14; the same clauses on inputs the domains 1-7 keep fixed; every expected value is again `_spec`)
---------------------------------------------------------------------------  ------------------------------------------
"for all ... values": measurements stored as uint8 / int16 / int32 (range     C02/typed-data (orc_crossnobis, case key
  of the type filled) / float32 / int64 counts == definition on the same        `data`), C02/poisson-dimensions (orc_poisson)
  values as float64; integer-typed precision matrices
"for all ... values", "all precisions": data in units of 1e-26 .. 1e12,       C02/units (case keys `unit`, `noise_unit`;
  precisions in the matching unit u^-2 (and u^2, 1); tolerance relative to       tolerance scaled by u*u*v, see _natural_scale),
  the unit, so absolute thresholds in the library show                          poisson_cv rates x 1e-3 .. 1e9
"all condition and fold label types" / "labelled by the dataset's condition   C02/containers (case keys `container`,
  descriptor": descriptors as tuple / ndarray / object ndarray / int8           `desc_order`, `decoy_cv_desc`; bool folds),
  ndarray, condition descriptor last in the dict among unrelated ones,          C02/poisson-dimensions
  bool fold labels, default folds although a 'cv_desc' descriptor exists
"number of conditions, folds, repetitions, channels": up to 16 conditions,    C02/sizes, C02/poisson-dimensions
  20 folds (>= 10 fold labels with per-fold precisions), 64 channels; one
  condition (no pair: one labelled condition, no failure)
the value is a function of the arguments of THIS call: sequences A/NA, B/NB,  C02/call-sequence (orc_sequence)
  A/NA, A/NB; same call twice agrees; a returned RDM keeps its values; the
  dataset and the precision objects handed over are unchanged
the same in a new interpreter with another PYTHONHASHSEED (string labels)      C02/fresh-interpreter (orc_fresh)
Not applicable to C02: remainders, existing output files, competitor sets, file / dict item order other than the descriptor dict.

Findings on the current tree: none open (F1, F2a-c of C02_findings.md are repaired in /repo; their input classes are kept in the
domains C02/poisson-value and C02/default-folds-many-repetitions as regression guards).

NOT covered by this tier
* "for all datasets": everything is bounded (sizes in the `domain` strings); the all-reals identities are engine B's.
* designs that are NOT fold-balanced (the property's hypothesis), TemporalDataset inputs, a `noise` dict, the
  list-of-datasets branch of calc_rdm (C01 owns the option plumbing there), non-symmetric "precisions", a tuple of precisions
  (the library documents a list), vector-valued (2-D) descriptors (not a label type of the property).
* the rdm_descriptors ('noise', 'cv_descriptor') of the result.
* NaN / infinite measurements; poisson_cv on negative data (log of a negative rate); float16 data; poisson_cv rates below 1e-3
  of the prior (the definition itself cancels catastrophically there).
"""
import itertools
import warnings

import numpy as np

from vf.rt.harness import oracle, Bounded, close

COND_LABELS = {
    'int': [0, 1, 2, 3, 4, 5],
    'int-unordered': [3, 10, 6, 2, 9, 5],
    'str': ['c', 'a', 'd', 'b', 'f', 'e'],
    'str-long': ['cond10', 'cond2', 'cond1', 'cond21', 'cond3', 'cond0'],
    'float': [0.5, -1.25, 2.0, 0.25, 10.0, -3.5],
}
FOLD_LABELS = {
    'int': [0, 1, 2, 3, 4, 5, 6, 7],
    'int-unordered': [5, 2, 9, -1, 7, 0, 12, 3],
    'float': [0.5, 0.25, 1.5, -2.0, 3.75, 1.0, 2.5, -0.125],
    'str': ['run_b', 'run_a', 'run_d', 'run_c', 's', 'r', 'run_10', 'run_9'],
}


# ------------------------------------------------------------------------------------------------ builders
def _py(v):
    return v.item() if isinstance(v, np.generic) else v


def _label_pool(kind, n, pools, stem):
    """label kinds beyond the fixed pools: '-big' kinds generate any number of labels whose first-appearance order is not the
    sorted order (ints: 3, 40, 77, 13, ... = 37 i + 3 mod 101; strings: 'c0', 'c1', .., 'c10' < 'c2' in string order), 'bool' is (False, True)"""
    if kind == 'int-big':
        return [(37 * i + 3) % 101 for i in range(n)]
    if kind == 'str-big':
        return ['%s%d' % (stem, i) for i in range(n)]
    if kind == 'bool':
        return [False, True][:n]
    if kind == 'int-huge':       # date codes / time stamps: large magnitude, consecutive values (relative difference 5e-8)
        return [20240101 + ((7 * i + 3) % 31) for i in range(n)]
    if kind == 'float-huge':     # the same as floats
        return [1.7e9 + ((5 * i + 2) % 17) for i in range(n)]
    if kind == 'float-big':      # any number of float labels, first appearance not sorted, not integer-valued
        return [((37 * i + 3) % 101) / 4.0 + 0.125 for i in range(n)]
    return pools[kind][:n]


def _design(C, M, R, ckind='int', fkind='int', order='fold-major', seed=0):
    """row label lists of the balanced design C conditions x M folds x R repetitions"""
    cl = _label_pool(ckind, C, COND_LABELS, 'c')
    fl = list(range(M)) if fkind == 'int' else _label_pool(fkind, M, FOLD_LABELS, 'run')
    assert len(cl) == C and len(fl) == M, 'label pool too small'
    rows = [(cl[c], fl[m]) for m in range(M) for c in range(C) for _ in range(R)]
    if order == 'cond-major':
        rows = [(cl[c], fl[m]) for c in range(C) for m in range(M) for _ in range(R)]
    elif order == 'reversed':
        rows = rows[::-1]
    elif order == 'shuffled':
        perm = np.random.RandomState(1000 + seed).permutation(len(rows))
        rows = [rows[i] for i in perm]
    return [r[0] for r in rows], [r[1] for r in rows]


def _check_balanced(conds, folds):
    uc, uf = sorted(set(conds)), sorted(set(folds))
    counts = {(c, f): 0 for c in uc for f in uf}
    for c, f in zip(conds, folds):
        counts[(c, f)] += 1
    vals = set(counts.values())
    if len(vals) != 1 or 0 in vals or len(uf) < 2:
        return 'GENERATOR ERROR: the case is not a fold-balanced design with >= 2 folds'
    return None


def _data(case, conds):
    """measurement matrix, deterministic in (seed, conds, P, data kind); rows follow `conds`"""
    rs = np.random.RandomState(case['seed'])
    uc = sorted(set(conds))
    ci = np.array([uc.index(c) for c in conds])
    P = case['P']
    kind = case.get('data', 'gauss')
    if kind in ('gauss', 'float32'):    # condition specific pattern + condition specific non-zero channel mean + noise
        mu = 2.0 * rs.randn(len(uc), P) + (1.0 + 2.0 * np.arange(len(uc)))[:, None]
        X = (mu[ci] + rs.randn(len(conds), P)) * case.get('unit', 1.0)      # 'unit': the same data in another physical unit
        return X.astype(np.float32) if kind == 'float32' else X             # 'float32': stored in single precision
    if kind in ('uint8', 'int16', 'int32'):
        # integer-typed measurements that fill the range of their type: the sum of two rows does not fit the type, a difference
        # of unsigned values would wrap, a fold mean is not an integer
        hi = {'uint8': 255, 'int16': 32767, 'int32': 2 ** 31 - 1}[kind]
        lo = 0 if kind == 'uint8' else -hi
        span = (hi - lo) // 4
        mu = rs.randint(lo + span, hi - span + 1, size=(len(uc), P))
        return (mu[ci] + rs.randint(-span, span + 1, size=(len(conds), P))).astype(kind)
    if kind == 'int':       # small integers: exactly representable, every row distinct
        return rs.randint(-9, 10, size=(len(conds), P)).astype(float) + 0.25 * np.arange(len(conds))[:, None]
    if kind == 'counts':    # spike counts incl. zeros ('unit': the same counts as a rate per other time unit)
        lam = 4.0 * np.exp(0.8 * rs.randn(len(uc), P))
        return rs.poisson(lam[ci]).astype(float) * case.get('unit', 1.0)
    if kind in ('counts-uint8', 'counts-int32'):    # counts stored in a small / large integer type, close to its upper end
        lam = 4.0 * np.exp(0.8 * rs.randn(len(uc), P))
        k = rs.poisson(lam[ci])
        top = max(1, int(k.max()))
        if kind == 'counts-uint8':
            return np.minimum(k * max(1, 255 // top), 255).astype(np.uint8)
        return (k * ((2 ** 31 - 1) // top)).astype(np.int32)
    if kind == 'counts-positive':    # counts >= 1: rates stay positive without any prior (prior_weight = 0 / prior_lambda = 0)
        lam = 4.0 * np.exp(0.8 * rs.randn(len(uc), P))
        return 1.0 + rs.poisson(lam[ci]).astype(float)
    if kind == 'counts-int':    # the same counts STORED AS INTEGERS (the dataset keeps the integer dtype)
        lam = 4.0 * np.exp(0.8 * rs.randn(len(uc), P))
        return rs.poisson(lam[ci]).astype(np.int64)
    raise ValueError(kind)


def _spd_precision(rs, P):
    A = rs.randn(3 * P, P)
    return np.linalg.inv(A.T @ A / (3 * P) + 0.3 * np.eye(P))


def _noise(case, M):
    """-> (argument for the library, spec form: None | ('single', N) | ('per-fold', [N_0..N_{M-1}] in sorted fold order))"""
    mode = case.get('noise', 'none')
    P = case['P']
    rs = np.random.RandomState(7919 + case['seed'])
    if mode == 'none':
        return None, None
    nu = case.get('noise_unit')
    if nu is not None:      # the same precisions in another unit (precision of data in unit u has unit u^-2)
        arg, spec = _noise(dict(case, noise_unit=None), M)
        if spec[0] == 'single':
            return arg * nu, ('single', spec[1] * nu)
        arg = arg * nu if isinstance(arg, np.ndarray) else [a * nu for a in arg]
        return arg, ('per-fold', [N * nu for N in spec[1]])
    if mode in ('identity-int', 'diag-int'):    # integer-typed precision matrices
        N = np.eye(P, dtype=np.int64) if mode == 'identity-int' else np.diag(1 + rs.randint(0, 4, size=P)).astype(np.int32)
        return N.copy(), ('single', N.astype(float))
    if mode == 'list-diag-int':
        Ns = [np.diag(1 + rs.randint(0, 4, size=P)).astype(np.int64) for _ in range(M)]
        return [N.copy() for N in Ns], ('per-fold', [N.astype(float) for N in Ns])
    if mode == 'identity':
        return np.eye(P), ('single', np.eye(P))
    if mode == 'single':
        N = _spd_precision(rs, P)
        return N.copy(), ('single', N)
    if mode == 'diag':
        N = np.diag(0.5 + rs.rand(P) * 3)
        return N.copy(), ('single', N)
    Ns = [_spd_precision(rs, P) for _ in range(M)]
    if mode == 'list-equal':
        Ns = [Ns[0].copy() for _ in range(M)]
    if mode in ('list', 'list-equal'):
        return [N.copy() for N in Ns], ('per-fold', Ns)
    if mode == 'array3d':
        return np.array(Ns), ('per-fold', Ns)
    raise ValueError(mode)


def _container(vals, kind):
    """the same labels handed over as list / tuple / ndarray (native dtype, object dtype, smallest integer dtype)"""
    vals = list(vals)
    if kind == 'list':
        return vals
    if kind == 'tuple':
        return tuple(vals)
    if kind == 'ndarray':
        return np.array(vals)
    if kind == 'ndarray-object':
        return np.array(vals, dtype=object)
    if kind == 'ndarray-int8':     # integer labels in [-128, 127] only
        return np.array(vals, dtype=np.int8) if all(isinstance(v, int) and not isinstance(v, bool) for v in vals) else np.array(vals)
    raise ValueError(kind)


def _dataset(X, conds, folds=None, case=None):
    """case keys (all optional): 'container' -- how the descriptors are handed over; 'desc_order': 'fold-first' -- the fold
    descriptor and two unrelated descriptors come BEFORE the condition descriptor in the obs_descriptors dict, one of them
    constant (so it survives averaging) and one with the conditions' values in another order; 'decoy_cv_desc' -- the dataset
    already carries a descriptor called 'cv_desc' (the name the library uses for its generated folds) with misleading content"""
    from rsatoolbox.data import Dataset
    case = case or {}
    cont = case.get('container', 'list')
    od = {}
    if case.get('decoy_cv_desc'):
        od['cv_desc'] = _container([0] * (len(conds) - 1) + [1], cont)
    if case.get('desc_order') == 'fold-first':
        if folds is not None:
            od['fold'] = _container(folds, cont)
        od['session'] = _container([7] * len(conds), cont)
        od['zz_cond'] = _container(list(conds)[::-1], cont)
    od['cond'] = _container(conds, cont)
    if folds is not None and 'fold' not in od:
        od['fold'] = _container(folds, cont)
    X = np.asarray(X)
    keep = X.dtype.kind in 'iu' or X.dtype == np.float32
    return Dataset(np.array(X, dtype=X.dtype if keep else float), obs_descriptors=od, descriptors={'subj': 'S1'})


# ------------------------------------------------------------------------------------------------ spec
def _occurrence_folds(conds):
    """default fold descriptor of the property: the k-th occurrence of a condition is fold k (literal counting)"""
    seen = {}
    out = []
    for c in conds:
        out.append(seen.get(c, 0))
        seen[c] = seen.get(c, 0) + 1
    return out


def _fold_means(X, conds, folds):
    uc, uf = sorted(set(conds)), sorted(set(folds))
    x = np.zeros((len(uf), len(uc), X.shape[1]))
    for m, f in enumerate(uf):
        for a, c in enumerate(uc):
            rows = [i for i in range(len(conds)) if conds[i] == c and folds[i] == f]
            acc = np.zeros(X.shape[1])
            for i in rows:
                acc = acc + X[i]
            x[m, a] = acc / len(rows)
    return uc, uf, x


def _spec(X, conds, folds, noise=None, remove_mean=False, poisson=None):
    """literal property statement -> (sorted condition labels, C x C matrix)"""
    uc, uf, x = _fold_means(X, conds, folds)
    M, C, P = x.shape
    if poisson is not None:
        lam, w = poisson
        l = (x + lam * w) / (1.0 + w)
        left, right = l, np.log(l)
    else:
        if remove_mean:
            x = x - x.mean(axis=2, keepdims=True)
        left, right = x, x
    # metric of every ordered pair of distinct folds (m, n); a fold is never paired with itself
    W = {}
    for m in range(M):
        for n in range(M):
            if m == n:
                continue
            if poisson is not None or noise is None:
                W[m, n] = np.eye(P)
            elif noise[0] == 'single':
                W[m, n] = noise[1]
            else:       # precision of the two folds' averaged covariance
                W[m, n] = np.linalg.inv((np.linalg.inv(noise[1][m]) + np.linalg.inv(noise[1][n])) / 2.0)
    out = np.zeros((C, C))
    for a in range(C):
        for b in range(a + 1, C):
            acc = 0.0
            for (m, n), Wmn in W.items():
                acc += (left[m, a] - left[m, b]) @ Wmn @ (right[n, a] - right[n, b])
            out[a, b] = out[b, a] = acc / len(W) / P
    return uc, out


# ------------------------------------------------------------------------------------------------ real calls
def _call(case, ds, noise_arg, use_folds=True):
    import rsatoolbox
    from rsatoolbox.rdm import calc as calcmod
    cvd = 'fold' if use_folds else None
    method = case.get('method', 'crossnobis')
    via = case.get('via', 'calc_rdm')
    with warnings.catch_warnings(), np.errstate(all='ignore'):
        warnings.simplefilter('ignore')
        if method == 'crossnobis':
            if via == 'calc_rdm':
                return rsatoolbox.rdm.calc_rdm(ds, method='crossnobis', descriptor='cond', noise=noise_arg,
                                               cv_descriptor=cvd, remove_mean=bool(case.get('remove_mean', False)))
            return calcmod.calc_rdm_crossnobis(ds, 'cond', noise=noise_arg, cv_descriptor=cvd,
                                               remove_mean=bool(case.get('remove_mean', False)))
        lam, w = case.get('prior_lambda', 1), case.get('prior_weight', 0.1)
        if via == 'calc_rdm':
            return rsatoolbox.rdm.calc_rdm(ds, method='poisson_cv', descriptor='cond', cv_descriptor=cvd,
                                           prior_lambda=lam, prior_weight=w)
        return calcmod.calc_rdm_poisson_cv(ds, 'cond', prior_lambda=lam, prior_weight=w, cv_descriptor=cvd)


def _observed(rdm, conds):
    """-> (error | None, {(a,b): value}) keyed by the labels the RDM itself carries"""
    uc = sorted(set(conds))
    if rdm.n_rdm != 1:
        return f'expected one RDM, got {rdm.n_rdm}', None
    if rdm.n_cond != len(uc):
        return f'expected {len(uc)} conditions, RDM has n_cond={rdm.n_cond}', None
    if 'cond' not in rdm.pattern_descriptors:
        return f"pattern_descriptors lack the condition descriptor 'cond': {list(rdm.pattern_descriptors)}", None
    labs = [_py(v) for v in rdm.pattern_descriptors['cond']]
    if sorted(labs) != uc:
        return f"pattern_descriptors['cond'] = {labs!r} is not the dataset's set of condition labels {uc!r}", None
    mat = rdm.get_matrices()[0]
    return None, {(labs[i], labs[j]): float(mat[i, j]) for i in range(len(labs)) for j in range(len(labs))}


def _natural_scale(case):
    """what '1.0' of the unit-free problem is worth in the case's units: crossnobis is bilinear in the data and linear in the
    precision, so data in unit u with precisions in unit v give values in unit u*u*v.  poisson_cv has no such homogeneity (the
    prior is not scaled); there None = compare relative to the largest expected entry."""
    u, v = case.get('unit', 1.0), case.get('noise_unit') or 1.0
    if case.get('method', 'crossnobis') == 'poisson_cv':
        return 1.0 if u == 1.0 else None
    return u * u * v


def _compare(obs, uc, want, tol, what, unit=1.0):
    top = float(np.max(np.abs(want))) if np.size(want) else 0.0
    scale = max(unit, top) if unit is not None else (top or 1.0)
    worst = None
    for i, a in enumerate(uc):
        for j, b in enumerate(uc):
            o, e = obs[(a, b)], float(want[i, j])
            bad = (np.isnan(o) != np.isnan(e)) or (not np.isnan(e) and abs(o - e) > tol * scale)
            if bad and (worst is None or np.isnan(o) or abs(o - e) > worst[0]):
                worst = (float('inf') if np.isnan(o) else abs(o - e), a, b, o, e)
    if worst is None:
        return None
    return f'{what}: conditions ({worst[1]!r},{worst[2]!r}) observed {worst[3]!r} expected {worst[4]!r}'


def _obs_vs_spec(case, conds, folds, X, noise_arg, noise_spec, use_folds=True, tol=1e-9, what=None):
    if np.asarray(X).dtype == np.float32:
        tol = max(tol, 1e-5)    # single-precision data: fold means may be formed in single precision
    ds = _dataset(X, conds, folds if use_folds else None, case)
    rdm = _call(case, ds, noise_arg, use_folds)
    err, obs = _observed(rdm, conds)
    if err:
        return err
    poisson = None
    if case.get('method', 'crossnobis') == 'poisson_cv':
        poisson = (case.get('prior_lambda', 1), case.get('prior_weight', 0.1))
    uc, want = _spec(np.asarray(X, float), list(conds), list(folds), noise_spec,
                     bool(case.get('remove_mean', False)), poisson)
    what = what or ('mean over ordered pairs of distinct folds (%d folds, noise=%s, remove_mean=%s)'
                    % (len(set(folds)), case.get('noise', 'none'), bool(case.get('remove_mean', False))))
    return _compare(obs, uc, want, tol, what, _natural_scale(case))


# ------------------------------------------------------------------------------------------------ oracles
@oracle('C02/crossnobis-value')
def orc_crossnobis(case):
    """crossnobis == literal average over ordered pairs of distinct folds (identity / single / per-fold precision,
    remove_mean), read through the RDM's own condition labels"""
    conds, folds = case['conds'], case['folds']
    g = _check_balanced(conds, folds)
    if g:
        return g
    X = _data(case, conds)
    if 'perm' in case:      # exhaustive row-order domains: the same rows in another order
        conds = [conds[i] for i in case['perm']]
        folds = [folds[i] for i in case['perm']]
        X = X[case['perm']]
    noise_arg, noise_spec = _noise(case, len(set(folds)))
    return _obs_vs_spec(case, conds, folds, X, noise_arg, noise_spec)


@oracle('C02/poisson-value')
def orc_poisson(case):
    """poisson_cv == literal average over ordered pairs of distinct folds of (l_am-l_bm).(log l_an-log l_bn)/P on
    prior-regularised rates; with case['relabel'] additionally: unchanged when the folds are renamed"""
    conds, folds = case['conds'], case['folds']
    g = _check_balanced(conds, folds)
    if g:
        return g
    case = dict(case, method='poisson_cv', data=case.get('data', 'counts'))
    X = _data(case, conds)
    res = _obs_vs_spec(case, conds, folds, X, None, None,
                       what='mean over ordered pairs of distinct folds of (l_am-l_bm).(log l_an-log l_bn)/P (%d folds)'
                       % len(set(folds)))
    if res:
        return res
    if case.get('relabel'):
        uf = sorted(set(folds))
        new = dict(zip(uf, FOLD_LABELS[case['relabel']][:len(uf)]))
        if sorted(new.values()) == [new[f] for f in uf]:
            return 'GENERATOR ERROR: relabelling keeps the fold order'
        e1, o1 = _observed(_call(case, _dataset(X, conds, folds), None), conds)
        e2, o2 = _observed(_call(case, _dataset(X, conds, [new[f] for f in folds]), None), conds)
        if e1 or e2:
            return e1 or e2
        for k in o1:
            if not close(o1[k], o2[k], 1e-9):
                return (f'poisson_cv changes when folds {uf} are renamed {[new[f] for f in uf]}: conditions {k} '
                        f'{o1[k]!r} -> {o2[k]!r}')
    return None


@oracle('C02/invariances')
def orc_invariances(case):
    """result invariant under observation order, fold relabelling (per-fold precisions follow their fold) and channel
    order (precision permuted alike); real-vs-real, the base result additionally == spec"""
    conds, folds = case['conds'], case['folds']
    g = _check_balanced(conds, folds)
    if g:
        return g
    X = _data(case, conds)
    uf = sorted(set(folds))
    M, P = len(uf), case['P']
    noise_arg, noise_spec = _noise(case, M)
    res = _obs_vs_spec(case, conds, folds, X, noise_arg, noise_spec)
    if res:
        return 'base dataset: ' + res
    noise_arg, _ = _noise(case, M)
    err, base = _observed(_call(case, _dataset(X, conds, folds), noise_arg), conds)
    if err:
        return err
    rs = np.random.RandomState(31 + case['seed'])
    rowperm = rs.permutation(len(conds))
    chperm = rs.permutation(P)
    if P > 1 and np.array_equal(chperm, np.arange(P)):
        chperm = np.roll(chperm, 1)
    new = dict(zip(uf, FOLD_LABELS[case['relabel']][:M]))
    new_sorted = sorted(new.values())
    old_of_new = {v: k for k, v in new.items()}

    def variant(rows, relabel, channels):
        c2 = [conds[i] for i in rows]
        f2 = [folds[i] for i in rows]
        X2 = X[rows]
        na, _ = _noise(case, M)
        if relabel:
            f2 = [new[f] for f in f2]
            if noise_spec is not None and noise_spec[0] == 'per-fold':
                # precision i must stay with ITS fold: position = rank of the new label
                per = [noise_spec[1][uf.index(old_of_new[v])] for v in new_sorted]
                na = np.array(per) if isinstance(na, np.ndarray) else [p.copy() for p in per]
        if channels:
            X2 = X2[:, chperm]
            if na is not None:
                if isinstance(na, np.ndarray) and na.ndim == 2:
                    na = na[np.ix_(chperm, chperm)]
                else:
                    per = [np.asarray(p)[np.ix_(chperm, chperm)] for p in na]
                    na = np.array(per) if isinstance(na, np.ndarray) else per
        return _observed(_call(case, _dataset(X2, c2, f2), na), conds)

    ident = list(range(len(conds)))
    variants = [('observation order %s' % rowperm.tolist(), (rowperm, False, False)),
                ('fold relabelling %s -> %s' % (uf, [new[f] for f in uf]), (ident, True, False)),
                ('channel order %s (precision permuted alike)' % chperm.tolist(), (ident, False, True)),
                ('observation order + fold relabelling + channel order', (rowperm, True, True))]
    for name, args in variants:
        err, got = variant(*args)
        if err:
            return f'{name}: {err}'
        for k in base:
            if not close(got[k], base[k], 1e-9):
                return f'not invariant under {name}: conditions {k} {base[k]!r} -> {got[k]!r}'
    return None


@oracle('C02/default-descriptor')
def orc_default_descriptor(case):
    """_gen_default_cv_descriptor: check='partition': rows i, j share a fold iff they are the same-numbered occurrence of
    their condition; check='order': the generated labels sort (np.unique, as the fold loop does) in occurrence order, so that
    precision k of a per-fold list meets the k-th occurrences"""
    from rsatoolbox.rdm.calc import _gen_default_cv_descriptor
    conds = case['conds']
    ds = _dataset(np.arange(len(conds), dtype=float)[:, None], conds)
    with warnings.catch_warnings(), np.errstate(all='ignore'):
        warnings.simplefilter('ignore')
        got = np.asarray(_gen_default_cv_descriptor(ds, 'cond'))
    want = _occurrence_folds(conds)
    if got.shape != (len(conds),):
        return f'default fold descriptor has shape {got.shape} for {len(conds)} observations'
    if case.get('check', 'partition') == 'partition':
        for i in range(len(conds)):
            for j in range(len(conds)):
                if (got[i] == got[j]) != (want[i] == want[j]):
                    return (f'rows {i},{j} (occurrences {want[i]},{want[j]} of {conds[i]!r},{conds[j]!r}) get folds '
                            f'{got[i]!r},{got[j]!r}; whole descriptor {got.tolist()} for occurrence numbers {want}')
        return None
    # check == 'order': which precision of a per-fold list meets which fold is decided by the sort order of the labels
    ranks = {_py(v): k for k, v in enumerate(np.unique(got))}
    for i in range(len(conds)):
        if ranks[_py(got[i])] != want[i]:
            return (f'fold labels do not sort in occurrence order: occurrence {want[i]} carries label {got[i]!r} which is '
                    f'number {ranks[_py(got[i])]} of {list(ranks)} (a per-fold precision list is indexed by that number)')
    return None


@oracle('C02/default-folds')
def orc_default_folds(case):
    """cv_descriptor=None: crossnobis / poisson_cv value == spec with fold = occurrence number of the condition"""
    conds = case['conds']
    folds = _occurrence_folds(conds)
    g = _check_balanced(conds, folds)
    if g:
        return g
    X = _data(case, conds)
    noise_arg, noise_spec = _noise(case, len(set(folds)))
    if case.get('method') == 'poisson_cv':
        # real vs real: default folds == the same folds given explicitly (holds for any fold-symmetric estimator)
        e1, o1 = _observed(_call(case, _dataset(X, conds), None, use_folds=False), conds)
        e2, o2 = _observed(_call(case, _dataset(X, conds, folds), None), conds)
        if e1 or e2:
            return e1 or e2
        for k in o1:
            if not close(o1[k], o2[k], 1e-9):
                return f'poisson_cv with default folds {o1[k]!r} != with explicit occurrence folds {o2[k]!r} at {k}'
        return None
    return _obs_vs_spec(case, conds, folds, X, noise_arg, noise_spec, use_folds=False,
                        what='default folds (k-th occurrence = fold k; %d folds, noise=%s)'
                        % (len(set(folds)), case.get('noise', 'none')))


def _contribution_data(case):
    """2+ conditions, M folds, R reps; returns conds, folds, X with designed fold-wise differences"""
    C, M, R = case['C'], case['M'], case.get('R', 1)
    conds, folds = _design(C, M, R, case.get('ckind', 'int'), case.get('fkind', 'int'), case.get('order', 'fold-major'),
                           case.get('seed', 0))
    uc, uf = sorted(set(conds)), sorted(set(folds))
    kind = case['kind']
    q = case.get('q', 1)
    P = M * q if kind == 'orthogonal' else case.get('P', 1)
    base = case.get('base', 0.0)
    X = np.zeros((len(conds), P))
    for i, (c, f) in enumerate(zip(conds, folds)):
        a, m = uc.index(c), uf.index(f)
        X[i, :] = base
        if kind == 'orthogonal':        # condition a differs from the others only on fold m's own channels
            X[i, m * q:(m + 1) * q] += (a + 1) * (m + 1)
        else:                           # 'powers': difference between neighbouring conditions in fold m is 2^m on channel 0
            X[i, 0] += a * 2.0 ** m
    return conds, folds, X, P


@oracle('C02/fold-contributions')
def orc_contributions(case):
    """'orthogonal': fold-wise condition differences live on disjoint channels -> all between-fold products vanish, so the
    result is 0 (any within-fold product would add >= 1/P... a positive amount).  'powers': condition difference in fold m
    is (a-b)*2^m on one channel -> value (a-b)^2 * sum_{m!=n} 2^(m+n) / (M(M-1)P) exactly; any missing, doubled or
    re-weighted fold pair changes a binary digit."""
    conds, folds, X, P = _contribution_data(case)
    g = _check_balanced(conds, folds)
    if g:
        return g
    uc, uf = sorted(set(conds)), sorted(set(folds))
    M = len(uf)
    method = case.get('method', 'crossnobis')
    noise_arg = None
    if case.get('noise') == 'diag':
        noise_arg = np.diag(1.0 + np.arange(P))
    elif case.get('noise') == 'list-diag':
        noise_arg = [np.diag(1.0 + np.arange(P)) for _ in range(M)]
    err, obs = _observed(_call(case, _dataset(X, conds, folds), noise_arg), conds)
    if err:
        return err
    for i, a in enumerate(uc):
        for j, b in enumerate(uc):
            if case['kind'] == 'orthogonal':
                want = 0.0
            else:
                if method != 'crossnobis' or noise_arg is not None:
                    return 'GENERATOR ERROR: powers is a crossnobis/identity case'
                s = 0.0
                for m in range(M):
                    for n in range(M):
                        if m != n:
                            s += ((i - j) * 2.0 ** m) * ((i - j) * 2.0 ** n)
                want = s / (M * (M - 1)) / P
            if abs(obs[(a, b)] - want) > 1e-10 * max(1.0, abs(want)):
                return (f"{method} kind={case['kind']}: conditions ({a!r},{b!r}) observed {obs[(a, b)]!r} expected {want!r} "
                        f'(only products between different folds may contribute, each ordered pair once)')
    return None


@oracle('C02/poisson-structure')
def orc_poisson_structure(case):
    """poisson_cv clauses that do not depend on how many folds are averaged: labels, observation / channel order invariance"""
    conds, folds = case['conds'], case['folds']
    g = _check_balanced(conds, folds)
    if g:
        return g
    case = dict(case, method='poisson_cv', data='counts')
    X = _data(case, conds)
    err, base = _observed(_call(case, _dataset(X, conds, folds), None), conds)
    if err:
        return err
    rs = np.random.RandomState(77 + case['seed'])
    rowperm = rs.permutation(len(conds))
    chperm = np.roll(np.arange(case['P']), 1)
    for name, (rows, ch) in (('observation order %s' % rowperm.tolist(), (rowperm, False)),
                             ('channel order %s' % chperm.tolist(), (list(range(len(conds))), True))):
        X2 = X[rows][:, chperm] if ch else X[rows]
        err, got = _observed(_call(case, _dataset(X2, [conds[i] for i in rows], [folds[i] for i in rows]), None), conds)
        if err:
            return f'{name}: {err}'
        for k in base:
            if not close(got[k], base[k], 1e-9):
                return f'poisson_cv not invariant under {name}: conditions {k} {base[k]!r} -> {got[k]!r}'
    # antisymmetric part of the statement that every fold-symmetric AND the last-fold estimator share: d(a,a) = 0
    for a in sorted(set(conds)):
        if base[(a, a)] != 0:
            return f'poisson_cv: d({a!r},{a!r}) = {base[(a, a)]!r}, expected 0'
    return None


def _snapshot(ds, noise_arg):
    od = {k: (np.array(v).tolist(), type(v).__name__) for k, v in ds.obs_descriptors.items()}
    if noise_arg is None:
        ns = None
    elif isinstance(noise_arg, np.ndarray):
        ns = noise_arg.copy()
    else:
        ns = [np.array(n).copy() for n in noise_arg]
    return ds.measurements.copy(), ds.measurements.dtype, od, ns


def _changed(ds, noise_arg, snap):
    X0, dt0, od0, ns0 = snap
    if ds.measurements.dtype != dt0 or ds.measurements.shape != X0.shape or not np.array_equal(ds.measurements, X0):
        return 'the measurements of the dataset handed over were changed by the call'
    if list(ds.obs_descriptors) != list(od0):
        return f'the obs_descriptors of the dataset handed over were changed by the call: keys {list(od0)} -> {list(ds.obs_descriptors)}'
    for k, (v0, t0) in od0.items():
        v = ds.obs_descriptors[k]
        if np.array(v).tolist() != v0 or type(v).__name__ != t0:
            return f'obs_descriptor {k!r} of the dataset handed over was changed by the call: {t0} {v0} -> {type(v).__name__} {np.array(v).tolist()}'
    if ns0 is not None:
        now = [noise_arg] if isinstance(noise_arg, np.ndarray) else list(noise_arg)
        old = [ns0] if isinstance(ns0, np.ndarray) else ns0
        if len(now) != len(old) or any(not np.array_equal(np.asarray(a), b) for a, b in zip(now, old)):
            return 'the precision matrices handed over were changed by the call'
    return None


@oracle('C02/call-sequence')
def orc_sequence(case):
    """the value is a function of the dataset and precisions handed over in THIS call.  Calls A/NA, B/NB, A/NA on two datasets
    with the same shape and the same labels but different values and different precisions (a result remembered per shape /
    label set would be served for the wrong data), the second A/NA with the very same objects as the first, then A with the
    precisions of B (same data, other precisions): every result == spec of its own arguments; the two results for A/NA
    agree; the RDM returned by the first call still holds its values after the later calls; the datasets and precision
    objects are unchanged by the calls"""
    conds = case['conds']
    use_folds = 'folds' in case
    folds = case['folds'] if use_folds else _occurrence_folds(conds)
    g = _check_balanced(conds, folds)
    if g:
        return g
    M = len(set(folds))
    poisson = None
    if case.get('method', 'crossnobis') == 'poisson_cv':
        case = dict(case, data=case.get('data', 'counts'), noise='none')
        poisson = (case.get('prior_lambda', 1), case.get('prior_weight', 0.1))
    caseB = dict(case, seed=case['seed'] + 500)
    uc = sorted(set(conds))
    rm = bool(case.get('remove_mean', False))
    args = []
    for c in (case, caseB):
        X = _data(c, conds)
        noise_arg, noise_spec = _noise(c, M)
        ds = _dataset(X, conds, folds if use_folds else None, c)
        args.append(dict(ds=ds, X=np.asarray(X, float), noise_arg=noise_arg, noise_spec=noise_spec, snap=_snapshot(ds, noise_arg)))
    # (dataset, precisions) of the calls: A/NA, B/NB, A/NA again, and -- if there are precisions -- A with the precisions of B
    steps = [(0, 0), (1, 1), (0, 0)] + ([(0, 1)] if args[0]['noise_arg'] is not None else [])
    wants = {}
    for (i, j) in set(steps):
        wants[i, j] = _spec(args[i]['X'], list(conds), list(folds), args[j]['noise_spec'], rm, poisson)[1]
    if np.allclose(wants[0, 0], wants[1, 1]) or ((0, 1) in wants and np.allclose(wants[0, 0], wants[0, 1])):
        return 'GENERATOR ERROR: two calls of the sequence have the same expected RDM'
    held, first = None, None
    if case.get('prelude'):
        # what a caller typically does first: look at single folds / conditions of the dataset (queries, which leave it as it is)
        for a in args:
            od = a['ds'].obs_descriptors
            for key in [k for k in ('fold', 'cond') if k in od]:
                a['ds'].subset_obs(key, list(od[key])[0])
                a['ds'].subset_obs(key, [list(od[key])[0], list(od[key])[-1]])
    for step, (i, j) in enumerate(steps):
        ds, noise_arg = args[i]['ds'], args[j]['noise_arg']
        name = 'call %d of the sequence A/NA, B/NB, A/NA, A/NB (dataset %s with precisions %s; A and B have the same shape and labels)' % (
            step + 1, 'AB'[i], 'none' if noise_arg is None else 'N' + 'AB'[j])
        rdm = _call(case, ds, noise_arg, use_folds)
        err, obs = _observed(rdm, conds)
        if err:
            return f'{name}: {err}'
        res = _compare(obs, uc, wants[i, j], 1e-9, name, _natural_scale(case))
        if res:
            return res
        res = _changed(ds, args[i]['noise_arg'], args[i]['snap']) or _changed(args[j]['ds'], noise_arg, args[j]['snap'])
        if res:
            return f'{name}: {res}'
        if step == 0:
            held, first = rdm, obs
        else:
            err, again = _observed(held, conds)
            if err:
                return f'the RDM returned by call 1 after call {step + 1}: {err}'
            if again != first:
                k = [k for k in first if again[k] != first[k]][0]
                return (f'the RDM returned by call 1 changed while call {step + 1} ran: conditions {k} {first[k]!r} -> {again[k]!r}')
        if step == 2:
            scale = max(abs(v) for v in first.values()) or 1.0
            for k in first:
                if abs(obs[k] - first[k]) > 1e-12 * scale:
                    return f'the same call on the same objects gave {first[k]!r} first and {obs[k]!r} then (conditions {k})'
    return None


_FRESH_CHILD = (
    'import sys, json, warnings\n'
    'warnings.simplefilter("ignore")\n'
    'from vf.rt.harness import ORACLES\n'
    'import contracts.C02_c\n'
    'out = []\n'
    'for name, case in json.load(sys.stdin):\n'
    '    try:\n'
    '        out.append(ORACLES[name](case))\n'
    '    except Exception as e:\n'
    '        out.append("exception %s: %s" % (type(e).__name__, e))\n'
    'print("C02-FRESH-RESULT" + json.dumps([sys.flags.hash_randomization, hash("run_a") % 1000, out]))\n')


@oracle('C02/fresh-interpreter')
def orc_fresh(case):
    """the oracles listed in case['jobs'] hold as well in a NEW interpreter started with PYTHONHASHSEED=case['hashseed'] (string
    labels then hash differently, so anything that depends on the iteration order of a set / dict of labels shows)"""
    import json
    import os
    import subprocess
    import sys
    import rsatoolbox
    root = os.path.dirname(os.path.dirname(os.path.abspath(__file__)))
    src = os.path.dirname(os.path.dirname(os.path.abspath(rsatoolbox.__file__)))
    env = dict(os.environ, PYTHONHASHSEED=str(case['hashseed']), PYTHONPATH=os.pathsep.join([src, root]),
               PYTHONDONTWRITEBYTECODE='1', MPLBACKEND='Agg')
    pr = subprocess.run([sys.executable, '-c', _FRESH_CHILD], input=json.dumps(case['jobs']), capture_output=True, text=True,
                        env=env, timeout=600, cwd=root)
    lines = [l for l in pr.stdout.splitlines() if l.startswith('C02-FRESH-RESULT')]
    if pr.returncode != 0 or not lines:
        return f'the new interpreter failed (exit {pr.returncode}): {pr.stderr.strip()[-400:]}'
    _, _, results = json.loads(lines[-1][len('C02-FRESH-RESULT'):])
    if len(results) != len(case['jobs']):
        return 'GENERATOR ERROR: the new interpreter answered %d of %d jobs' % (len(results), len(case['jobs']))
    for (name, job), res in zip(case['jobs'], results):
        if res is not None:
            return f"under PYTHONHASHSEED={case['hashseed']}: {name} on {json.dumps(job)[:300]}: {res}"
    return None



# ------------------------------------------------------------------------------------------------ domains
def _balanced_sequences(n_labels, reps):
    """all sequences over labels 0..n_labels-1 in which every label occurs exactly `reps` times"""
    out = []

    def rec(prefix, left):
        if not any(left):
            out.append(list(prefix))
            return
        for lab in range(n_labels):
            if left[lab]:
                left[lab] -= 1
                prefix.append(lab)
                rec(prefix, left)
                prefix.pop()
                left[lab] += 1
    rec([], [reps] * n_labels)
    return out


def _noise_class(mode):
    return {'none': 'identity', 'identity': 'identity', 'single': 'single-precision', 'diag': 'single-precision',
            'list': 'per-fold-precision', 'list-equal': 'per-fold-precision', 'array3d': 'per-fold-precision',
            'identity-int': 'identity', 'diag-int': 'single-precision', 'list-diag-int': 'per-fold-precision'}[mode]


def tier_c(run, thorough):
    bds = []
    ckinds, fkinds = list(COND_LABELS), list(FOLD_LABELS)
    orders = ['fold-major', 'cond-major', 'reversed', 'shuffled']
    modes = ['none', 'identity', 'single', 'diag', 'list', 'list-equal', 'array3d']

    # ---- 1. crossnobis value, seeded designs -----------------------------------------------------------------------
    Cs, Ms, Rs, Ps = ((2, 3, 4, 6), (2, 3, 4, 6), (1, 2, 3), (1, 2, 5)) if thorough else ((2, 3, 4), (2, 3, 4), (1, 2), (1, 3))
    bd = Bounded(run, 'C02/crossnobis-value', 'C02/calc_rdm_crossnobis/oracle/mean-of-between-fold-products',
                 'seeded gaussian data (%d seeds); conditions in %s x folds in %s x repetitions per cell in %s x channels in %s; '
                 'noise none/identity/one SPD/diagonal/list per fold/equal list/3-d array; remove_mean off/on; int, unordered int, '
                 'str, long str, float condition labels; int, unordered int, float, str fold labels; 4 row orders; via calc_rdm '
                 'and calc_rdm_crossnobis' % (2 if thorough else 1, Cs, Ms, Rs, Ps), function='calc_rdm_crossnobis')
    k = 0
    for seed in range(2 if thorough else 1):
        for C in Cs:
            for M in Ms:
                for R in Rs:
                    for P in Ps:
                        for mode in modes:
                            for rm in (False, True):
                                k += 1
                                conds, folds = _design(C, M, R, ckinds[k % 5], fkinds[(k // 5) % 4], orders[(k // 3) % 4], seed=k)
                                case = dict(seed=seed * 1000 + k, conds=conds, folds=folds, P=P, noise=mode, remove_mean=rm,
                                            via='calc_rdm' if (k // 2) % 2 else 'calc_rdm_crossnobis')
                                bd.check(orc_crossnobis, case,
                                         'crossnobis-' + _noise_class(mode) + ('+remove_mean' if rm else ''),
                                         nontrivial=not (rm and P == 1), function='calc_rdm_crossnobis')
                                if k % 4 == 0 and not rm:
                                    # integer-typed measurements (spike counts): fold means are not integers
                                    # NOTE (sweep): k is odd whenever rm is False, so this registration is never reached;
                                    # integer-typed measurements are covered by domain 8 (C02/typed-data, 'counts-int' etc.)
                                    bd.check(orc_crossnobis, dict(case, data='counts-int'),
                                             'crossnobis-' + _noise_class(mode) + ',integer-typed-data',
                                             function='calc_rdm_crossnobis')
    bd.done()
    bds.append(bd)

    # ---- 2. crossnobis value, exhaustive over row orders of small designs ------------------------------------------
    shapes = [(2, 2, 1), (3, 2, 1), (2, 3, 1)] if thorough else [(2, 2, 1), (2, 3, 1)]
    bd = Bounded(run, 'C02/crossnobis-all-row-orders', 'C02/calc_rdm_crossnobis/oracle/mean-of-between-fold-products',
                 'ALL row orders of the designs (conditions, folds, repetitions) in %s with integer-valued data, 2 channels; '
                 'noise none / one SPD / list per fold, remove_mean off/on%s; str conditions, unordered int folds'
                 % (shapes, '' if thorough else ' (720-order design: noise none / list per fold and remove_mean off only)'),
                 exhaustive=True,
                 function='calc_rdm_crossnobis')
    for (C, M, R) in shapes:
        conds, folds = _design(C, M, R, 'str', 'int-unordered')
        n = len(conds)
        big = n > 4
        for perm in itertools.permutations(range(n)):
            for mode in ('none', 'single', 'list'):
                for rm in ((False, True) if (thorough or not big) else (False,)):
                    if big and not thorough and mode == 'single':
                        continue
                    case = dict(seed=C * 10 + M, conds=conds, folds=folds, perm=list(perm), P=2, noise=mode, remove_mean=rm,
                                data='int', via='calc_rdm')
                    bd.check(orc_crossnobis, case, 'crossnobis-' + _noise_class(mode) + ('+remove_mean' if rm else ''),
                             function='calc_rdm_crossnobis')
    bd.done()
    bds.append(bd)

    # ---- 3. fold contributions -------------------------------------------------------------------------------------
    bd = Bounded(run, 'C02/fold-contributions', 'C02/calc_rdm_crossnobis/oracle/only-between-fold-products-every-pair-once',
                 'designed data: (a) fold-wise condition differences on disjoint channel blocks (result must be 0), conditions 2..3, '
                 'folds 2..%d, repetitions 1..2, block width 1..2, baseline 0 / 3, identity / diagonal / per-fold diagonal precision; '
                 '(b) difference 2^m in fold m on one channel (exact binary expansion over fold pairs), folds 2..%d'
                 % ((6, 8) if thorough else (4, 6)), function='_calc_rdm_crossnobis_single')
    for C in (2, 3):
        for M in range(2, 7 if thorough else 5):
            for R in (1, 2):
                for q in (1, 2):
                    for noise in ('none', 'diag', 'list-diag'):
                        for base in (0.0, 3.0):
                            case = dict(kind='orthogonal', C=C, M=M, R=R, q=q, noise=noise, base=base, seed=M,
                                        order=orders[(C + M + R + q) % 4], fkind=fkinds[(M + q) % 4], ckind=ckinds[(C + R) % 5])
                            bd.check(orc_contributions, case, 'crossnobis-orthogonal-folds', function='calc_rdm_crossnobis')
        for M in range(2, 9 if thorough else 7):
            for R in (1, 2):
                for P in (1, 3):
                    case = dict(kind='powers', C=C, M=M, R=R, P=P, seed=M, order=orders[(M + R) % 4], fkind=fkinds[M % 4])
                    bd.check(orc_contributions, case, 'crossnobis-fold-powers', function='calc_rdm_crossnobis')
    bd.done()
    bds.append(bd)

    # ---- 4. invariances --------------------------------------------------------------------------------------------
    bd = Bounded(run, 'C02/invariances', 'C02/calc_rdm_crossnobis/oracle/invariant-to-row-fold-channel-relabelling',
                 'seeded gaussian data; conditions 2..4 x folds 2..%d x repetitions 1..2 x channels 2..4; folds renamed to unordered '
                 'int / float / str labels (order of the folds changes, per-fold precisions follow their fold); one row permutation, '
                 'one channel permutation and their combination per case; noise none / one SPD / list / 3-d array; remove_mean off/on'
                 % (5 if thorough else 4), function='calc_rdm_crossnobis')
    k = 0
    for seed in range(3 if thorough else 1):
        for C in (2, 3, 4):
            for M in range(2, 6 if thorough else 5):
                for R in (1, 2):
                    for mode in ('none', 'single', 'list', 'array3d'):
                        for rm in (False, True):
                            k += 1
                            P = 2 + (k // 3) % 3
                            conds, folds = _design(C, M, R, ckinds[k % 5], 'int', orders[k % 4], seed=k)
                            case = dict(seed=seed * 1000 + k, conds=conds, folds=folds, P=P, noise=mode, remove_mean=rm,
                                        relabel=('int-unordered', 'float', 'str')[k % 3], via='calc_rdm' if (k // 2) % 2 else 'direct')
                            bd.check(orc_invariances, case, 'crossnobis-' + _noise_class(mode) + ('+remove_mean' if rm else ''),
                                     function='calc_rdm_crossnobis')
    bd.done()
    bds.append(bd)

    # ---- 5. default fold descriptor --------------------------------------------------------------------------------
    maxlen = 9 if thorough else 8
    bd = Bounded(run, 'C02/default-descriptor', 'C02/_gen_default_cv_descriptor/oracle/kth-occurrence-is-fold-k',
                 'ALL sequences of length <= %d over <= 3 condition labels in which every label occurs equally often (>= 2 times); '
                 'int, float, 1-character str and long str labels; partition and sort order of the generated fold labels; for '
                 '>= 2 conditions also the crossnobis value (identity and per-fold precisions) and poisson_cv default == explicit'
                 % maxlen, exhaustive=True, function='_gen_default_cv_descriptor')
    for n_labels in (1, 2, 3):
        for reps in range(2, maxlen // n_labels + 1):
            for seq in _balanced_sequences(n_labels, reps):
                for ck in ('int-unordered', 'str', 'float', 'str-long'):
                    conds = [COND_LABELS[ck][i] for i in seq]
                    cls = 'default-folds-%s-labels' % ck
                    for chk in ('partition', 'order'):
                        bd.check(orc_default_descriptor, dict(conds=conds, check=chk), cls, function='_gen_default_cv_descriptor')
                    if n_labels >= 2 and ck in ('int-unordered', 'str'):
                        for mode in ('none', 'list'):
                            bd.check(orc_default_folds, dict(seed=len(seq), conds=conds, P=2, noise=mode, via='calc_rdm'), cls,
                                     function='calc_rdm_crossnobis')
                        if ck == 'str':
                            bd.check(orc_default_folds, dict(seed=len(seq), conds=conds, P=2, method='poisson_cv', data='counts'),
                                     'poisson_cv-default-folds', function='calc_rdm_poisson_cv')
    bd.done()
    bds.append(bd)

    # ---- 5b. default fold descriptor, many repetitions (labels generated by the library get 2 digits) --------------
    bd = Bounded(run, 'C02/default-folds-many-repetitions', 'C02/_gen_default_cv_descriptor/oracle/kth-occurrence-is-fold-k',
                 'conditions 2..3 observed 9..%d times, interleaved / blocked / shuffled order; int, float, 1-character str, long str, '
                 'bool condition labels; generated descriptor and crossnobis value with identity and per-fold precisions'
                 % (13 if thorough else 12), function='_gen_default_cv_descriptor')
    for C in (2, 3):
        for reps in range(9, 14 if thorough else 13):
            for order in ('fold-major', 'cond-major', 'shuffled'):
                for ck in ('int', 'float', 'str', 'str-long', 'bool'):
                    if ck == 'bool':
                        if C != 2 or reps > 9:
                            continue
                        conds, _ = _design(2, 3, 1, 'int', 'int', order, seed=reps)
                        conds = [bool(c) for c in conds]
                        cls = 'default-folds-bool-labels'
                    else:
                        conds, _ = _design(C, reps, 1, ck, 'int', order, seed=reps)
                        cls = 'default-folds-%s-labels-%s' % ('str1' if ck == 'str' else ck, 'upto10' if reps <= 10 else '11plus')
                    # classes: a wrong PARTITION spoils every result of that class; a wrong ORDER of otherwise right folds
                    # only matters for a per-fold precision list and gets its own class
                    cls_order = cls
                    if ck == 'str-long' and reps > 10:
                        cls_order = 'default-folds-str-labels-11plus-per-fold-precision-order'
                    bd.check(orc_default_descriptor, dict(conds=conds, check='partition'), cls, function='_gen_default_cv_descriptor')
                    bd.check(orc_default_descriptor, dict(conds=conds, check='order'), cls_order,
                             function='_gen_default_cv_descriptor')
                    bd.check(orc_default_folds, dict(seed=reps, conds=conds, P=2, noise='none', via='direct'), cls,
                             function='calc_rdm_crossnobis')
                    bd.check(orc_default_folds, dict(seed=reps, conds=conds, P=2, noise='list', via='direct'), cls_order,
                             function='calc_rdm_crossnobis')
    bd.done()
    bds.append(bd)

    # ---- 6. poisson_cv value (finding F1, class 'poisson_cv') ---------------------------------------------------------
    bd = Bounded(run, 'C02/poisson-value', 'C02/calc_rdm_poisson_cv/oracle/mean-of-between-fold-products',
                 'seeded count data (incl. zeros); conditions 2..4 x folds 2..%d x repetitions 1..2 x channels 1..4; prior_lambda in '
                 '{1, 0.5}, prior_weight in {0.1, 1}; all label kinds and row orders; via calc_rdm and calc_rdm_poisson_cv; every '
                 'third case also fold relabelling' % (5 if thorough else 4), function='calc_rdm_poisson_cv')
    k = 0
    for seed in range(3 if thorough else 1):
        for C in (2, 3, 4):
            for M in range(2, 6 if thorough else 5):
                for R in (1, 2):
                    for P in (1, 2, 4):
                        for (lam, w) in ((1, 0.1), (0.5, 1.0)):
                            k += 1
                            conds, folds = _design(C, M, R, ckinds[k % 5], fkinds[(k // 5) % 4], orders[(k // 2) % 4], seed=k)
                            case = dict(seed=seed * 1000 + k, conds=conds, folds=folds, P=P, prior_lambda=lam, prior_weight=w,
                                        via='calc_rdm' if (k // 2) % 2 else 'direct')
                            if k % 3 == 0:
                                case['relabel'] = 'str' if fkinds[(k // 5) % 4] != 'str' else 'int-unordered'
                            bd.check(orc_poisson, case, 'poisson_cv', function='calc_rdm_poisson_cv')
                            if case['seed'] % 3 == 0:
                                bd.check(orc_poisson, dict(case, data='counts-int'), 'poisson_cv,integer-typed-data', function='calc_rdm_poisson_cv')
    bd.done()
    bds.append(bd)

    # ---- 7. poisson_cv structure (holds also for a last-fold estimator) --------------------------------------------
    bd = Bounded(run, 'C02/poisson-structure', 'C02/calc_rdm_poisson_cv/oracle/labels-order-invariance-no-within-fold-product',
                 'seeded count data; conditions 2..4 x folds 2..4 x repetitions 1..2 x channels 2..3: labels, zero diagonal, row and '
                 'channel order invariance; designed data with fold-wise condition differences on disjoint channels: result 0',
                 function='calc_rdm_poisson_cv')
    k = 0
    for C in (2, 3, 4):
        for M in (2, 3, 4):
            for R in (1, 2):
                k += 1
                conds, folds = _design(C, M, R, ckinds[k % 5], fkinds[k % 4], orders[k % 4], seed=k)
                bd.check(orc_poisson_structure, dict(seed=k, conds=conds, folds=folds, P=2 + k % 2,
                                                     via='calc_rdm' if k % 2 else 'direct'),
                         'poisson_cv-order-invariance', function='calc_rdm_poisson_cv')
                if C <= 3:
                    for base in (0.0, 3.0):
                        case = dict(kind='orthogonal', method='poisson_cv', C=C, M=M, R=R, q=1 + k % 2, base=base, seed=k,
                                    order=orders[k % 4], fkind=fkinds[k % 4], via='calc_rdm' if k % 2 else 'direct')
                        bd.check(orc_contributions, case, 'poisson_cv-orthogonal-folds', function='calc_rdm_poisson_cv')
    bd.done()
    bds.append(bd)

    # ================================================================================================================
    # dimension sweeps: the same clauses as above on inputs that vary along dimensions the domains 1-7 keep fixed
    # ================================================================================================================
    OB_X = 'C02/calc_rdm_crossnobis/oracle/mean-of-between-fold-products'
    OB_P = 'C02/calc_rdm_poisson_cv/oracle/mean-of-between-fold-products'

    # ---- 8. typed data: measurements / precisions that are not float64 -----------------------------------------------
    designs = [(2, 2, 1), (3, 3, 2), (4, 2, 3), (3, 4, 1)] if thorough else [(2, 2, 1), (3, 3, 2), (4, 2, 3)]
    kinds = ['uint8', 'int16', 'int32', 'float32', 'counts-int']
    tmodes = ['none', 'single', 'list', 'identity-int', 'diag-int', 'list-diag-int']
    bd = Bounded(run, 'C02/typed-data', OB_X,
                 'measurements stored as uint8 / int16 / int32 (values filling the range of the type: sums of two rows do not fit, '
                 'unsigned differences would wrap), float32 (tolerance 1e-5) and int64 counts, expected value = the definition on the '
                 'same values as float64; precisions none / float SPD / float list per fold / integer-typed identity, diagonal and '
                 'per-fold diagonal; remove_mean off/on; designs (conditions, folds, repetitions) in %s, channels in %s, %d seeds; '
                 'gaussian float64 data with integer-typed precisions as well'
                 % (designs, (1, 2, 3) if thorough else (1, 3), 2 if thorough else 1), function='calc_rdm_crossnobis')
    k = 0
    for seed in range(2 if thorough else 1):
        for (C, M, R) in designs:
            for P in ((1, 2, 3) if thorough else (1, 3)):
                for mode in tmodes:
                    for rm in (False, True):
                        for kind in kinds + (['gauss'] if mode.endswith('-int') else []):
                            k += 1
                            conds, folds = _design(C, M, R, ckinds[k % 5], fkinds[(k // 5) % 4], orders[(k // 3) % 4], seed=k)
                            case = dict(seed=seed * 1000 + k, conds=conds, folds=folds, P=P, noise=mode, remove_mean=rm, data=kind,
                                        via='calc_rdm' if k % 2 else 'calc_rdm_crossnobis')
                            bd.check(orc_crossnobis, case,
                                     'crossnobis-%s%s,%s-data%s' % (_noise_class(mode), '+remove_mean' if rm else '', kind,
                                                                    ',integer-typed-precision' if mode.endswith('-int') else ''),
                                     nontrivial=not (rm and P == 1), function='calc_rdm_crossnobis')
    bd.done()
    bds.append(bd)

    # ---- 9. units: the same data / precisions expressed in extreme but legitimate units ------------------------------
    units = (1e-26, 1e-13, 1e-6, 1e6, 1e12) if thorough else (1e-26, 1e-13, 1e6, 1e12)
    bd = Bounded(run, 'C02/units', OB_X,
                 'seeded gaussian data multiplied by u in %s; precisions none / one SPD / diagonal / list per fold / 3-d array, as they '
                 'are and multiplied by u^-2 (the unit of a precision of such data) and by u^2; remove_mean off/on; designs %s, '
                 'channels 1 and 3; tolerance 1e-9 relative to u*u*v (what 1 of the unit-free problem is worth), so a value the '
                 'definition gives as 1e-26 must be returned as such' % (units, designs), function='calc_rdm_crossnobis')
    k = 0
    for u in units:
        for (C, M, R) in designs:
            for mode in ('none', 'single', 'diag', 'list', 'array3d'):
                for v in ((None,) if mode == 'none' else (None, u ** -2, u ** 2)):
                    if v is not None and not 1e-60 < u * u * v < 1e60:
                        continue
                    for rm in (False, True):
                        k += 1
                        P = 1 if k % 4 == 0 else 3
                        conds, folds = _design(C, M, R, ckinds[k % 5], fkinds[(k // 5) % 4], orders[(k // 3) % 4], seed=k)
                        case = dict(seed=k, conds=conds, folds=folds, P=P, noise=mode, remove_mean=rm, unit=u,
                                    via='calc_rdm' if k % 2 else 'calc_rdm_crossnobis')
                        if v is not None:
                            case['noise_unit'] = v
                        bd.check(orc_crossnobis, case,
                                 'crossnobis-%s%s,%s-units' % (_noise_class(mode), '+remove_mean' if rm else '', 'tiny' if u < 1 else 'huge'),
                                 nontrivial=not (rm and P == 1), function='calc_rdm_crossnobis')
    bd.done()
    bds.append(bd)

    # ---- 10. containers and the layout of the descriptor dict --------------------------------------------------------
    containers = ['tuple', 'ndarray', 'ndarray-object', 'ndarray-int8']
    bd = Bounded(run, 'C02/containers', OB_X,
                 'condition and fold descriptors handed over as tuple / ndarray / object ndarray / int8 ndarray (numpy scalars as '
                 'labels); fold descriptor and two unrelated descriptors (one constant, one with the condition labels reversed) placed '
                 'before the condition descriptor in the dict; bool fold labels (2 folds); default folds on a dataset that already '
                 'carries a descriptor named cv_desc with other content; precisions none / list per fold; designs %s, 2 channels; '
                 'all label kinds' % (designs,), function='calc_rdm_crossnobis')
    k = 0
    for (C, M, R) in designs:
        for cont in containers + ['list']:
            for dorder in (None, 'fold-first'):
                if cont == 'list' and dorder is None:
                    continue    # that is what the domains 1-7 use
                for mode in ('none', 'list'):
                    for rm in ((False, True) if thorough else (False,)):
                        k += 1
                        ck, fk = ckinds[k % 5], (fkinds + ['bool'])[k % 5]
                        if cont == 'ndarray-int8':
                            ck, fk = ('int', 'int-unordered')[k % 2], ('int-unordered', 'int')[(k // 2) % 2]
                        if fk == 'bool' and M != 2:
                            fk = 'str'
                        conds, folds = _design(C, M, R, ck, fk, orders[(k // 2) % 4], seed=k)
                        case = dict(seed=k, conds=conds, folds=folds, P=2, noise=mode, remove_mean=rm, container=cont,
                                    via='calc_rdm' if k % 2 else 'calc_rdm_crossnobis')
                        if dorder:
                            case['desc_order'] = dorder
                        cls = 'crossnobis-%s,%s-descriptors%s%s' % (_noise_class(mode), cont, ',condition-descriptor-last' if dorder else '',
                                                                    ',bool-fold-labels' if fk == 'bool' else '')
                        bd.check(orc_crossnobis, case, cls, function='calc_rdm_crossnobis')
                        # default folds: the same conditions, no fold descriptor, a decoy 'cv_desc' on every second case
                        dcase = dict(seed=k, conds=conds, P=2, noise=mode, container=cont, via=case['via'])
                        if dorder:
                            dcase['desc_order'] = dorder
                        if k % 2:
                            dcase['decoy_cv_desc'] = True
                        bd.check(orc_default_folds, dcase, 'default-folds,%s-descriptors%s%s'
                                 % (cont, ',condition-descriptor-last' if dorder else '', ',existing-cv_desc-descriptor' if k % 2 else ''),
                                 function='calc_rdm_crossnobis')
    bd.done()
    bds.append(bd)

    # ---- 11. sizes beyond the other domains, single-element dimensions -----------------------------------------------
    big = [(7, 9, 1, 17), (8, 3, 3, 2), (2, 11, 2, 1), (9, 2, 1, 40), (1, 3, 2, 3), (1, 2, 1, 1), (5, 12, 1, 3)]
    if thorough:
        big += [(12, 12, 2, 30), (16, 2, 1, 1), (3, 20, 1, 2), (1, 11, 1, 2), (10, 5, 4, 64)]
    bd = Bounded(run, 'C02/sizes', OB_X,
                 'designs (conditions, folds, repetitions, channels) in %s: up to %d conditions / %d folds (per-fold precisions: >= 10 '
                 'fold labels, whose numeric and string orders differ) / %d channels, and a single condition (no pair: one condition, '
                 'labelled, no failure); precisions none / one SPD / list per fold; remove_mean off/on; generated int and str labels '
                 'in non-sorted order; explicit and default folds'
                 % (big, max(b[0] for b in big), max(b[1] for b in big), max(b[3] for b in big)), function='calc_rdm_crossnobis')
    k = 0
    for (C, M, R, P) in big:
        for mode in ('none', 'single', 'list'):
            for rm in (False, True):
                k += 1
                conds, folds = _design(C, M, R, ('int-big', 'str-big')[k % 2], ('int-big', 'str-big', 'int')[k % 3],
                                       orders[k % 4], seed=k)
                cls = 'single-condition' if C == 1 else 'crossnobis-%s%s,large-design' % (_noise_class(mode), '+remove_mean' if rm else '')
                bd.check(orc_crossnobis, dict(seed=k, conds=conds, folds=folds, P=P, noise=mode, remove_mean=rm,
                                              via='calc_rdm' if k % 2 else 'calc_rdm_crossnobis'), cls, function='calc_rdm_crossnobis')
                if not rm:
                    bd.check(orc_default_folds, dict(seed=k, conds=conds, P=P, noise=mode, via='calc_rdm' if k % 2 else 'direct'),
                             'single-condition' if C == 1 else 'default-folds,large-design', function='calc_rdm_crossnobis')
    bd.done()
    bds.append(bd)

    # ---- 12. call sequences ------------------------------------------------------------------------------------------
    bd = Bounded(run, 'C02/call-sequence', 'C02/cross-validated-rdm/oracle/function-of-the-arguments-of-this-call',
                 'sequences A/NA, B/NB, A/NA, A/NB: two datasets of the same shape with the same labels, other values, other precisions; the '
                 'second A/NA with the same objects as the first; every result == definition on its own arguments, results for A agree, the first '
                 'RDM keeps its values, dataset A (measurements, dtype, descriptor keys / values / container types) and the precision '
                 'objects are unchanged; crossnobis (none / one SPD / list / 3-d array, remove_mean off/on, float and uint8 data) and '
                 'poisson_cv; explicit and default folds (also with an existing cv_desc descriptor); list / tuple / ndarray '
                 'descriptors; designs %s, channels 1..3 (2..3 with remove_mean)' % (designs,), function='calc_rdm_crossnobis')
    k = 0
    for (C, M, R) in designs:
        for method in ('crossnobis', 'poisson_cv'):
            for mode in (('none', 'single', 'list', 'array3d') if method == 'crossnobis' else ('none',)):
                for default in (False, True):
                    for rm in ((False, True) if method == 'crossnobis' else (False,)):
                        k += 1
                        conds, folds = _design(C, M, R, ckinds[k % 5], fkinds[(k // 5) % 4], orders[(k // 2) % 4], seed=k)
                        case = dict(seed=k, conds=conds, P=(2 + k % 2) if rm else (1 + k % 3), noise=mode, remove_mean=rm, method=method,
                                    container=('list', 'ndarray', 'tuple')[k % 3], via='calc_rdm' if (k // 2) % 2 else 'direct')
                        if not default:
                            case['folds'] = folds
                        elif k % 2:
                            case['decoy_cv_desc'] = True
                        if k % 4 == 0:
                            case['desc_order'] = 'fold-first'
                        if k % 5 == 0 and method == 'crossnobis':
                            case['data'] = 'uint8'
                        bd.check(orc_sequence, case, '%s-%s,call-sequence%s' % (method, _noise_class(mode), ',default-folds' if default else ''),
                                 function='calc_rdm_crossnobis' if method == 'crossnobis' else 'calc_rdm_poisson_cv')
                        if not default and mode in ('none', 'single'):
                            # the caller has looked at single folds / conditions of the dataset before (rows not sorted by condition)
                            c2, f2 = _design(C, M, R, ckinds[k % 5], fkinds[(k // 5) % 4], ('cond-major', 'shuffled')[k % 2], seed=k + 3)
                            bd.check(orc_sequence, dict(case, conds=c2, folds=f2, prelude=True),
                                     '%s-%s,call-sequence,queries-before' % (method, _noise_class(mode)),
                                     function='calc_rdm_crossnobis' if method == 'crossnobis' else 'calc_rdm_poisson_cv')
    bd.done()
    bds.append(bd)

    # ---- 13. poisson_cv along the same dimensions --------------------------------------------------------------------
    punits = (1e-3, 1e3, 1e6, 1e9)
    bd = Bounded(run, 'C02/poisson-dimensions', OB_P,
                 'poisson_cv value == definition for: counts stored as uint8 / int32 (upper end of the type); rates in other units '
                 '(counts x u, u in %s, >= 3 conditions, tolerance 1e-9 relative to the largest expected entry); tuple / ndarray / '
                 'object ndarray descriptors, condition descriptor last in the dict, bool fold labels; designs up to 7 conditions x 11 '
                 'folds x 17 channels; a single condition; prior (1, 0.1) and (0.5, 1); designs %s' % (punits, designs),
                 function='calc_rdm_poisson_cv')
    k = 0
    for (C, M, R) in designs:
        for (lam, w) in ((1, 0.1), (0.5, 1.0)):
            for P in (1, 3):
                k += 1
                conds, folds = _design(C, M, R, ckinds[k % 5], fkinds[(k // 5) % 4], orders[(k // 2) % 4], seed=k)
                base = dict(seed=k, conds=conds, folds=folds, P=P, prior_lambda=lam, prior_weight=w, via='calc_rdm' if k % 2 else 'direct')
                for kind in ('counts-uint8', 'counts-int32'):
                    bd.check(orc_poisson, dict(base, data=kind), 'poisson_cv,%s-data' % kind[7:], function='calc_rdm_poisson_cv')
                if C >= 3:
                    for u in punits:
                        bd.check(orc_poisson, dict(base, unit=u), 'poisson_cv,%s-units' % ('small' if u < 1 else 'huge'),
                                 function='calc_rdm_poisson_cv')
                cont = (containers[:3] + ['list'])[k % 4]
                fk = 'bool' if (M == 2 and k % 2) else fkinds[k % 4]
                c2, f2 = _design(C, M, R, ckinds[k % 5], fk, orders[k % 4], seed=k)
                bd.check(orc_poisson, dict(base, conds=c2, folds=f2, container=cont, desc_order='fold-first'),
                         'poisson_cv,%s-descriptors,condition-descriptor-last%s' % (cont, ',bool-fold-labels' if fk == 'bool' else ''),
                         function='calc_rdm_poisson_cv')
    for k, (C, M, R, P) in enumerate([(7, 9, 1, 17), (2, 11, 2, 1), (1, 3, 2, 3), (1, 2, 1, 1)] + ([(12, 12, 2, 30)] if thorough else [])):
        conds, folds = _design(C, M, R, ('int-big', 'str-big')[k % 2], ('str-big', 'int-big')[k % 2], orders[k % 4], seed=k)
        bd.check(orc_poisson, dict(seed=k, conds=conds, folds=folds, P=P, via='calc_rdm' if k % 2 else 'direct'),
                 'single-condition' if C == 1 else 'poisson_cv,large-design', function='calc_rdm_poisson_cv')
    bd.done()
    bds.append(bd)

    # ---- 13b. many folds with text / float labels (selection of 20+ fold values at once), options that are zero -------------
    bd = Bounded(run, 'C02/many-folds-and-zero-options', 'C02/cross-validated-rdm/oracle/mean-of-between-fold-products',
                 'crossnobis and poisson_cv value == definition for 24 (thorough also 40) folds x 3 / 5 conditions with text, float and '
                 'integer fold labels (first appearance not sorted); poisson_cv with a zero prior weight and / or zero prior rate on '
                 'counts >= 1, via calc_rdm and directly', function='calc_rdm_crossnobis')
    k = 0
    for M in ((24, 40) if thorough else (24,)):
        for C in (3, 5):
            for fk in ('str-big', 'float-big', 'int-big'):
                k += 1
                conds, folds = _design(C, M, 1, ckinds[k % 5], fk, orders[k % 4], seed=k)
                bd.check(orc_crossnobis, dict(seed=k, conds=conds, folds=folds, P=2 + k % 2, noise=('none', 'single', 'list')[k % 3],
                                         remove_mean=bool(k % 2), via='calc_rdm' if k % 2 else 'direct'),
                         'many-folds,%s-fold-labels' % fk[:-4], function='calc_rdm_crossnobis')
                bd.check(orc_poisson, dict(seed=k, conds=conds, folds=folds, P=2, via='direct' if k % 2 else 'calc_rdm'),
                         'poisson_cv,many-folds,%s-fold-labels' % fk[:-4], function='calc_rdm_poisson_cv')
    # fold labels of large magnitude that differ only in the last digits (date codes, time stamps)
    k = 0
    for (C, M, R) in [(3, 3, 1), (2, 4, 2), (4, 5, 1)]:
        for fk in ('int-huge', 'float-huge'):
            k += 1
            conds, folds = _design(C, M, R, ckinds[k % 5], fk, orders[k % 4], seed=k)
            bd.check(orc_crossnobis, dict(seed=300 + k, conds=conds, folds=folds, P=3, noise=('none', 'single', 'list')[k % 3],
                                          remove_mean=bool(k % 2), via='calc_rdm' if k % 2 else 'direct'),
                     'large-magnitude-fold-labels', function='calc_rdm_crossnobis')
            bd.check(orc_poisson, dict(seed=300 + k, conds=conds, folds=folds, P=2, via='direct' if k % 2 else 'calc_rdm'),
                     'poisson_cv,large-magnitude-fold-labels', function='calc_rdm_poisson_cv')
    k = 0
    for (C, M, R) in [(3, 3, 1), (2, 4, 2), (4, 2, 1)]:
        for (lam, w) in ((1, 0), (0, 0.1), (0, 0), (0.5, 0), (0, 1.0)):
            for via in ('calc_rdm', 'direct'):
                k += 1
                conds, folds = _design(C, M, R, ckinds[k % 5], fkinds[k % 4], orders[k % 4], seed=k)
                bd.check(orc_poisson, dict(seed=k, conds=conds, folds=folds, P=2 + k % 2, prior_lambda=lam, prior_weight=w, via=via,
                                           data='counts-positive'), 'poisson_cv,zero-prior-option', function='calc_rdm_poisson_cv')
    bd.done()
    bds.append(bd)

    # ---- 14. a new interpreter with another hash seed ----------------------------------------------------------------
    hashseeds = (1, 987654, 31337, 4242) if thorough else (1, 987654)
    jobs = []
    k = 0
    for (C, M, R) in [(3, 3, 1), (4, 2, 2), (2, 4, 1)]:
        for ck, fk in (('str', 'str'), ('str-long', 'str'), ('str-big', 'str-big'), ('str', 'float')):
            k += 1
            conds, folds = _design(C, M, R, ck, fk, orders[k % 4], seed=k)
            jobs.append(['C02/crossnobis-value', dict(seed=k, conds=conds, folds=folds, P=2, noise=('list', 'none', 'single')[k % 3],
                                                      remove_mean=bool(k % 2), via='calc_rdm')])
            jobs.append(['C02/default-folds', dict(seed=k, conds=conds, P=2, noise=('none', 'list')[k % 2], via='direct')])
            if k % 2:
                jobs.append(['C02/poisson-value', dict(seed=k, conds=conds, folds=folds, P=2, via='calc_rdm')])
            if k % 4 == 0:
                jobs.append(['C02/invariances', dict(seed=k, conds=conds, folds=_design(C, M, R, ck, 'int', orders[k % 4], seed=k)[1], P=2,
                                                     noise='list', remove_mean=False, relabel='str', via='calc_rdm')])
    bd = Bounded(run, 'C02/fresh-interpreter', 'C02/cross-validated-rdm/oracle/same-result-in-a-new-interpreter',
                 '%d value / default-fold / poisson_cv / invariance cases with string condition and string fold labels, re-run in new '
                 'interpreters started with PYTHONHASHSEED in %s (this process runs under the seed ./check sets)'
                 % (len(jobs), hashseeds), function='calc_rdm_crossnobis')
    for hs in hashseeds:
        bd.check(orc_fresh, dict(hashseed=hs, jobs=jobs), 'string-labels,other-hash-seed', function='calc_rdm_crossnobis')
    bd.done()
    bds.append(bd)
    return bds
