"""C20 -- importers recover exactly the structure encoded in external names and files."""
from contracts._wrap import finish, replay  # noqa

LEVEL = 'other'


def run(run):
    fails = []
    try:
        from contracts.C20_a import deductive
        fails = deductive(run)
    except ImportError:
        run.notes.append('deductive tier for the BIDS string grammar (contracts/C20_a.py) not present: property decided by the bounded tier only')
    finish(run, fails, 'C20')
    run.explanation = ('deductive tier: the real BIDS parser / path builder symbolically executed on structured strings (all presence '
                       'combinations x all alphanumeric entity values); Meadows / MNE / design-matrix / SPM clauses by bounded oracles')
