"""C20 -- importers recover exactly the structure encoded in external names and files."""
from contracts._wrap import finish, replay  # noqa

LEVEL = 'exploration'


def run(run):
    fails = []
    try:
        from contracts.C20_a import deductive
        fails = deductive(run)
    except ImportError:
        run.notes.append('deductive tier for the BIDS string grammar (contracts/C20_a.py) not present: property decided by the bounded tier only')
    finish(run, fails, 'C20')
    run.explanation = ('bounded run-time oracles (exhaustive over presence/absence of the BIDS entities with several value families; '
                       'generated Meadows / MNE / SPM inputs); labelled bounded, nothing here is counted as proved')
