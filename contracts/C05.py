"""C05 -- folds partition the data; test data never influence fitting."""
import z3

from vf.pyvc.values import V, SV, Obj, SeqV, CaseV, Undecided, fresh_name
from vf.pyvc.api import FuncCheck
from contracts.common import new_engine, finish_engine, report_a_failures

LEVEL = 'proof'
CV = 'rsatoolbox.inference.crossvalsets.'


def groups_of(E, rdms, which, desc):
    """the sequence of distinct descriptor groups (np.unique of the descriptor), as the code obtains it"""
    d = E.getattr(rdms, which)
    col = E.getitem(d, desc)
    return E.lib['numpy.unique'](E, col)


def _esym(G, name):
    return z3.Const(fresh_name(name), V) if G.esort == 'val' else z3.Int(fresh_name(name))


def _selection_of(ck, E, obj, rdms, desc, method, label_prefix, quiet=False):
    """the group sequence an RDMs object was selected with: obj must be rdms.<method>(desc, groups)"""
    from vf.pyvc.values import CaseV as _C
    if isinstance(obj, _C):
        parts = [(g, _selection_of(ck, E, v, rdms, desc, method, label_prefix, quiet)) for g, v in obj.cases]
        if any(p[1] is None for p in parts):
            return None
        return _C(parts)
    app = getattr(obj, 'app', None)
    if app is None or app[0] != f'RDMs.{method}' or app[1][0] is not rdms:
        if not quiet:
            ck.ensure(f'{label_prefix}/contents-built-by-{method}', z3.BoolVal(False),
                      note=f'returned object is not rdms.{method}(descriptor, groups): {app[0] if app else obj!r}')
        return None
    if not quiet:
        ck.ensure_eq(f'{label_prefix}/contents-descriptor', app[1][1], desc)
    return app[1][2]


def fold_post(label_prefix, which, method, exhaustive=True):
    """property-level postcondition of a fold generator over one factor.
    which: 'pattern_descriptors' | 'rdm_descriptors'; method: RDMs method that must build the sets"""
    def post(ck, E, args, kw, p, desc=None, rdms=None, k=None, idx_pos=1, single_fold_is_no_cv=False):
        train, test, ceil = p.value
        G = groups_of(E, rdms, which, desc)
        n = G.zlen()
        kk = E.as_int(E.seq_len(train))
        ck.ensure(f'{label_prefix}/count', z3.And(E.as_int(E.seq_len(test)) == kk,
                                                  kk == (E.as_int(k) if k is not None else kk)))
        i = z3.Int(fresh_name('fi'))
        j = z3.Int(fresh_name('fj'))
        E.pc.append(z3.And(i >= 0, i < kk, j >= 0, j < kk))
        p.pc = list(E.pc)
        ti, tj = E.seq_elem(test, i), E.seq_elem(test, j)
        ri = E.seq_elem(train, i)
        if idx_pos is not None:
            test_i, test_j, train_i = E.getitem(ti, idx_pos), E.getitem(tj, idx_pos), E.getitem(ri, idx_pos)
        else:
            test_i, test_j, train_i = (_selection_of(ck, E, E.getitem(x, 0), rdms, desc, method, label_prefix)
                                       for x in (ti, tj, ri))
            if test_i is None or test_j is None or train_i is None:
                return train, test, ceil
        y = _esym(G, 'y')
        in_test_i, in_test_j, in_train_i = E.seq_mem(test_i, y), E.seq_mem(test_j, y), E.seq_mem(train_i, y)
        isG = E.seq_mem(G, y)
        ck.ensure(f'{label_prefix}/test-subset-of-groups', z3.Implies(in_test_i, isG))
        ck.ensure(f'{label_prefix}/train-subset-of-groups', z3.Implies(in_train_i, isG))
        ck.ensure(f'{label_prefix}/train-test-disjoint', z3.Implies(kk > 1, z3.Not(z3.And(in_test_i, in_train_i))))
        ck.ensure(f'{label_prefix}/train-is-complement', z3.Implies(z3.And(kk > 1, isG), z3.Or(in_test_i, in_train_i)))
        if single_fold_is_no_cv:
            ck.ensure(f'{label_prefix}/no-cv-when-single-fold', z3.Implies(kk == 1, in_test_i == in_train_i))
        if exhaustive:
            ck.ensure(f'{label_prefix}/folds-disjoint', z3.Implies(i != j, z3.Not(z3.And(in_test_i, in_test_j))))
            li, lj = E.as_int(E.seq_len(test_i)), E.as_int(E.seq_len(test_j))
            ck.ensure(f'{label_prefix}/balanced', z3.And(li - lj <= 1, lj - li <= 1))
            # cover: every group lies in some test fold.  Witness candidates for the fold index are
            # computed from the position q of the group in the (possibly shuffled) group order.
            gsz = n / kk
            pos = [G.inv(y)] + [pinv(G.inv(y)) for (_pi, pinv, _n) in getattr(p, 'perms', [])]
            cands = []
            for q in pos:
                cands += [q / z3.If(gsz > 0, gsz, 1), n - 1 - q]
            alts = []
            for w in cands:
                tw = E.getitem(E.seq_elem(test, w), idx_pos) if idx_pos is not None else \
                    _selection_of(ck, E, E.getitem(E.seq_elem(test, w), 0), rdms, desc, method, label_prefix, quiet=True)
                alts.append(z3.And(w >= 0, w < kk, E.seq_mem(tw, y)))
            ck.ensure(f'{label_prefix}/cover', z3.Implies(isG, z3.Or(alts)))
        # contents: the objects are exactly the advertised selections of the source
        if idx_pos is not None:
            m = E.methods[('RDMs', method)]
            ck.ensure_eq(f'{label_prefix}/contents-test', E.getitem(ti, 0), m(E, rdms, desc, test_i))
            ck.ensure_eq(f'{label_prefix}/contents-train', E.getitem(ri, 0), m(E, rdms, desc, train_i))
        return train, test, ceil
    return post


def check_k_fold_pattern(run, E):
    base = fold_post('post', 'pattern_descriptors', 'subset_pattern')
    for kcase in ('int', 'none'):
        for rnd in (False, True):
            ck = FuncCheck(E, run, 'C05', CV + 'sets_k_fold_pattern', f'k={kcase},random={rnd}')

            def mk(E, kcase=kcase, rnd=rnd):
                rdms = E.sym_obj('rdms', 'RDMs')
                pd = E.sym_val('pd', tag='scalar')
                k = E.sym_int('k') if kcase == 'int' else None
                assume = [k.z >= 1] if k is not None else []
                return [rdms, pd, k, rnd], {}, assume

            def post(ck, E, args, kw, p):
                rdms, pd, k, rnd = args
                train, test, ceil = base(ck, E, args, kw, p, desc=pd, rdms=rdms, k=k, single_fold_is_no_cv=True)
                ck.ensure('post/ceil-none', ceil is None)

            def allow(E, args, kw, p):
                # the documented precondition: at most as many folds as groups
                rdms, pd, k, rnd = args
                if p.exc.exc_name != 'AssertionError':
                    return None
                n = groups_of(E, rdms, 'pattern_descriptors', pd).zlen()
                if k is None:
                    return n < 2     # default k is >= 2
                return E.as_int(k) > n
            ck.execute(mk, post=post, allow_raise=allow)
            yield ck


def check_k_fold_rdm(run, E):
    base = fold_post('post', 'rdm_descriptors', 'subsample')
    for kcase in ('int', 'none'):
        for rnd in (False, True):
            ck = FuncCheck(E, run, 'C05', CV + 'sets_k_fold_rdm', f'k={kcase},random={rnd}')

            def mk(E, kcase=kcase, rnd=rnd):
                rdms = E.sym_obj('rdms', 'RDMs')
                rd = E.sym_val('rd', tag='scalar')
                k = E.sym_int('k') if kcase == 'int' else None
                return [rdms, k, rnd, rd], {}, ([k.z >= 2] if k is not None else [])

            def post(ck, E, args, kw, p):
                rdms, k, rnd, rd = args
                train, test, ceil = base(ck, E, args, kw, p, desc=rd, rdms=rdms, k=k, idx_pos=None)
                # rdm-only schemes: the ceiling sets are the training sets; all conditions are kept
                ck.ensure('post/ceil-is-train', ceil is train)
                i = z3.Int(fresh_name('ci'))
                E.pc.append(z3.And(i >= 0, i < E.as_int(E.seq_len(test))))
                p.pc = list(E.pc)

            def allow(E, args, kw, p):
                rdms, k, rnd, rd = args
                if p.exc.exc_name != 'AssertionError':
                    return None
                n = groups_of(E, rdms, 'rdm_descriptors', rd).zlen()
                return n < 2 if k is None else E.as_int(k) > n
            ck.execute(mk, post=post, allow_raise=allow)
            yield ck


def check_of_k(run, E):
    """sets_of_k_*: call-site conformance and delegation (the partition clauses are those of the callee)"""
    for fn, callee, which in (('sets_of_k_pattern', 'sets_k_fold_pattern', 'pattern_descriptors'),
                              ('sets_of_k_rdm', 'sets_k_fold_rdm', 'rdm_descriptors')):
        for rnd in (False, True):
            ck = FuncCheck(E, run, 'C05', CV + fn, f'random={rnd}')

            def mk(E, rnd=rnd):
                rdms = E.sym_obj('rdms', 'RDMs')
                d = E.sym_val('desc', tag='scalar')
                k = E.sym_int('k')
                return [rdms, d, k, rnd], {}, [k.z >= 1]

            def post(ck, E, args, kw, p, callee=callee, which=which):
                rdms, d, k, rnd = args
                n = groups_of(E, rdms, which, d).zlen()
                kz = E.as_int(k)
                app = getattr(p.value, 'app', None)
                ok = app is not None and app[0] == CV + callee
                ck.ensure('post/delegates-to-k-fold', z3.BoolVal(ok))
                if ok:
                    fv = E.find_function(CV + callee)
                    names = [a.arg for a in fv.node.args.args]
                    got = dict(zip(names, app[1]))
                    ck.ensure_eq('post/same-data', got['rdms'], rdms)
                    ck.ensure_eq('post/same-descriptor', got[[x for x in names if 'descriptor' in x][0]], d)
                    kk = got['k'] if 'k' in got else got['k_rdm']
                    # number of folds = floor(#groups / k): groups of (at least) k
                    ck.ensure('post/fold-count', z3.And(E.as_int(kk) * kz <= n, (E.as_int(kk) + 1) * kz > n))
                    ck.ensure_eq('post/random-forwarded', got['random'], rnd)

            def allow(E, args, kw, p, which=which):
                rdms, d, k, rnd = args
                if p.exc.exc_name != 'AssertionError':
                    return None
                n = groups_of(E, rdms, which, d).zlen()
                return 2 * E.as_int(k) > n
            E.no_inline = {CV + callee}
            saved = dict(E.contracts)
            ck.execute(mk, post=post, allow_raise=allow)
            E.no_inline = set()
            yield ck


def check_leave_one_out(run, E, pid='C05'):
    for fn, which, method in (('sets_leave_one_out_pattern', 'pattern_descriptors', 'subset_pattern'),
                              ('sets_leave_one_out_rdm', 'rdm_descriptors', 'subset')):
        base = fold_post('post', which, method)
        ck = FuncCheck(E, run, pid, CV + fn, '')

        def mk(E):
            rdms = E.sym_obj('rdms', 'RDMs')
            d = E.sym_val('desc', tag='scalar')
            return [rdms, d], {}, []

        def post(ck, E, args, kw, p, fn=fn, which=which):
            rdms, d = args
            n = groups_of(E, rdms, which, d).zlen()
            if fn.endswith('pattern'):
                train, test, ceil = base(ck, E, args, kw, p, desc=d, rdms=rdms, idx_pos=1)
                ck.ensure('post/one-fold-per-group', E.as_int(E.seq_len(test)) == n)
            else:
                # with a single group the function documents "no cross-validation": all three sets are the data
                single = E.prove(n <= 1, pc=p.pc)[0] == 'proved'
                if single:
                    ck.ensure_eq('post/single-group-returns-data', E.getitem(E.getitem(p.value[1], 0), 0), rdms)
                else:
                    train, test, ceil = base(ck, E, args, kw, p, desc=d, rdms=rdms, idx_pos=None)
                    ck.ensure('post/one-fold-per-group', E.as_int(E.seq_len(test)) == n)
                    ck.ensure('post/ceil-is-train', ceil is train)
        ck.execute(mk, post=post, allow_raise=lambda *a: None)
        yield ck


def run(run):
    E = new_engine(run)
    fails = []
    for gen in (check_k_fold_pattern, check_k_fold_rdm, check_of_k, check_leave_one_out):
        for ck in gen(run, E):
            fails += ck.failed
    # cross-validated evaluation: parameters are fitted on train_f only and the score of fold f is the comparison with test_f
    # only (the deductive form of the non-interference clause; contract shared with C04)
    from contracts import C04
    E4 = C04.engine(run)
    for ck in C04.check_crossval(run, E4, pid='C05'):
        fails += ck.failed
    finish_engine(E4, run)
    # bootstrap-wrapped cross-validation: the folds inside a bootstrap sample come from sets_k_fold with the CALLER'S rdm and
    # pattern descriptors (whole groups stay on one side of a fold), contract shared with C04
    E4b = C04.engine_cv(run)
    for ck in C04.check_internal_cv(run, E4b, pid='C05'):
        fails += ck.failed
    finish_engine(E4b, run)
    finish_engine(E, run)
    # callee contract of the RDM-wise generators: they hand out RDMs.subset(rdm_descriptor, values), assumed above to be the
    # selection of exactly the RDMs carrying a requested value (also on resampled data whose 'index' has repeats and gaps).
    # The contract C10 generates for RDMs.subset is discharged in this run too (own engine: it executes the body).
    from contracts import C10
    E10 = new_engine(run)
    for ck in C10.check_subset(run, E10, pid='C05'):
        fails += ck.failed
    finish_engine(E10, run)
    bds = [tier_c_folds(run, run.tier == 'thorough'), tier_c_noninterference(run, run.tier == 'thorough')]
    report_a_failures(run, fails, bds)


# =====================================================================================================
# tier C: bounded run-time oracles on the real functions (concrete replays; never counted as proved)
# =====================================================================================================
# Dimensions varied by the fold oracle (C05/folds) besides sizes / groupings / k / shuffle seeds:
#   container : rdm / pattern descriptors held as list, numpy array or tuple
#   labels    : group labels as int, str (sorted order != numeric order), float, negative / non-contiguous ints; descending
#               and interleaved label order (first-appearance order != sorted order); unbalanced group sizes
#   desc      : 'default' -- the generators are called WITHOUT descriptor arguments (grouping by the 'index' descriptor)
#   k=None    : the default number of folds (docstrings: the default ks lie in 2..5, i.e. both factors are cross-validated)
#   dtype     : dissimilarities typed int16 / int32 / float32 (selections only move values around: same values expected)
#   scale     : dissimilarities in extreme units (x 1e-20, x 1e+10);   nan: missing (NaN) entries travel with their pair
#   seq       : call sequences -- a second data set of the same shape but other content and other grouping is processed
#               between two identical calls: the held result of the first call must still be the advertised selection of
#               the first source, the first source must be unchanged, and the repeated call (same inputs, same numpy seed)
#               must give the identical folds
#   C05/folds-hashseed: the folds (ordered, and shuffled under a fixed numpy seed) are the same in new interpreters started with
#               other PYTHONHASHSEED values (str / int labels), and the property holds there as well
# and by the non-interference oracles: repeated descriptor values (groups / copies) along both factors, shuffled folds, data
# typed float32 / integer, extreme units, select / interpolate models with their default fitters, and (C05/noninterference-boot)
# the bootstrap-wrapped cross-validation (bootstrap copies of conditions and RDMs, fold ids expanded to multiplicities).
import itertools
import numpy as np
from vf.rt.harness import oracle, Bounded, replay_file, close

_SPEC_KEYS = ('container', 'dtype', 'scale', 'nan', 'off', 'resampled')


def _spec_of(case):
    return {k: case[k] for k in _SPEC_KEYS if case.get(k) is not None}


def _sent(r, a, b, spec=None):
    """sentinel value of entry (rdm r, conditions a<b) under the typing / unit options of the case"""
    spec = spec or {}
    if spec.get('nan') and (r + a + b) % 4 == 0:
        return float('nan')
    v = spec.get('off', 0) + 1000.0 * (r + 1) + 30 * a + b
    if spec.get('scale') is not None:
        v = v * spec['scale']
    if spec.get('dtype'):
        v = float(np.array([v]).astype(spec['dtype'])[0])
    return v


def _mk_rdms(n_rdm, n_cond, rgroups, pgroups, container='list', spec=None):
    """RDMs with sentinel values: entry (r, a<b) = 1000*(r+1) + 30*a + b ; ids in descriptors (lists, tuples or numpy arrays)"""
    from rsatoolbox.rdm import RDMs
    spec = spec or {}
    vec = []
    for r in range(n_rdm):
        vec.append([_sent(r, a, b, dict(spec, dtype=None)) for a in range(n_cond) for b in range(a + 1, n_cond)])
    vec = np.array(vec)
    if spec.get('dtype'):
        vec = vec.astype(spec['dtype'])
    container = spec.get('container', container)
    c = np.array if container == 'array' else (tuple if container == 'tuple' else list)
    out = RDMs(vec, rdm_descriptors={'rid': c(range(n_rdm)), 'rg': c(rgroups)},
               pattern_descriptors={'cid': c(range(n_cond)), 'pg': c(pgroups)})
    if spec.get('resampled'):
        # an object as it comes out of a bootstrap / subset: its 'index' descriptors are the group labels of the case (repeats
        # and gaps, not the positions 0..n-1)
        out.rdm_descriptors['index'] = c(rgroups)
        out.pattern_descriptors['index'] = c(pgroups)
    return out


def _source_intact(rdms, n_rdm, n_cond, rg, pg, spec=None):
    """the generator must hand out selections of the source, not re-label the source itself"""
    want = _mk_rdms(n_rdm, n_cond, rg, pg, spec=spec)
    for nm, a, b in (('rdm', rdms.rdm_descriptors, want.rdm_descriptors),
                     ('pattern', rdms.pattern_descriptors, want.pattern_descriptors)):
        for k in b:
            if k not in a or list(a[k]) != list(b[k]):
                return (f'the {nm} descriptor {k!r} of the SOURCE object was changed by the generator: '
                        f'{list(a[k]) if k in a else None} (was {list(b[k])})')
    if not np.array_equal(rdms.dissimilarities, want.dissimilarities, equal_nan=bool((spec or {}).get('nan'))):
        return 'the dissimilarities of the source object were changed by the generator'
    return None


def _content_ok(obj, where, spec=None):
    """every entry of obj equals the sentinel of its own (rid, cid, cid) labels"""
    m = obj.get_matrices()
    rid = list(obj.rdm_descriptors['rid'])
    cid = list(obj.pattern_descriptors['cid'])
    for r in range(m.shape[0]):
        for a in range(len(cid)):
            for b in range(len(cid)):
                if a == b:
                    continue
                lo, hi = min(cid[a], cid[b]), max(cid[a], cid[b])
                want = _sent(rid[r], lo, hi, spec) if lo != hi else float('nan')
                got = m[r, a, b]
                if not (got == want or (np.isnan(got) and np.isnan(want))):
                    return f'{where}: entry rid={rid[r]} cid=({cid[a]},{cid[b]}) is {got}, source has {want}'
    return None


def _expect_members(obj, rg_set, pg_set, src_rg, src_pg, where, spec=None):
    """obj contains exactly the RDMs with rg in rg_set and the conditions with pg in pg_set (all copies)"""
    want_r = sorted(i for i, g in enumerate(src_rg) if g in rg_set)
    want_c = sorted(i for i, g in enumerate(src_pg) if g in pg_set)
    got_r = sorted(obj.rdm_descriptors['rid'])
    got_c = sorted(obj.pattern_descriptors['cid'])
    if got_r != want_r:
        return f'{where}: RDM ids {got_r}, advertised groups {sorted(rg_set)} mean {want_r}'
    if got_c != want_c:
        return f'{where}: condition ids {got_c}, advertised groups {sorted(pg_set)} mean {want_c}'
    return _content_ok(obj, where, spec)


def _call_gen(cvs, rdms, case):
    """one call of the generator named by the case; -> (train, test, ceil, factors, exhaustive)"""
    gen = case['gen']
    dflt = case.get('desc') == 'default'      # descriptor arguments left at their defaults: grouping by 'index'
    k = case.get('k')
    np.random.seed(case.get('seed', 0))
    exhaustive = True
    if gen == 'leave_one_out_pattern':
        tr, te, ce = cvs.sets_leave_one_out_pattern(rdms, 'index' if dflt else 'pg')   # no default in the signature
        factors = ('p',)
    elif gen == 'leave_one_out_rdm':
        tr, te, ce = cvs.sets_leave_one_out_rdm(rdms) if dflt else cvs.sets_leave_one_out_rdm(rdms, 'rg')
        factors = ('r',)
    elif gen == 'k_fold_pattern':
        tr, te, ce = (cvs.sets_k_fold_pattern(rdms, k=k, random=case['random']) if dflt else
                      cvs.sets_k_fold_pattern(rdms, 'pg', k=k, random=case['random']))
        factors = ('p',)
    elif gen == 'k_fold_rdm':
        tr, te, ce = (cvs.sets_k_fold_rdm(rdms, k_rdm=k, random=case['random']) if dflt else
                      cvs.sets_k_fold_rdm(rdms, k_rdm=k, random=case['random'], rdm_descriptor='rg'))
        factors = ('r',)
    elif gen == 'of_k_pattern':
        kw = dict(random=case['random'], **({} if k is None else dict(k=k)))
        tr, te, ce = cvs.sets_of_k_pattern(rdms, **kw) if dflt else cvs.sets_of_k_pattern(rdms, 'pg', **kw)
        factors = ('p',)
    elif gen == 'of_k_rdm':
        kw = dict(random=case['random'], **({} if k is None else dict(k=k)))
        tr, te, ce = cvs.sets_of_k_rdm(rdms, **kw) if dflt else cvs.sets_of_k_rdm(rdms, 'rg', **kw)
        factors = ('r',)
    elif gen == 'k_fold':
        kw = {} if dflt else dict(pattern_descriptor='pg', rdm_descriptor='rg')
        tr, te, ce = cvs.sets_k_fold(rdms, k_rdm=case['k_rdm'], k_pattern=k, random=case['random'], **kw)
        factors = ('r', 'p')
    elif gen == 'random':
        kw = {} if dflt else dict(pattern_descriptor='pg', rdm_descriptor='rg')
        tr, te, ce = cvs.sets_random(rdms, n_rdm=case['k_rdm'], n_pattern=k, n_cv=case['n_cv'], **kw)
        factors, exhaustive = ('r', 'p'), False
    else:
        raise ValueError(gen)
    return tr, te, ce, factors, exhaustive


def _check_sets(case, rdms, tr, te, ce, factors, exhaustive):
    """all clauses of the fold part of the property for one returned (train, test, ceil) triple"""
    n_rdm, n_cond = case['n_rdm'], case['n_cond']
    rg, pg = case['rg'], case['pg']
    gen = case['gen']
    spec = _spec_of(case)
    rname, pname = ('index', 'index') if case.get('desc') == 'default' else ('rg', 'pg')
    all_rg, all_pg = set(rg), set(pg)
    if len(tr) != len(te):
        return f'{len(tr)} training sets but {len(te)} test sets'
    msg = _source_intact(rdms, n_rdm, n_cond, rg, pg, spec)
    if msg:
        return msg
    n_fold = len(te)
    # is each factor actually cross-validated (more than one fold requested along it)?  k = None: the default number of
    # folds, documented to lie in 2..5 (for sets_random: a default test-set size > 0)
    cv_r = 'r' in factors
    cv_p = 'p' in factors
    k, k_rdm = case.get('k'), case.get('k_rdm')
    if gen == 'k_fold':
        cv_r, cv_p = k_rdm is None or k_rdm > 1, k is None or k > 1
    elif gen == 'random':
        cv_r, cv_p = k_rdm is None or k_rdm > 0, k is None or k > 0
    elif gen == 'k_fold_pattern':
        cv_p = k is None or k > 1
    elif gen == 'of_k_pattern':
        cv_p = int(len(all_pg) / (5 if k is None else k)) > 1       # k = None: the default group size 5 of the signature
    elif gen == 'k_fold_rdm':
        cv_r = k is None or k > 1
    elif gen == 'of_k_rdm':
        cv_r = int(len(all_rg) / (5 if k is None else k)) > 1
    elif gen == 'leave_one_out_rdm':
        cv_r = len(all_rg) > 1
    elif gen == 'leave_one_out_pattern':
        cv_p = len(all_pg) > 1
    if gen in ('k_fold_pattern', 'k_fold_rdm') and k is not None and n_fold != k:
        return f'{n_fold} folds returned, {k} requested'
    if gen == 'k_fold' and k is not None and k_rdm is not None and n_fold != k * k_rdm:
        return f'{n_fold} folds returned, {k_rdm} x {k} requested'
    seen = {}
    sizes = []
    for f in range(n_fold):
        t_obj, r_obj = te[f][0], tr[f][0]
        t_rg, r_rg = set(t_obj.rdm_descriptors[rname]), set(r_obj.rdm_descriptors[rname])
        t_pg, r_pg = set(t_obj.pattern_descriptors[pname]), set(r_obj.pattern_descriptors[pname])
        if 'p' in factors:
            if set(te[f][1]) != t_pg:
                return f'fold {f}: test index list {sorted(set(te[f][1]))} but test object holds groups {sorted(t_pg)}'
            if set(tr[f][1]) != r_pg:
                return f'fold {f}: train index list {sorted(set(tr[f][1]))} but train object holds groups {sorted(r_pg)}'
        for nm, obj, rgs, pgs in (('test', t_obj, t_rg, t_pg), ('train', r_obj, r_rg, r_pg)):
            msg = _expect_members(obj, rgs, pgs, rg, pg, f'fold {f} {nm}', spec)
            if msg:
                return msg
        if cv_r:
            if t_rg & r_rg:
                return f'fold {f}: RDM groups {sorted(t_rg & r_rg)} are in both the training and the test set'
            if exhaustive and (t_rg | r_rg) != all_rg:
                return f'fold {f}: RDM groups {sorted(all_rg - t_rg - r_rg)} are in neither set'
        elif 'r' not in factors and (t_rg != all_rg or r_rg != all_rg):
            return f'fold {f}: RDMs were dropped although only conditions are cross-validated'
        if cv_p:
            if t_pg & r_pg:
                return f'fold {f}: condition groups {sorted(t_pg & r_pg)} are in both the training and the test set'
            if exhaustive and (t_pg | r_pg) != all_pg:
                return f'fold {f}: condition groups {sorted(all_pg - t_pg - r_pg)} are in neither set'
        elif 'p' not in factors and (t_pg != all_pg or r_pg != all_pg):
            return f'fold {f}: conditions were dropped although only RDMs are cross-validated'
        for a in (t_rg if 'r' in factors else [None]):
            for b in (t_pg if 'p' in factors else [None]):
                seen[(a, b)] = seen.get((a, b), 0) + 1
        sizes.append((len(t_rg) if 'r' in factors else 0, len(t_pg) if 'p' in factors else 0))
        if ce is None:
            if gen not in ('k_fold_pattern', 'of_k_pattern'):
                return 'ceil_set is None for a scheme that advertises ceiling sets'
        else:
            c_obj = ce[f][0]
            if gen in ('k_fold_rdm', 'of_k_rdm', 'leave_one_out_rdm'):
                want_r, want_p = r_rg, all_pg
            elif gen == 'leave_one_out_pattern':
                want_r, want_p = all_rg, t_pg
            else:
                want_r, want_p = r_rg, t_pg
            msg = _expect_members(c_obj, want_r, want_p, rg, pg, f'fold {f} ceil', spec)
            if msg:
                return msg + ' (ceiling set must be the training RDMs at the test conditions)'
    if exhaustive:
        cells = [(a, b) for a in (all_rg if 'r' in factors else [None]) for b in (all_pg if 'p' in factors else [None])]
        for c in cells:
            if seen.get(c, 0) != 1:
                return f'group cell {c} is tested {seen.get(c, 0)} times (must be exactly once)'
        for d in (0, 1):
            ss = [s[d] for s in sizes]
            if max(ss) - min(ss) > 1:
                return f'test fold sizes differ by more than one: {ss}'
    return None


def _py(x):
    return x.item() if isinstance(x, np.generic) else x


def _summary(tr, te, ce):
    """JSON-able description of a result: per fold the member ids, the index lists and the values handed out"""
    out = []
    for name, sets in (('train', tr), ('test', te), ('ceil', ce)):
        if sets is None:
            out.append([name, None])
            continue
        folds = []
        for s in sets:
            o = s[0]
            folds.append([[_py(x) for x in o.rdm_descriptors['rid']], [_py(x) for x in o.pattern_descriptors['cid']],
                          [_py(x) for x in s[1]],
                          [[None if np.isnan(v) else float(v) for v in row] for row in np.atleast_2d(o.dissimilarities)]])
        out.append([name, folds])
    return out


def _first_diff(a, b):
    for (na, fa), (nb, fb) in zip(a, b):
        if fa is None or fb is None:
            if fa is not fb:
                return f'{na} set: {"None" if fa is None else "a list"} vs {"None" if fb is None else "a list"}'
            continue
        if len(fa) != len(fb):
            return f'{na} set: {len(fa)} vs {len(fb)} folds'
        for f, (x, y) in enumerate(zip(fa, fb)):
            for what, u, v in zip(('RDM ids', 'condition ids', 'index list', 'dissimilarities'), x, y):
                if u != v:
                    return f'{na} set, fold {f}, {what}: {str(u)[:120]} vs {str(v)[:120]}'
    return None


def _folds_eval(case):
    """(failure message or None, summary of the folds) from ONE call of the generator"""
    import rsatoolbox.inference.crossvalsets as cvs
    rdms = _mk_rdms(case['n_rdm'], case['n_cond'], case['rg'], case['pg'], case.get('container', 'list'), _spec_of(case))
    tr, te, ce, factors, exhaustive = _call_gen(cvs, rdms, case)
    msg = _check_sets(case, rdms, tr, te, ce, factors, exhaustive)
    return msg, (None if msg else _summary(tr, te, ce))


@oracle('C05/folds')
def orc_folds(case):
    import rsatoolbox.inference.crossvalsets as cvs
    n_rdm, n_cond = case['n_rdm'], case['n_cond']
    rg, pg = case['rg'], case['pg']
    spec = _spec_of(case)
    rdms = _mk_rdms(n_rdm, n_cond, rg, pg, case.get('container', 'list'), spec)
    tr, te, ce, factors, exhaustive = _call_gen(cvs, rdms, case)
    msg = _check_sets(case, rdms, tr, te, ce, factors, exhaustive)
    if msg or not case.get('seq'):
        return msg
    # ---- call sequence: other content of the same shape in between, then the first call again -----------------
    first = _summary(tr, te, ce)
    # seq = 'values': same labels, other dissimilarities (a cache keyed by shape / labels would serve stale selections);
    # seq = 'regroup': other dissimilarities AND the grouping reversed
    regroup = case['seq'] == 'regroup'
    case2 = dict(case, rg=list(rg)[::-1] if regroup else rg, pg=list(pg)[::-1] if regroup else pg, off=500000,
                 seed=case.get('seed', 0) + (1 if regroup else 0))
    rdms2 = _mk_rdms(n_rdm, n_cond, case2['rg'], case2['pg'], case.get('container', 'list'), _spec_of(case2))
    tr2, te2, ce2, _, _ = _call_gen(cvs, rdms2, case2)
    msg = _check_sets(case2, rdms2, tr2, te2, ce2, factors, exhaustive)
    if msg:
        return (f"second data set of the same shape (other values, {'reversed grouping' if regroup else 'same labels'}), "
                f'processed after the first: ' + msg)
    msg = _check_sets(case, rdms, tr, te, ce, factors, exhaustive)
    if msg:
        return 'result of the FIRST call, re-inspected after the generator was called on another data set: ' + msg
    d = _first_diff(first, _summary(tr, te, ce))
    if d:
        return 'the result held by the caller changed when the generator was called on another data set: ' + d
    tr3, te3, ce3, _, _ = _call_gen(cvs, rdms, case)
    msg = _check_sets(case, rdms, tr3, te3, ce3, factors, exhaustive)
    if msg:
        return 'repeated call on the first data set: ' + msg
    d = _first_diff(first, _summary(tr3, te3, ce3))
    if d:
        return 'the same call (same data, same arguments, same numpy seed) gave different folds the second time: ' + d
    d = _first_diff(first, _summary(tr, te, ce))
    if d:
        return 'the result held by the caller changed when the same call was repeated: ' + d
    return None


_HASHSEED_SCRIPT = ('import sys, json\n'
                    'from contracts import C05\n'
                    'cases = json.load(sys.stdin)\n'
                    'out = []\n'
                    'for c in cases:\n'
                    '    out.append(list(C05._folds_eval(c)))\n'
                    'sys.stdout.write("@@RESULT@@" + json.dumps(out))\n')


@oracle('C05/folds-hashseed')
def orc_folds_hashseed(case):
    """the property holds in a new interpreter started with another PYTHONHASHSEED, and the folds -- ordered assignment, or
    shuffled under a fixed numpy seed -- are the same there as in this process"""
    import json
    import os
    import subprocess
    import sys
    import tempfile
    cases = case['cases']
    procs = []
    for hs in case['hashseeds']:      # the new interpreters start (and import the library) while this process evaluates the cases
        env = dict(os.environ, PYTHONHASHSEED=str(hs))
        fin, fout, ferr = (tempfile.TemporaryFile('w+') for _ in range(3))     # files, not pipes: nothing can block
        fin.write(json.dumps(cases))
        fin.seek(0)
        p = subprocess.Popen([sys.executable, '-c', _HASHSEED_SCRIPT], stdin=fin, stdout=fout, stderr=ferr, text=True, env=env,
                             cwd=os.path.dirname(os.path.dirname(os.path.abspath(__file__))))
        procs.append((hs, p, fin, fout, ferr))
    here, bad = [], None
    for c in cases:
        msg, summ = _folds_eval(c)
        if msg:
            bad = f'in this process, case {c}: {msg}'
            break
        here.append(summ)
    outs = []
    for hs, p, fin, fout, ferr in procs:
        try:
            p.wait(timeout=300)
        except subprocess.TimeoutExpired:
            p.kill()
            p.wait()
        fout.seek(0)
        ferr.seek(0)
        outs.append((hs, p.returncode, fout.read(), ferr.read()))
        for fh in (fin, fout, ferr):
            fh.close()
    if bad:
        return bad
    for hs, rc, out, err in outs:
        if rc != 0 or '@@RESULT@@' not in out:
            return f'interpreter with PYTHONHASHSEED={hs} failed (rc={rc}): {err.strip()[-400:]}'
        there = json.loads(out.split('@@RESULT@@', 1)[1])
        for c, h, (msg, t) in zip(cases, here, there):
            if msg:
                return f'PYTHONHASHSEED={hs}, case {c}: {msg}'
            d = _first_diff(json.loads(json.dumps(h)), t)
            if d:
                return (f"PYTHONHASHSEED={hs}, {c['gen']} (random={c.get('random')}, rg={c['rg']}, pg={c['pg']}): folds differ from "
                        f"those of this process (PYTHONHASHSEED={os.environ.get('PYTHONHASHSEED', 'unset')}): {d}")
    return None


def _groupings(n):
    """identity grouping and groupings with repeated values (bootstrap copies / larger groups)"""
    out = [list(range(n))]
    if n >= 4:
        out.append([i // 2 for i in range(n)])
    if n >= 5:
        out.append([(i * 7) % (n - 2) for i in range(n)])
    return out


def _interleaved(n, g):
    """n labels from g groups (g <= n), interleaved: first-appearance order differs from the sorted order"""
    import math
    m = next(m for m in (7, 5, 3, 11, 13) if math.gcd(m, g) == 1)
    return [(i * m + 1) % g for i in range(n)]


_STR_LABELS = ['k10', 'k2', 'K1', 'z', 'a', 'k1', 'b', 'm', 'k3', 'k20', 'c', 'd', 'B', 'k02', 'y', 'x']


def _label_variants(n):
    """(tag, grouping) -- label types and orders the quick groupings do not have.  Every grouping is a JSON-able list"""
    ident = list(range(n))
    out = [('descending-labels', ident[::-1]),
           ('str-labels', [_STR_LABELS[i] for i in ident]),
           ('float-labels', [i + 0.5 for i in ident]),
           ('negative-labels', [3 - 2 * i for i in ident])]
    if n >= 4:
        unb = [0] * (n - 2) + [1, 2]                                         # one large group, two singletons
        out.append(('unbalanced-groups', unb[1:] + unb[:1]))                 # ... first appearance 0,1,2 but interleaved
        out.append(('str-labels', [_STR_LABELS[g] for g in _interleaved(n, n - 1)]))   # repeated, interleaved str labels
        out.append(('negative-labels', [5 - 3 * g for g in _interleaved(n, n - 1)]))
    return out


def _all_gens(base, reg, rnd_seeds, k_fold_all_seeds=False, randoms=True):
    """every generator with every admissible k on the design `base`; reg(case, gen) registers one case"""
    nrg, npg = len(set(base['rg'])), len(set(base['pg']))
    reg(base, 'leave_one_out_pattern')
    reg(base, 'leave_one_out_rdm')
    for rnd, seed in rnd_seeds:
        for k in range(1, npg + 1):
            reg(dict(base, k=k, random=rnd, seed=seed), 'k_fold_pattern')
        for k in range(2, nrg + 1):
            reg(dict(base, k=k, random=rnd, seed=seed), 'k_fold_rdm')
        for k in range(1, npg // 2 + 1):
            reg(dict(base, k=k, random=rnd, seed=seed), 'of_k_pattern')
        for k in range(1, nrg // 2 + 1):
            if int(nrg / k) >= 2:
                reg(dict(base, k=k, random=rnd, seed=seed), 'of_k_rdm')
        if k_fold_all_seeds or rnd is False or seed == 0:
            for kr in range(1, nrg + 1):
                for kp in range(1, npg + 1):
                    reg(dict(base, k=kp, k_rdm=kr, random=rnd, seed=seed), 'k_fold')
    if randoms:
        for nr in range(0, nrg):
            for npat in range(0, npg):
                reg(dict(base, k=npat, k_rdm=nr, n_cv=2, seed=1), 'random')


def tier_c_folds(run, thorough):
    bd = Bounded(run, 'C05/folds', 'C05/fold-generators/oracle/partition-and-contents',
                 'all generators; n_rdm 2..%d, n_cond 3..%d; identity / repeated-value groupings; every admissible k; '
                 'ordered and %d shuffle seeds (+ 4 larger designs with remainders >= 2: 5/3, 8/3, 7/4, 8/5 groups per k); list descriptors, and numpy-array descriptors for half of the shapes' % ((6, 8, 6) if thorough else (4, 6, 2))
                 + '; SWEEPS on %s designs: str / float / negative / descending / interleaved / unbalanced group labels, tuple descriptors, '
                   'default (index) descriptors, default k (None), int16 / int32 / float32 dissimilarities, units x1e-20 / x1e+10, NaN entries, '
                   'call sequences (other content of the same shape in between, repeated call), single-RDM and single-RDM-group and '
                   '2-condition designs, %d larger designs (up to %s groups, remainders up to %d)'
                 % (('5', 8, '24 x 23', 5) if thorough else ('2', 3, '14 x 14', 4)), exhaustive=False,
                 function='sets_*')
    R = range(2, 7 if thorough else 5)
    Cn = range(3, 9 if thorough else 7)
    seeds = range(6 if thorough else 2)

    def chk(case, gen):
        bd.check(orc_folds, dict(case, gen=gen), gen, function='sets_' + gen)
        if case.get('seed', 0) <= 1 and (case['n_rdm'] + case['n_cond']) % 2 == 0:
            # the same with numpy-array descriptors (shared by reference between source and selections)
            bd.check(orc_folds, dict(case, gen=gen, container='array'), gen + ',array-descriptors', function='sets_' + gen)
    for n_rdm in R:
        for n_cond in Cn:
            for rg in _groupings(n_rdm):
                for pg in _groupings(n_cond):
                    base = dict(n_rdm=n_rdm, n_cond=n_cond, rg=rg, pg=pg)
                    _all_gens(base, chk, [(False, 0)] + [(True, s) for s in seeds])
    # larger remainders (n_groups mod k >= 2): several folds receive a left-over group
    for (n_rdm, n_cond, kr, kp) in ((5, 5, 3, 3), (8, 4, 3, 2), (7, 7, 4, 4), (8, 8, 5, 3)):
        base = dict(n_rdm=n_rdm, n_cond=n_cond, rg=list(range(n_rdm)), pg=list(range(n_cond)))
        for rnd, seed in ((False, 0), (True, 1)):
            chk(dict(base, k=kp, k_rdm=kr, random=rnd, seed=seed), 'k_fold')
            chk(dict(base, k=kr, random=rnd, seed=seed), 'k_fold_rdm')
            chk(dict(base, k=kp, random=rnd, seed=seed), 'k_fold_pattern')

    # ------------------------------------------------------------------------------------------------------------
    # sweeps along dimensions the cases above do not vary (each under its own input class: <generator>,<dimension>)
    # ------------------------------------------------------------------------------------------------------------
    def reg_as(tag, **extra):
        def reg(case, gen):
            bd.check(orc_folds, dict(case, gen=gen, **extra), gen + ',' + tag, function='sets_' + gen)
        return reg
    both = [(False, 0), (True, 0)]
    shapes = ((4, 5), (5, 4), (5, 6), (6, 5), (3, 7)) if thorough else ((4, 5), (5, 4))
    # (1) label types and label orders: the same labelling scheme along both factors
    for (n_rdm, n_cond) in shapes:
        for (tag, rg), (_t, pg) in zip(_label_variants(n_rdm), _label_variants(n_cond)):
            _all_gens(dict(n_rdm=n_rdm, n_cond=n_cond, rg=rg, pg=pg), reg_as(tag), both + ([(True, 3)] if thorough else []))
    # (2) containers, typed data, units, missing entries: a design with groups of copies on both factors and one with
    # singleton groups (int32: values beyond the int16 range)
    for i, (n_rdm, n_cond) in enumerate(shapes[:3]):
        designs = [dict(n_rdm=n_rdm, n_cond=n_cond, rg=_groupings(n_rdm)[-1], pg=_groupings(n_cond)[-1])]
        if thorough or i == 0:
            designs.append(dict(n_rdm=n_rdm, n_cond=n_cond, rg=list(range(n_rdm)), pg=list(range(n_cond))))
        for base in designs:
            for tag, extra in (('tuple-descriptors', dict(container='tuple')),
                               ('int16-data', dict(dtype='int16')), ('int32-data', dict(dtype='int32', container='array', off=100000)),
                               ('float32-data', dict(dtype='float32')),
                               ('tiny-units', dict(scale=1e-20)), ('huge-units', dict(scale=1e10, container='array')),
                               ('nan-entries', dict(nan=True))):
                _all_gens(base, reg_as(tag, **extra), both)
    # (3) descriptor arguments left at their defaults (grouping by 'index'); default number of folds
    for (n_rdm, n_cond) in shapes[:3] + ((12, 10),):
        base = dict(n_rdm=n_rdm, n_cond=n_cond, rg=list(range(n_rdm)), pg=list(range(n_cond)), desc='default')
        reg = reg_as('default-descriptors')
        if n_rdm < 12:
            # sets_of_k_pattern has pattern_descriptor=None as its default: see the pending-triage block below
            _all_gens(base, lambda case, gen: None if gen == 'of_k_pattern' else reg(case, gen), both)
        for rnd, seed in both:
            for desc in ('default', None):
                b = dict(base, desc=desc, random=rnd, seed=seed)
                rk = reg_as('default-k' + (',default-descriptors' if desc else ''))
                rk(dict(b, k=None), 'k_fold_pattern')
                rk(dict(b, k=None), 'k_fold_rdm')
                rk(dict(b, k=None, k_rdm=None), 'k_fold')
                rk(dict(b, k=None, k_rdm=2), 'k_fold')
                rk(dict(b, k=2, k_rdm=None), 'k_fold')
                if rnd:
                    rk(dict(b, k=None, k_rdm=None, n_cv=3), 'random')
                    rk(dict(b, k=None, k_rdm=0, n_cv=2), 'random')
                    rk(dict(b, k=0, k_rdm=None, n_cv=2), 'random')
                if n_rdm >= 10:
                    rk(dict(b, k=None), 'of_k_rdm')        # default group size (k=5 in the signature)
                    if not desc:
                        rk(dict(b, k=None), 'of_k_pattern')
    # (3b) default descriptors on RESAMPLED objects: 'index' has repeats and gaps (values are not positions)
    for rg, pg in (([4, 4, 0, 2, 2, 2], [3, 0, 0, 5, 6, 6, 1]), ([1, 5, 5, 3], [2, 2, 7, 4, 4]), ([2, 0, 2, 0, 6], [1, 3, 5, 7])):
        base = dict(n_rdm=len(rg), n_cond=len(pg), rg=rg, pg=pg, desc='default', resampled=True)
        _all_gens(base, lambda case, gen: None if gen == 'of_k_pattern' else reg_as('default-descriptors,resampled-index')(case, gen), both)
    if True:   # repaired in /repo 99da527e (was pending triage): of_k_pattern,default-pattern-descriptor-is-None
        # sets_of_k_pattern(rdms, k=2): the default pattern_descriptor=None is passed to add_pattern_index, which no longer
        # replaces None by 'index' (its docstring says it does) -> KeyError: None for every input
        reg_as('default-pattern-descriptor-is-None')(dict(n_rdm=4, n_cond=5, rg=[0, 1, 2, 3], pg=[0, 1, 2, 3, 4], desc='default', k=2,
                                                          random=False, seed=0), 'of_k_pattern')
    # (4) call sequences: another data set of the same shape in between, then the same call again
    for (n_rdm, n_cond) in shapes[:3] if thorough else shapes[:1]:
        for rg, pg, cont, seqs in ((list(range(n_rdm)), list(range(n_cond)), 'array', ('values', 'regroup')[:2 if thorough else 1]),
                                   (_groupings(n_rdm)[-1], _groupings(n_cond)[-1], 'list', ('regroup', 'values')[:2 if thorough else 1])):
            for sq in seqs:
                _all_gens(dict(n_rdm=n_rdm, n_cond=n_cond, rg=rg, pg=pg), reg_as('call-sequence', seq=sq, container=cont),
                          both + ([(True, 2)] if thorough else []), k_fold_all_seeds=thorough)
    # (5) single-element dimensions: one RDM; several RDMs in ONE group; two conditions
    reg = reg_as('single-element-dimension')
    for n_cond in (2, 3, 5):
        for n_rdm, rg in ((1, [0]), (3, [7, 7, 7])):
            for pg in [list(range(n_cond))] + ([[1, 0, 1, 2, 0]] if n_cond == 5 else []):
                base = dict(n_rdm=n_rdm, n_cond=n_cond, rg=rg, pg=pg)
                npg = len(set(pg))
                reg(base, 'leave_one_out_pattern')
                reg(base, 'leave_one_out_rdm')           # documented: a single group means no cross-validation
                for rnd, seed in both:
                    for k in range(1, npg + 1):
                        reg(dict(base, k=k, random=rnd, seed=seed), 'k_fold_pattern')
                        reg(dict(base, k=k, k_rdm=1, random=rnd, seed=seed), 'k_fold')
                    for k in range(1, npg // 2 + 1):
                        reg(dict(base, k=k, random=rnd, seed=seed), 'of_k_pattern')
                for npat in range(0, npg):
                    reg(dict(base, k=npat, k_rdm=0, n_cv=2, seed=1), 'random')
    for n_rdm in (2, 4):                                  # two conditions, several RDM groups
        _all_gens(dict(n_rdm=n_rdm, n_cond=2, rg=list(range(n_rdm)), pg=[0, 1]), reg, both)
    # (6) more groups than above, remainders 2 .. 5, many small folds (remainder >= fold size)
    big = [(11, 11, 4, 4), (14, 8, 5, 3), (8, 14, 3, 5)]
    if thorough:
        big += [(24, 12, 5, 5), (20, 20, 7, 6), (13, 17, 6, 5), (24, 9, 9, 4), (11, 23, 4, 8)]
    reg = reg_as('larger-design')
    for (n_rdm, n_cond, kr, kp) in big:
        base = dict(n_rdm=n_rdm, n_cond=n_cond, rg=list(range(n_rdm)), pg=list(range(n_cond)))
        grouped = dict(n_rdm=n_rdm, n_cond=n_cond, rg=_interleaved(n_rdm, n_rdm - 3), pg=_interleaved(n_cond, n_cond - 2))
        for b, krr, kpp in ((base, kr, kp), (grouped, min(kr, 3), min(kp, 3))):
            for rnd, seed in both:
                reg(dict(b, k=kpp, k_rdm=krr, random=rnd, seed=seed), 'k_fold')
                reg(dict(b, k=krr, random=rnd, seed=seed), 'k_fold_rdm')
                reg(dict(b, k=kpp, random=rnd, seed=seed), 'k_fold_pattern')
                reg(dict(b, k=2, random=rnd, seed=seed), 'of_k_pattern')
                reg(dict(b, k=2, random=rnd, seed=seed), 'of_k_rdm')
            reg(dict(b, k=kpp, k_rdm=krr, n_cv=2, seed=1), 'random')
        reg(base, 'leave_one_out_rdm')
        reg(grouped, 'leave_one_out_pattern')
    bd.done()

    # (7) environment: new interpreters with other PYTHONHASHSEED values (hash order of str labels / of sets)
    hb = Bounded(run, 'C05/folds-hashseed', 'C05/fold-generators/oracle/same-folds-in-a-new-interpreter',
                 'all generators on 2 designs (str labels with and without repeats, int labels), ordered and shuffled under a '
                 'fixed numpy seed; %d new interpreter(s) with another PYTHONHASHSEED: property holds there, folds identical'
                 % (3 if thorough else 1), exhaustive=False, function='sets_*')
    hcases = []
    for rg, pg in (([_STR_LABELS[g] for g in _interleaved(5, 4)], [_STR_LABELS[i] for i in range(6)]),
                   ([(i * 7) % 3 for i in range(5)], list(range(6))[::-1])):
        def keep(case, gen, nrg=len(set(rg)), npg=len(set(pg))):
            if gen == 'k_fold' and (case['k_rdm'], case['k']) not in ((2, 3), (3, 2), (nrg, npg), (1, npg - 1)):
                return
            if gen == 'random' and (case['k_rdm'], case['k']) not in ((1, 2), (2, 1), (0, 2), (2, 0)):
                return
            hcases.append(dict(case, gen=gen))
        _all_gens(dict(n_rdm=5, n_cond=6, rg=rg, pg=pg), keep, both)
    hb.check(orc_folds_hashseed, dict(hashseeds=[12345, 1, 999] if thorough else [12345], cases=hcases),
             'new-interpreter,other-hashseed', function='sets_*')
    hb.done()
    bd.failures += hb.failures
    return bd


def replay(path):
    return replay_file(path)


# ---- non-interference of cross-validated evaluation (2-safety, bounded) ----------------------------
def _ni_models(case, rs, n_pair, pg, n_cond):
    """the models of a non-interference case, their frozen parameters, and the recording fitter's inner fitter"""
    from rsatoolbox.rdm import RDMs
    from rsatoolbox.model import ModelWeighted, ModelSelect, ModelInterpolate
    n_model = case['n_model']
    basis = [RDMs(rs.rand(2, n_pair) + 0.1, pattern_descriptors={'pg': list(pg), 'cid': list(range(n_cond))})
             for _ in range(n_model)]
    kind = case.get('model', 'weighted')
    cls = dict(weighted=ModelWeighted, select=ModelSelect, interpolate=ModelInterpolate)[kind]
    models = [cls(f'm{j}', basis[j]) for j in range(n_model)]
    frozen = [rs.rand(2) + 0.1 for _ in range(n_model)]
    if kind == 'select':
        frozen = [int(fr[0] > 0.6) for fr in frozen]
    return models, frozen, kind


@oracle('C05/noninterference')
def orc_noninterference(case):
    """fitted parameters of a fold do not depend on test-only data; the fold's score (parameters frozen)
    does not depend on data outside the fold's test RDMs x test conditions"""
    from rsatoolbox.rdm import RDMs, compare
    from rsatoolbox.inference import crossval, sets_k_fold
    rs = np.random.RandomState(case['seed'])
    n_rdm, n_cond, n_model = case['n_rdm'], case['n_cond'], case['n_model']
    n_pair = n_cond * (n_cond - 1) // 2
    rg = case.get('rg') or list(range(n_rdm))
    pg = case.get('pg') or list(range(n_cond))
    dtype, scale = case.get('dtype'), case.get('scale')

    def mk(vec):
        vec = vec.copy()
        if scale is not None:
            vec = vec * scale
        if dtype:
            vec = vec.astype(dtype)
        return RDMs(vec, rdm_descriptors={'rg': list(rg), 'rid': list(range(n_rdm))},
                    pattern_descriptors={'pg': list(pg), 'cid': list(range(n_cond))})
    base = rs.rand(n_rdm, n_pair) + 0.1
    integer = bool(dtype) and np.dtype(dtype).kind in 'iu'
    if integer:
        base = np.floor(base * 40) + 1          # integer-valued measurements 1 .. 45

    def bump():
        u = rs.rand()
        return float(1 + int(u * 5)) if integer else 1.0 + u
    models, frozen, kind = _ni_models(case, rs, n_pair, pg, n_cond)
    method = case['method']

    def sets(data):
        if case.get('random'):
            np.random.seed(case['seed'] + 11)     # the same shuffle outcome for every data variant
        return sets_k_fold(data, k_rdm=case['k_rdm'], k_pattern=case['k_pattern'], random=bool(case.get('random')),
                           pattern_descriptor='pg', rdm_descriptor='rg')
    log = []

    def rec_fitter(model, data, method='cosine', pattern_idx=None, pattern_descriptor=None, **kw):
        from rsatoolbox.model.fitter import fit_regress
        inner = fit_regress if kind == 'weighted' else model.default_fitter
        th = inner(model, data, method=method, pattern_idx=pattern_idx, pattern_descriptor=pattern_descriptor)
        log.append(np.array(th, dtype=float))
        return th

    def frozen_fitter(model, data, method='cosine', pattern_idx=None, pattern_descriptor=None, **kw):
        return frozen[int(model.name[1:])]

    def run_cv(vec, fitter):
        data = mk(vec)
        tr, te, ce = sets(data)
        res = crossval(models, data, tr, te, ce, method=method, fitter=fitter, pattern_descriptor='pg')
        return res, tr, te
    log.clear()
    res0, tr, te = run_cv(base, rec_fitter)
    thetas0 = [x.copy() for x in log]
    n_fold = len(te)
    if len(thetas0) != n_fold * n_model:
        return f'{len(thetas0)} fits for {n_fold} folds x {n_model} models'
    pairs = [(a, b) for a in range(n_cond) for b in range(a + 1, n_cond)]
    f = case['fold'] % n_fold
    t_r, r_r = set(te[f][0].rdm_descriptors['rid']), set(tr[f][0].rdm_descriptors['rid'])
    t_c, r_c = set(te[f][0].pattern_descriptors['cid']), set(tr[f][0].pattern_descriptors['cid'])
    alt = base.copy()
    touched = 0
    for r in range(n_rdm):
        for k, (a, b) in enumerate(pairs):
            if (r in t_r and r not in r_r) or (a in t_c and a not in r_c) or (b in t_c and b not in r_c):
                alt[r, k] += bump()
                touched += 1
    if touched:
        log.clear()
        _, tr1, te1 = run_cv(alt, rec_fitter)
        if case.get('random'):
            for nm, s0, s1 in (('training', tr, tr1), ('test', te, te1)):
                for ff in range(n_fold):
                    for which, d0, d1 in (('rid', s0[ff][0].rdm_descriptors, s1[ff][0].rdm_descriptors),
                                          ('cid', s0[ff][0].pattern_descriptors, s1[ff][0].pattern_descriptors)):
                        if list(d0[which]) != list(d1[which]):
                            return None     # the shuffle depends on the data values: not a case of this oracle (never on this tree)
        for j in range(n_model):
            a, b = thetas0[f * n_model + j], log[f * n_model + j]
            if not close(a, b, 1e-9):
                return (f'fold {f} model {j}: fitted parameters changed from {a.tolist()} to {b.tolist()} when only '
                        f'test-only data ({touched} entries) were altered')
    resA, _, _ = run_cv(base, frozen_fitter)
    alt2 = base.copy()
    touched2 = 0
    for r in range(n_rdm):
        for k, (a, b) in enumerate(pairs):
            if not (r in t_r and a in t_c and b in t_c):
                alt2[r, k] += bump()
                touched2 += 1
    resB, _, _ = run_cv(alt2, frozen_fitter)
    ea, eb = resA.evaluations[0, :, f], resB.evaluations[0, :, f]
    if touched2 and not close(ea, eb, 1e-9):
        return (f'fold {f}: scores changed from {ea.tolist()} to {eb.tolist()} with frozen parameters when only data '
                f'outside the test RDMs x test conditions were altered')
    for j in range(n_model):
        pred = models[j].predict_rdm(frozen[j]).subsample_pattern('pg', te[f][1])
        want = float(np.mean(compare(pred, te[f][0], method)))
        if not close(ea[j], want, 1e-9):
            return f'fold {f} model {j}: stored score {ea[j]} but direct comparison gives {want}'
    return None


@oracle('C05/noninterference-boot')
def orc_noninterference_boot(case):
    """bootstrap-wrapped cross-validation (bootstrap copies of RDMs / conditions; fold ids expanded to their multiplicities):
    the parameters of a fit do not change when dissimilarities involving an RDM or a condition that is NOT part of that
    fit's training data are altered; with frozen parameters a fold's score does not change when training-only data are altered.
    The folds are internal to bootstrap_crossval: training sets are observed through the fitter (labels rid / cid of the data it
    is handed).  The first clause therefore sees mis-attributed contents / labels of the samples and training sets, NOT copies of a
    test condition that were put on the training side (that clause is checked on the generators by C05/folds with repeated labels);
    the second clause sees scores computed on anything but the fold's own test data (other folds, training data, whole sample)."""
    import contextlib
    import io
    from rsatoolbox.rdm import RDMs
    from rsatoolbox.inference import bootstrap_crossval
    rs = np.random.RandomState(case['seed'])
    n_rdm, n_cond, n_model = case['n_rdm'], case['n_cond'], case['n_model']
    n_pair = n_cond * (n_cond - 1) // 2
    rg = case.get('rg') or list(range(n_rdm))
    pg = case.get('pg') or list(range(n_cond))
    k_rdm, k_pattern, n_cv, n_boot = case['k_rdm'], case['k_pattern'], case.get('n_cv', 2), case.get('N', 2)
    base = rs.rand(n_rdm, n_pair) + 0.1
    models, frozen, kind = _ni_models(case, rs, n_pair, pg, n_cond)
    method = case['method']
    pairs = [(a, b) for a in range(n_cond) for b in range(a + 1, n_cond)]
    log = []

    def rec_fitter(model, data, method='cosine', pattern_idx=None, pattern_descriptor=None, **kw):
        from rsatoolbox.model.fitter import fit_regress
        inner = fit_regress if kind == 'weighted' else model.default_fitter
        th = inner(model, data, method=method, pattern_idx=pattern_idx, pattern_descriptor=pattern_descriptor)
        log.append((np.array(th, dtype=float), sorted(set(int(x) for x in data.rdm_descriptors['rid'])),
                    sorted(set(int(x) for x in data.pattern_descriptors['cid']))))
        return th

    def frozen_fitter(model, data, method='cosine', pattern_idx=None, pattern_descriptor=None, **kw):
        log.append((None, sorted(set(int(x) for x in data.rdm_descriptors['rid'])),
                    sorted(set(int(x) for x in data.pattern_descriptors['cid']))))
        return frozen[int(model.name[1:])]

    def run_bcv(vec, fitter):
        data = RDMs(vec.copy(), rdm_descriptors={'rg': list(rg), 'rid': list(range(n_rdm))},
                    pattern_descriptors={'pg': list(pg), 'cid': list(range(n_cond))})
        np.random.seed(case['seed'] + 5)          # the same bootstrap samples and the same shuffles for every data variant
        log.clear()
        with contextlib.redirect_stderr(io.StringIO()):
            res = bootstrap_crossval(models, data, method=method, fitter=fitter, k_pattern=k_pattern, k_rdm=k_rdm, N=n_boot,
                                     n_cv=n_cv, pattern_descriptor='pg', rdm_descriptor='rg', boot_type=case.get('boot_type', 'both'),
                                     use_correction=False)
        return res, list(log)
    res0, log0 = run_bcv(base, rec_fitter)
    if not log0:
        return None          # no bootstrap sample allowed the requested cross-validation: nothing was fitted
    # whole groups: a bootstrap sample consists of whole RDM / condition groups, and the folds inside it split by the caller's
    # descriptors -- so the training data of every fit hold either all members of a group or none
    for j, (_, rids, cids) in enumerate(log0):
        for nm, got, grp in (('RDMs', set(rids), rg), ('conditions', set(cids), pg)):
            for x in sorted(got):
                mates = {y for y in range(len(grp)) if grp[y] == grp[x]}
                if not mates <= got:
                    return (f'fit {j}: the training data hold {nm} {sorted(got)}; group {grp[x]!r} = {sorted(mates)} is split '
                            f'(members {sorted(mates - got)} are missing, i.e. on the test side or dropped)')
    i = case['fit'] % len(log0)
    th0, tr_r, tr_c = log0[i]
    tr_r, tr_c = set(tr_r), set(tr_c)
    alt = base.copy()
    touched = 0
    for r in range(n_rdm):
        for k, (a, b) in enumerate(pairs):
            if r not in tr_r or a not in tr_c or b not in tr_c:
                alt[r, k] += 1.0 + rs.rand()
                touched += 1
    if touched:
        _, log1 = run_bcv(alt, rec_fitter)
        if len(log1) != len(log0) or any(x[1:] != y[1:] for x, y in zip(log0, log1)):
            return (f'the training sets handed to the fitters changed when only data outside the training set of fit {i} were '
                    f'altered (same numpy seed): {len(log0)} vs {len(log1)} fits')
        if not close(th0, log1[i][0], 1e-9):
            return (f'fit {i} (training RDMs {sorted(tr_r)}, training conditions {sorted(tr_c)}): fitted parameters changed from '
                    f'{th0.tolist()} to {log1[i][0].tolist()} when only dissimilarities of other RDMs / conditions ({touched} entries) '
                    f'were altered')
    # score side: all fits of a complete run are ordered sample > repetition > fold > model
    n_fold = k_rdm * k_pattern
    resA, logA = run_bcv(base, frozen_fitter)
    ok = [s for s in range(n_boot) if not np.isnan(resA.evaluations[s]).any()]
    if len(logA) != len(ok) * n_cv * n_fold * n_model or not ok:
        return None          # some fold was skipped (fewer than 3 conditions on one side): the call order gives no fold index
    i = (case['fit'] % len(logA)) // n_model * n_model
    s, rep, f = ok[i // (n_cv * n_fold * n_model)], (i // (n_fold * n_model)) % n_cv, (i // n_model) % n_fold
    _, tr_r, tr_c = logA[i]
    tr_r, tr_c = set(tr_r), set(tr_c)
    alt2 = base.copy()
    touched2 = 0
    for r in range(n_rdm):
        for k, (a, b) in enumerate(pairs):
            if (k_rdm > 1 and r in tr_r) or (k_pattern > 1 and a in tr_c and b in tr_c):
                alt2[r, k] += 1.0 + rs.rand()
                touched2 += 1
    resB, logB = run_bcv(alt2, frozen_fitter)
    if [x[1:] for x in logA] != [x[1:] for x in logB]:
        return 'the training sets handed to the fitters changed when only training data of one fold were altered (same numpy seed)'
    ea, eb = resA.evaluations[s, :, f, rep], resB.evaluations[s, :, f, rep]
    if touched2 and not close(ea, eb, 1e-9):
        return (f'bootstrap sample {s}, repetition {rep}, fold {f} (training RDMs {sorted(tr_r)}, training conditions {sorted(tr_c)}): '
                f'scores changed from {ea.tolist()} to {eb.tolist()} with frozen parameters when only training-only data '
                f'({touched2} entries) were altered')
    return None


def tier_c_noninterference(run, thorough):
    bd = Bounded(run, 'C05/noninterference', 'C05/crossval/oracle/noninterference',
                 'crossval with 1..3 weighted models (2 basis RDMs each), recording / frozen fitters; n_rdm 4..6, n_cond 8..12, '
                 'k_rdm, k_pattern in {1,2}, methods cosine/corr; perturbation of test-only resp. non-test entries; every fold'
                 '; SWEEPS: RDM / condition groups with copies (interleaved labels), k up to 3, shuffled folds, float32 / integer data, '
                 'units x1e-20 / x1e+10, select / interpolate models with their default fitters (also spearman, tau-a)',
                 function='crossval')
    seeds = range(3 if thorough else 1)
    for seed in seeds:
        for n_model in (1, 2, 3):
            for (n_rdm, n_cond) in ((4, 8), (5, 9)) if thorough else ((4, 8),):
                for k_rdm in (1, 2):
                    for k_pattern in (1, 2):
                        for method in ('cosine', 'corr'):
                            for fold in range(k_rdm * k_pattern):
                                bd.check(orc_noninterference, dict(seed=seed, n_model=n_model, n_rdm=n_rdm, n_cond=n_cond,
                                                                   k_rdm=k_rdm, k_pattern=k_pattern, method=method, fold=fold),
                                         f'models={n_model}' if n_model > 1 else 'single-model')
    # ---- sweeps: dimensions not varied above (own input classes) ----
    # groups with copies, interleaved, unsorted first appearance (crossval skips folds with fewer than 3 conditions on a side:
    # 6 condition groups of 2 copies keep every fold of k_pattern <= 3 above that)
    rg6, pg12 = [2, 0, 1, 0, 2, 3], [3, 0, 1, 0, 2, 3, 5, 4, 2, 1, 4, 5]
    variants = [('grouped-copies', dict(n_rdm=6, n_cond=12, rg=rg6, pg=pg12)),
                ('grouped-copies,shuffled-folds', dict(n_rdm=6, n_cond=12, rg=rg6, pg=pg12, random=True)),
                ('shuffled-folds', dict(n_rdm=5, n_cond=9, random=True)),
                ('float32-data', dict(n_rdm=4, n_cond=9, dtype='float32')),
                ('integer-data', dict(n_rdm=4, n_cond=9, dtype='int32')),
                ('tiny-units', dict(n_rdm=4, n_cond=9, scale=1e-20)),
                ('huge-units', dict(n_rdm=4, n_cond=9, scale=1e10, random=True)),
                ('select-model', dict(n_rdm=4, n_cond=9, model='select')),
                ('interpolate-model', dict(n_rdm=4, n_cond=9, model='interpolate'))]
    for seed in range(2 if thorough else 1):
        for tag, extra in variants:
            kind = extra.get('model', 'weighted')
            methods = ('cosine', 'corr') if kind == 'weighted' else ('cosine', 'spearman', 'tau-a')
            if thorough:
                ks = ((2, 2), (1, 3), (3, 1), (2, 3))
            elif 'grouped' in tag:
                ks = ((2, 2), (1, 3), (3, 1))
            else:
                ks = ((2, 2), (1, 2)) if tag in ('shuffled-folds', 'select-model') else ((2, 2),)
            for (k_rdm, k_pattern) in ks:
                full = thorough or (k_rdm, k_pattern) == (2, 2)
                for method in methods if full and (thorough or kind != 'interpolate') else methods[:1]:
                    for n_model in (1, 2) if full and (thorough or kind == 'weighted') else (2,):
                        for fold in range(k_rdm * k_pattern):
                            bd.check(orc_noninterference, dict(extra, seed=seed + 20, n_model=n_model, k_rdm=k_rdm, k_pattern=k_pattern,
                                                               method=method, fold=fold), tag)
    bd.done()

    bb = Bounded(run, 'C05/noninterference-boot', 'C05/bootstrap-crossval/oracle/noninterference',
                 'bootstrap_crossval (N=2 samples, n_cv=2) with 1..2 weighted / select models, recording / frozen fitters; n_rdm 6, '
                 'n_cond 12..14, plain and grouped descriptors, boot_type both / pattern / rdm, k_rdm in {1,2}, k_pattern in {1,2}; '
                 'perturbation of the entries outside a fit\'s training data resp. of training-only entries; %s' %
                 ('every 5th fit, 2 seeds' if thorough else '1-2 fits per configuration, reduced grid'), function='bootstrap_crossval')
    for seed in range(2 if thorough else 1):
        for tag, extra in (('plain', dict(n_rdm=6, n_cond=12)),
                           ('grouped', dict(n_rdm=6, n_cond=14, rg=[1, 0, 2, 3, 0, 4], pg=[5, 0, 1, 2, 3, 4, 5, 6, 7, 8, 9, 0, 10, 11]))):
            for boot_type in ('both', 'pattern', 'rdm'):
                if not thorough and tag == 'plain' and boot_type != 'both':
                    continue
                for (k_rdm, k_pattern) in ((2, 2), (1, 2), (2, 1)):
                    for kind, method, n_model in (('weighted', 'cosine', 2), ('weighted', 'corr', 1), ('select', 'spearman', 2)):
                        if not thorough and ((kind, method) != ('weighted', 'cosine') and (tag, boot_type, k_rdm, k_pattern) != ('grouped', 'both', 2, 2)
                                             or boot_type != 'both' and (k_rdm, k_pattern) != (2, 2)):
                            continue
                        n_fit = 2 * 2 * k_rdm * k_pattern * n_model
                        for fit in (range(seed, n_fit, 5) if thorough else ((1, n_fit - 2) if (k_rdm, k_pattern) == (2, 2) else (n_fit // 2,))):
                            bb.check(orc_noninterference_boot,
                                     dict(extra, seed=seed + 40, n_model=n_model, model=kind, k_rdm=k_rdm, k_pattern=k_pattern,
                                          method=method, boot_type=boot_type, fit=fit), f'boot-{boot_type},{tag}')
    bb.done()
    bd.failures += bb.failures
    return bd
