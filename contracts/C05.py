"""C05 -- folds partition the data; test data never influence fitting."""
import z3

from vf.pyvc.values import V, SV, Obj, SeqV, CaseV, Undecided, fresh_name
from vf.pyvc.api import FuncCheck
from contracts.common import new_engine, finish_engine, report_a_failures

LEVEL = 'proof'
CV = 'rsatoolbox.inference.crossvalsets.'


def groups_of(E, rdms, which, desc):
    """the sequence of distinct descriptor groups (np.unique of the descriptor), as the code obtains it"""
    d = E.getattr(rdms, which)
    col = E.getitem(d, desc)
    return E.lib['numpy.unique'](E, col)


def _esym(G, name):
    return z3.Const(fresh_name(name), V) if G.esort == 'val' else z3.Int(fresh_name(name))


def _selection_of(ck, E, obj, rdms, desc, method, label_prefix, quiet=False):
    """the group sequence an RDMs object was selected with: obj must be rdms.<method>(desc, groups)"""
    from vf.pyvc.values import CaseV as _C
    if isinstance(obj, _C):
        parts = [(g, _selection_of(ck, E, v, rdms, desc, method, label_prefix, quiet)) for g, v in obj.cases]
        if any(p[1] is None for p in parts):
            return None
        return _C(parts)
    app = getattr(obj, 'app', None)
    if app is None or app[0] != f'RDMs.{method}' or app[1][0] is not rdms:
        if not quiet:
            ck.ensure(f'{label_prefix}/contents-built-by-{method}', z3.BoolVal(False),
                      note=f'returned object is not rdms.{method}(descriptor, groups): {app[0] if app else obj!r}')
        return None
    if not quiet:
        ck.ensure_eq(f'{label_prefix}/contents-descriptor', app[1][1], desc)
    return app[1][2]


def fold_post(label_prefix, which, method, exhaustive=True):
    """property-level postcondition of a fold generator over one factor.
    which: 'pattern_descriptors' | 'rdm_descriptors'; method: RDMs method that must build the sets"""
    def post(ck, E, args, kw, p, desc=None, rdms=None, k=None, idx_pos=1, single_fold_is_no_cv=False):
        train, test, ceil = p.value
        G = groups_of(E, rdms, which, desc)
        n = G.zlen()
        kk = E.as_int(E.seq_len(train))
        ck.ensure(f'{label_prefix}/count', z3.And(E.as_int(E.seq_len(test)) == kk,
                                                  kk == (E.as_int(k) if k is not None else kk)))
        i = z3.Int(fresh_name('fi'))
        j = z3.Int(fresh_name('fj'))
        E.pc.append(z3.And(i >= 0, i < kk, j >= 0, j < kk))
        p.pc = list(E.pc)
        ti, tj = E.seq_elem(test, i), E.seq_elem(test, j)
        ri = E.seq_elem(train, i)
        if idx_pos is not None:
            test_i, test_j, train_i = E.getitem(ti, idx_pos), E.getitem(tj, idx_pos), E.getitem(ri, idx_pos)
        else:
            test_i, test_j, train_i = (_selection_of(ck, E, E.getitem(x, 0), rdms, desc, method, label_prefix)
                                       for x in (ti, tj, ri))
            if test_i is None or test_j is None or train_i is None:
                return train, test, ceil
        y = _esym(G, 'y')
        in_test_i, in_test_j, in_train_i = E.seq_mem(test_i, y), E.seq_mem(test_j, y), E.seq_mem(train_i, y)
        isG = E.seq_mem(G, y)
        ck.ensure(f'{label_prefix}/test-subset-of-groups', z3.Implies(in_test_i, isG))
        ck.ensure(f'{label_prefix}/train-subset-of-groups', z3.Implies(in_train_i, isG))
        ck.ensure(f'{label_prefix}/train-test-disjoint', z3.Implies(kk > 1, z3.Not(z3.And(in_test_i, in_train_i))))
        ck.ensure(f'{label_prefix}/train-is-complement', z3.Implies(z3.And(kk > 1, isG), z3.Or(in_test_i, in_train_i)))
        if single_fold_is_no_cv:
            ck.ensure(f'{label_prefix}/no-cv-when-single-fold', z3.Implies(kk == 1, in_test_i == in_train_i))
        if exhaustive:
            ck.ensure(f'{label_prefix}/folds-disjoint', z3.Implies(i != j, z3.Not(z3.And(in_test_i, in_test_j))))
            li, lj = E.as_int(E.seq_len(test_i)), E.as_int(E.seq_len(test_j))
            ck.ensure(f'{label_prefix}/balanced', z3.And(li - lj <= 1, lj - li <= 1))
            # cover: every group lies in some test fold.  Witness candidates for the fold index are
            # computed from the position q of the group in the (possibly shuffled) group order.
            gsz = n / kk
            pos = [G.inv(y)] + [pinv(G.inv(y)) for (_pi, pinv, _n) in getattr(p, 'perms', [])]
            cands = []
            for q in pos:
                cands += [q / z3.If(gsz > 0, gsz, 1), n - 1 - q]
            alts = []
            for w in cands:
                tw = E.getitem(E.seq_elem(test, w), idx_pos) if idx_pos is not None else \
                    _selection_of(ck, E, E.getitem(E.seq_elem(test, w), 0), rdms, desc, method, label_prefix, quiet=True)
                alts.append(z3.And(w >= 0, w < kk, E.seq_mem(tw, y)))
            ck.ensure(f'{label_prefix}/cover', z3.Implies(isG, z3.Or(alts)))
        # contents: the objects are exactly the advertised selections of the source
        if idx_pos is not None:
            m = E.methods[('RDMs', method)]
            ck.ensure_eq(f'{label_prefix}/contents-test', E.getitem(ti, 0), m(E, rdms, desc, test_i))
            ck.ensure_eq(f'{label_prefix}/contents-train', E.getitem(ri, 0), m(E, rdms, desc, train_i))
        return train, test, ceil
    return post


def check_k_fold_pattern(run, E):
    base = fold_post('post', 'pattern_descriptors', 'subset_pattern')
    for kcase in ('int', 'none'):
        for rnd in (False, True):
            ck = FuncCheck(E, run, 'C05', CV + 'sets_k_fold_pattern', f'k={kcase},random={rnd}')

            def mk(E, kcase=kcase, rnd=rnd):
                rdms = E.sym_obj('rdms', 'RDMs')
                pd = E.sym_val('pd', tag='scalar')
                k = E.sym_int('k') if kcase == 'int' else None
                assume = [k.z >= 1] if k is not None else []
                return [rdms, pd, k, rnd], {}, assume

            def post(ck, E, args, kw, p):
                rdms, pd, k, rnd = args
                train, test, ceil = base(ck, E, args, kw, p, desc=pd, rdms=rdms, k=k, single_fold_is_no_cv=True)
                ck.ensure('post/ceil-none', ceil is None)

            def allow(E, args, kw, p):
                # the documented precondition: at most as many folds as groups
                rdms, pd, k, rnd = args
                if p.exc.exc_name != 'AssertionError':
                    return None
                n = groups_of(E, rdms, 'pattern_descriptors', pd).zlen()
                if k is None:
                    return n < 2     # default k is >= 2
                return E.as_int(k) > n
            ck.execute(mk, post=post, allow_raise=allow)
            yield ck


def check_k_fold_rdm(run, E):
    base = fold_post('post', 'rdm_descriptors', 'subsample')
    for kcase in ('int', 'none'):
        for rnd in (False, True):
            ck = FuncCheck(E, run, 'C05', CV + 'sets_k_fold_rdm', f'k={kcase},random={rnd}')

            def mk(E, kcase=kcase, rnd=rnd):
                rdms = E.sym_obj('rdms', 'RDMs')
                rd = E.sym_val('rd', tag='scalar')
                k = E.sym_int('k') if kcase == 'int' else None
                return [rdms, k, rnd, rd], {}, ([k.z >= 2] if k is not None else [])

            def post(ck, E, args, kw, p):
                rdms, k, rnd, rd = args
                train, test, ceil = base(ck, E, args, kw, p, desc=rd, rdms=rdms, k=k, idx_pos=None)
                # rdm-only schemes: the ceiling sets are the training sets; all conditions are kept
                ck.ensure('post/ceil-is-train', ceil is train)
                i = z3.Int(fresh_name('ci'))
                E.pc.append(z3.And(i >= 0, i < E.as_int(E.seq_len(test))))
                p.pc = list(E.pc)

            def allow(E, args, kw, p):
                rdms, k, rnd, rd = args
                if p.exc.exc_name != 'AssertionError':
                    return None
                n = groups_of(E, rdms, 'rdm_descriptors', rd).zlen()
                return n < 2 if k is None else E.as_int(k) > n
            ck.execute(mk, post=post, allow_raise=allow)
            yield ck


def check_of_k(run, E):
    """sets_of_k_*: call-site conformance and delegation (the partition clauses are those of the callee)"""
    for fn, callee, which in (('sets_of_k_pattern', 'sets_k_fold_pattern', 'pattern_descriptors'),
                              ('sets_of_k_rdm', 'sets_k_fold_rdm', 'rdm_descriptors')):
        for rnd in (False, True):
            ck = FuncCheck(E, run, 'C05', CV + fn, f'random={rnd}')

            def mk(E, rnd=rnd):
                rdms = E.sym_obj('rdms', 'RDMs')
                d = E.sym_val('desc', tag='scalar')
                k = E.sym_int('k')
                return [rdms, d, k, rnd], {}, [k.z >= 1]

            def post(ck, E, args, kw, p, callee=callee, which=which):
                rdms, d, k, rnd = args
                n = groups_of(E, rdms, which, d).zlen()
                kz = E.as_int(k)
                app = getattr(p.value, 'app', None)
                ok = app is not None and app[0] == CV + callee
                ck.ensure('post/delegates-to-k-fold', z3.BoolVal(ok))
                if ok:
                    fv = E.find_function(CV + callee)
                    names = [a.arg for a in fv.node.args.args]
                    got = dict(zip(names, app[1]))
                    ck.ensure_eq('post/same-data', got['rdms'], rdms)
                    ck.ensure_eq('post/same-descriptor', got[[x for x in names if 'descriptor' in x][0]], d)
                    kk = got['k'] if 'k' in got else got['k_rdm']
                    # number of folds = floor(#groups / k): groups of (at least) k
                    ck.ensure('post/fold-count', z3.And(E.as_int(kk) * kz <= n, (E.as_int(kk) + 1) * kz > n))
                    ck.ensure_eq('post/random-forwarded', got['random'], rnd)

            def allow(E, args, kw, p, which=which):
                rdms, d, k, rnd = args
                if p.exc.exc_name != 'AssertionError':
                    return None
                n = groups_of(E, rdms, which, d).zlen()
                return 2 * E.as_int(k) > n
            E.no_inline = {CV + callee}
            saved = dict(E.contracts)
            ck.execute(mk, post=post, allow_raise=allow)
            E.no_inline = set()
            yield ck


def check_leave_one_out(run, E):
    for fn, which, method in (('sets_leave_one_out_pattern', 'pattern_descriptors', 'subset_pattern'),
                              ('sets_leave_one_out_rdm', 'rdm_descriptors', 'subset')):
        base = fold_post('post', which, method)
        ck = FuncCheck(E, run, 'C05', CV + fn, '')

        def mk(E):
            rdms = E.sym_obj('rdms', 'RDMs')
            d = E.sym_val('desc', tag='scalar')
            return [rdms, d], {}, []

        def post(ck, E, args, kw, p, fn=fn, which=which):
            rdms, d = args
            n = groups_of(E, rdms, which, d).zlen()
            if fn.endswith('pattern'):
                train, test, ceil = base(ck, E, args, kw, p, desc=d, rdms=rdms, idx_pos=1)
                ck.ensure('post/one-fold-per-group', E.as_int(E.seq_len(test)) == n)
            else:
                # with a single group the function documents "no cross-validation": all three sets are the data
                single = E.prove(n <= 1, pc=p.pc)[0] == 'proved'
                if single:
                    ck.ensure_eq('post/single-group-returns-data', E.getitem(E.getitem(p.value[1], 0), 0), rdms)
                else:
                    train, test, ceil = base(ck, E, args, kw, p, desc=d, rdms=rdms, idx_pos=None)
                    ck.ensure('post/one-fold-per-group', E.as_int(E.seq_len(test)) == n)
                    ck.ensure('post/ceil-is-train', ceil is train)
        ck.execute(mk, post=post, allow_raise=lambda *a: None)
        yield ck


def run(run):
    E = new_engine(run)
    fails = []
    for gen in (check_k_fold_pattern, check_k_fold_rdm, check_of_k, check_leave_one_out):
        for ck in gen(run, E):
            fails += ck.failed
    # cross-validated evaluation: parameters are fitted on train_f only and the score of fold f is the comparison with test_f
    # only (the deductive form of the non-interference clause; contract shared with C04)
    from contracts import C04
    E4 = C04.engine(run)
    for ck in C04.check_crossval(run, E4, pid='C05'):
        fails += ck.failed
    finish_engine(E4, run)
    finish_engine(E, run)
    bds = [tier_c_folds(run, run.tier == 'thorough'), tier_c_noninterference(run, run.tier == 'thorough')]
    report_a_failures(run, fails, bds)


# =====================================================================================================
# tier C: bounded run-time oracles on the real functions (concrete replays; never counted as proved)
# =====================================================================================================
import itertools
import numpy as np
from vf.rt.harness import oracle, Bounded, replay_file, close


def _mk_rdms(n_rdm, n_cond, rgroups, pgroups, container='list'):
    """RDMs with sentinel values: entry (r, a<b) = 1000*(r+1) + 30*a + b ; ids in descriptors (lists or numpy arrays)"""
    from rsatoolbox.rdm import RDMs
    vec = []
    for r in range(n_rdm):
        vec.append([1000.0 * (r + 1) + 30 * a + b for a in range(n_cond) for b in range(a + 1, n_cond)])
    c = np.array if container == 'array' else list
    return RDMs(np.array(vec), rdm_descriptors={'rid': c(range(n_rdm)), 'rg': c(rgroups)},
                pattern_descriptors={'cid': c(range(n_cond)), 'pg': c(pgroups)})


def _source_intact(rdms, n_rdm, n_cond, rg, pg):
    """the generator must hand out selections of the source, not re-label the source itself"""
    want = _mk_rdms(n_rdm, n_cond, rg, pg)
    for nm, a, b in (('rdm', rdms.rdm_descriptors, want.rdm_descriptors),
                     ('pattern', rdms.pattern_descriptors, want.pattern_descriptors)):
        for k in b:
            if list(a[k]) != list(b[k]):
                return f'the {nm} descriptor {k!r} of the SOURCE object was changed by the generator: {list(a[k])} (was {list(b[k])})'
    if not np.array_equal(rdms.dissimilarities, want.dissimilarities):
        return 'the dissimilarities of the source object were changed by the generator'
    return None


def _content_ok(obj, where):
    """every entry of obj equals the sentinel of its own (rid, cid, cid) labels"""
    m = obj.get_matrices()
    rid = list(obj.rdm_descriptors['rid'])
    cid = list(obj.pattern_descriptors['cid'])
    for r in range(m.shape[0]):
        for a in range(len(cid)):
            for b in range(len(cid)):
                if a == b:
                    continue
                lo, hi = min(cid[a], cid[b]), max(cid[a], cid[b])
                want = 1000.0 * (rid[r] + 1) + 30 * lo + hi if lo != hi else float('nan')
                got = m[r, a, b]
                if not (got == want or (np.isnan(got) and np.isnan(want))):
                    return f'{where}: entry rid={rid[r]} cid=({cid[a]},{cid[b]}) is {got}, source has {want}'
    return None


def _expect_members(obj, rg_set, pg_set, src_rg, src_pg, where):
    """obj contains exactly the RDMs with rg in rg_set and the conditions with pg in pg_set (all copies)"""
    want_r = sorted(i for i, g in enumerate(src_rg) if g in rg_set)
    want_c = sorted(i for i, g in enumerate(src_pg) if g in pg_set)
    got_r = sorted(obj.rdm_descriptors['rid'])
    got_c = sorted(obj.pattern_descriptors['cid'])
    if got_r != want_r:
        return f'{where}: RDM ids {got_r}, advertised groups {sorted(rg_set)} mean {want_r}'
    if got_c != want_c:
        return f'{where}: condition ids {got_c}, advertised groups {sorted(pg_set)} mean {want_c}'
    return _content_ok(obj, where)


@oracle('C05/folds')
def orc_folds(case):
    import rsatoolbox.inference.crossvalsets as cvs
    n_rdm, n_cond = case['n_rdm'], case['n_cond']
    rg, pg = case['rg'], case['pg']
    rdms = _mk_rdms(n_rdm, n_cond, rg, pg, case.get('container', 'list'))
    gen = case['gen']
    np.random.seed(case.get('seed', 0))
    all_rg, all_pg = set(rg), set(pg)
    exhaustive = True
    if gen == 'leave_one_out_pattern':
        tr, te, ce = cvs.sets_leave_one_out_pattern(rdms, 'pg')
        factors = ('p',)
    elif gen == 'leave_one_out_rdm':
        tr, te, ce = cvs.sets_leave_one_out_rdm(rdms, 'rg')
        factors = ('r',)
    elif gen == 'k_fold_pattern':
        tr, te, ce = cvs.sets_k_fold_pattern(rdms, 'pg', k=case['k'], random=case['random'])
        factors = ('p',)
    elif gen == 'k_fold_rdm':
        tr, te, ce = cvs.sets_k_fold_rdm(rdms, k_rdm=case['k'], random=case['random'], rdm_descriptor='rg')
        factors = ('r',)
    elif gen == 'of_k_pattern':
        tr, te, ce = cvs.sets_of_k_pattern(rdms, 'pg', k=case['k'], random=case['random'])
        factors = ('p',)
    elif gen == 'of_k_rdm':
        tr, te, ce = cvs.sets_of_k_rdm(rdms, 'rg', k=case['k'], random=case['random'])
        factors = ('r',)
    elif gen == 'k_fold':
        tr, te, ce = cvs.sets_k_fold(rdms, k_rdm=case['k_rdm'], k_pattern=case['k'], random=case['random'],
                                     pattern_descriptor='pg', rdm_descriptor='rg')
        factors = ('r', 'p')
    elif gen == 'random':
        tr, te, ce = cvs.sets_random(rdms, n_rdm=case['k_rdm'], n_pattern=case['k'], n_cv=case['n_cv'],
                                     pattern_descriptor='pg', rdm_descriptor='rg')
        factors, exhaustive = ('r', 'p'), False
    else:
        raise ValueError(gen)
    if len(tr) != len(te):
        return f'{len(tr)} training sets but {len(te)} test sets'
    msg = _source_intact(rdms, n_rdm, n_cond, rg, pg)
    if msg:
        return msg
    n_fold = len(te)
    # is each factor actually cross-validated (more than one fold requested along it)?
    cv_r = 'r' in factors
    cv_p = 'p' in factors
    if gen == 'k_fold':
        cv_r, cv_p = case['k_rdm'] > 1, case['k'] > 1
    elif gen == 'random':
        cv_r, cv_p = case['k_rdm'] > 0, case['k'] > 0
    elif gen == 'k_fold_pattern':
        cv_p = case['k'] > 1
    elif gen == 'of_k_pattern':
        cv_p = int(len(all_pg) / case['k']) > 1
    elif gen == 'k_fold_rdm':
        cv_r = case['k'] > 1
    elif gen == 'of_k_rdm':
        cv_r = int(len(all_rg) / case['k']) > 1
    elif gen == 'leave_one_out_rdm':
        cv_r = len(all_rg) > 1
    elif gen == 'leave_one_out_pattern':
        cv_p = len(all_pg) > 1
    seen = {}
    sizes = []
    for f in range(n_fold):
        t_obj, r_obj = te[f][0], tr[f][0]
        t_rg, r_rg = set(t_obj.rdm_descriptors['rg']), set(r_obj.rdm_descriptors['rg'])
        t_pg, r_pg = set(t_obj.pattern_descriptors['pg']), set(r_obj.pattern_descriptors['pg'])
        if 'p' in factors:
            if set(te[f][1]) != t_pg:
                return f'fold {f}: test index list {sorted(set(te[f][1]))} but test object holds groups {sorted(t_pg)}'
            if set(tr[f][1]) != r_pg:
                return f'fold {f}: train index list {sorted(set(tr[f][1]))} but train object holds groups {sorted(r_pg)}'
        for nm, obj, rgs, pgs in (('test', t_obj, t_rg, t_pg), ('train', r_obj, r_rg, r_pg)):
            msg = _expect_members(obj, rgs, pgs, rg, pg, f'fold {f} {nm}')
            if msg:
                return msg
        if cv_r:
            if t_rg & r_rg:
                return f'fold {f}: RDM groups {sorted(t_rg & r_rg)} are in both the training and the test set'
            if exhaustive and (t_rg | r_rg) != all_rg:
                return f'fold {f}: RDM groups {sorted(all_rg - t_rg - r_rg)} are in neither set'
        elif 'r' not in factors and (t_rg != all_rg or r_rg != all_rg):
            return f'fold {f}: RDMs were dropped although only conditions are cross-validated'
        if cv_p:
            if t_pg & r_pg:
                return f'fold {f}: condition groups {sorted(t_pg & r_pg)} are in both the training and the test set'
            if exhaustive and (t_pg | r_pg) != all_pg:
                return f'fold {f}: condition groups {sorted(all_pg - t_pg - r_pg)} are in neither set'
        elif 'p' not in factors and (t_pg != all_pg or r_pg != all_pg):
            return f'fold {f}: conditions were dropped although only RDMs are cross-validated'
        for a in (t_rg if 'r' in factors else [None]):
            for b in (t_pg if 'p' in factors else [None]):
                seen[(a, b)] = seen.get((a, b), 0) + 1
        sizes.append((len(t_rg) if 'r' in factors else 0, len(t_pg) if 'p' in factors else 0))
        if ce is None:
            if gen not in ('k_fold_pattern', 'of_k_pattern'):
                return 'ceil_set is None for a scheme that advertises ceiling sets'
        else:
            c_obj = ce[f][0]
            if gen in ('k_fold_rdm', 'of_k_rdm', 'leave_one_out_rdm'):
                want_r, want_p = r_rg, all_pg
            elif gen == 'leave_one_out_pattern':
                want_r, want_p = all_rg, t_pg
            else:
                want_r, want_p = r_rg, t_pg
            msg = _expect_members(c_obj, want_r, want_p, rg, pg, f'fold {f} ceil')
            if msg:
                return msg + ' (ceiling set must be the training RDMs at the test conditions)'
    if exhaustive:
        cells = [(a, b) for a in (all_rg if 'r' in factors else [None]) for b in (all_pg if 'p' in factors else [None])]
        for c in cells:
            if seen.get(c, 0) != 1:
                return f'group cell {c} is tested {seen.get(c, 0)} times (must be exactly once)'
        for d in (0, 1):
            ss = [s[d] for s in sizes]
            if max(ss) - min(ss) > 1:
                return f'test fold sizes differ by more than one: {ss}'
    return None


def _groupings(n):
    """identity grouping and groupings with repeated values (bootstrap copies / larger groups)"""
    out = [list(range(n))]
    if n >= 4:
        out.append([i // 2 for i in range(n)])
    if n >= 5:
        out.append([(i * 7) % (n - 2) for i in range(n)])
    return out


def tier_c_folds(run, thorough):
    bd = Bounded(run, 'C05/folds', 'C05/fold-generators/oracle/partition-and-contents',
                 'all generators; n_rdm 2..%d, n_cond 3..%d; identity / repeated-value groupings; every admissible k; '
                 'ordered and %d shuffle seeds (+ 4 larger designs with remainders >= 2: 5/3, 8/3, 7/4, 8/5 groups per k); list descriptors, and numpy-array descriptors for half of the shapes' % ((6, 8, 6) if thorough else (4, 6, 2)), exhaustive=False,
                 function='sets_*')
    R = range(2, 7 if thorough else 5)
    Cn = range(3, 9 if thorough else 7)
    seeds = range(6 if thorough else 2)

    def chk(case, gen):
        bd.check(orc_folds, dict(case, gen=gen), gen, function='sets_' + gen)
        if case.get('seed', 0) <= 1 and (case['n_rdm'] + case['n_cond']) % 2 == 0:
            # the same with numpy-array descriptors (shared by reference between source and selections)
            bd.check(orc_folds, dict(case, gen=gen, container='array'), gen + ',array-descriptors', function='sets_' + gen)
    for n_rdm in R:
        for n_cond in Cn:
            for rg in _groupings(n_rdm):
                for pg in _groupings(n_cond):
                    nrg, npg = len(set(rg)), len(set(pg))
                    base = dict(n_rdm=n_rdm, n_cond=n_cond, rg=rg, pg=pg)
                    chk(base, 'leave_one_out_pattern')
                    chk(base, 'leave_one_out_rdm')
                    for rnd, seed in [(False, 0)] + [(True, s) for s in seeds]:
                        for k in range(1, npg + 1):
                            chk(dict(base, k=k, random=rnd, seed=seed), 'k_fold_pattern')
                        for k in range(2, nrg + 1):
                            chk(dict(base, k=k, random=rnd, seed=seed), 'k_fold_rdm')
                        for k in range(1, npg // 2 + 1):
                            chk(dict(base, k=k, random=rnd, seed=seed), 'of_k_pattern')
                        for k in range(1, nrg // 2 + 1):
                            if int(nrg / k) >= 2:
                                chk(dict(base, k=k, random=rnd, seed=seed), 'of_k_rdm')
                        if rnd is False or seed == 0:
                            for kr in range(1, nrg + 1):
                                for kp in range(1, npg + 1):
                                    chk(dict(base, k=kp, k_rdm=kr, random=rnd, seed=seed), 'k_fold')
                    for nr in range(0, nrg):
                        for npat in range(0, npg):
                            chk(dict(base, k=npat, k_rdm=nr, n_cv=2, seed=1), 'random')
    # larger remainders (n_groups mod k >= 2): several folds receive a left-over group
    for (n_rdm, n_cond, kr, kp) in ((5, 5, 3, 3), (8, 4, 3, 2), (7, 7, 4, 4), (8, 8, 5, 3)):
        base = dict(n_rdm=n_rdm, n_cond=n_cond, rg=list(range(n_rdm)), pg=list(range(n_cond)))
        for rnd, seed in ((False, 0), (True, 1)):
            chk(dict(base, k=kp, k_rdm=kr, random=rnd, seed=seed), 'k_fold')
            chk(dict(base, k=kr, random=rnd, seed=seed), 'k_fold_rdm')
            chk(dict(base, k=kp, random=rnd, seed=seed), 'k_fold_pattern')
    bd.done()
    return bd


def replay(path):
    return replay_file(path)


# ---- non-interference of cross-validated evaluation (2-safety, bounded) ----------------------------
@oracle('C05/noninterference')
def orc_noninterference(case):
    """fitted parameters of a fold do not depend on test-only data; the fold's score (parameters frozen)
    does not depend on data outside the fold's test RDMs x test conditions"""
    from rsatoolbox.rdm import RDMs, compare
    from rsatoolbox.inference import crossval, sets_k_fold
    from rsatoolbox.model import ModelWeighted
    rs = np.random.RandomState(case['seed'])
    n_rdm, n_cond, n_model = case['n_rdm'], case['n_cond'], case['n_model']
    n_pair = n_cond * (n_cond - 1) // 2
    rg = case.get('rg') or list(range(n_rdm))
    pg = case.get('pg') or list(range(n_cond))

    def mk(vec):
        return RDMs(vec.copy(), rdm_descriptors={'rg': list(rg), 'rid': list(range(n_rdm))},
                    pattern_descriptors={'pg': list(pg), 'cid': list(range(n_cond))})
    base = rs.rand(n_rdm, n_pair) + 0.1
    basis = [RDMs(rs.rand(2, n_pair) + 0.1, pattern_descriptors={'pg': list(pg), 'cid': list(range(n_cond))})
             for _ in range(n_model)]
    models = [ModelWeighted(f'm{j}', basis[j]) for j in range(n_model)]
    method = case['method']

    def sets(data):
        return sets_k_fold(data, k_rdm=case['k_rdm'], k_pattern=case['k_pattern'], random=False,
                           pattern_descriptor='pg', rdm_descriptor='rg')
    log = []

    def rec_fitter(model, data, method='cosine', pattern_idx=None, pattern_descriptor=None, **kw):
        from rsatoolbox.model.fitter import fit_regress
        th = fit_regress(model, data, method=method, pattern_idx=pattern_idx, pattern_descriptor=pattern_descriptor)
        log.append(np.array(th, dtype=float))
        return th
    frozen = [rs.rand(2) + 0.1 for _ in range(n_model)]

    def frozen_fitter(model, data, method='cosine', pattern_idx=None, pattern_descriptor=None, **kw):
        return frozen[int(model.name[1:])]

    def run_cv(vec, fitter):
        data = mk(vec)
        tr, te, ce = sets(data)
        res = crossval(models, data, tr, te, ce, method=method, fitter=fitter, pattern_descriptor='pg')
        return res, tr, te
    log.clear()
    res0, tr, te = run_cv(base, rec_fitter)
    thetas0 = [x.copy() for x in log]
    n_fold = len(te)
    if len(thetas0) != n_fold * n_model:
        return f'{len(thetas0)} fits for {n_fold} folds x {n_model} models'
    pairs = [(a, b) for a in range(n_cond) for b in range(a + 1, n_cond)]
    f = case['fold'] % n_fold
    t_r, r_r = set(te[f][0].rdm_descriptors['rid']), set(tr[f][0].rdm_descriptors['rid'])
    t_c, r_c = set(te[f][0].pattern_descriptors['cid']), set(tr[f][0].pattern_descriptors['cid'])
    alt = base.copy()
    touched = 0
    for r in range(n_rdm):
        for k, (a, b) in enumerate(pairs):
            if (r in t_r and r not in r_r) or (a in t_c and a not in r_c) or (b in t_c and b not in r_c):
                alt[r, k] += 1.0 + rs.rand()
                touched += 1
    if touched:
        log.clear()
        run_cv(alt, rec_fitter)
        for j in range(n_model):
            a, b = thetas0[f * n_model + j], log[f * n_model + j]
            if not close(a, b, 1e-9):
                return (f'fold {f} model {j}: fitted parameters changed from {a.tolist()} to {b.tolist()} when only '
                        f'test-only data ({touched} entries) were altered')
    resA, _, _ = run_cv(base, frozen_fitter)
    alt2 = base.copy()
    touched2 = 0
    for r in range(n_rdm):
        for k, (a, b) in enumerate(pairs):
            if not (r in t_r and a in t_c and b in t_c):
                alt2[r, k] += 1.0 + rs.rand()
                touched2 += 1
    resB, _, _ = run_cv(alt2, frozen_fitter)
    ea, eb = resA.evaluations[0, :, f], resB.evaluations[0, :, f]
    if touched2 and not close(ea, eb, 1e-9):
        return (f'fold {f}: scores changed from {ea.tolist()} to {eb.tolist()} with frozen parameters when only data '
                f'outside the test RDMs x test conditions were altered')
    for j in range(n_model):
        pred = models[j].predict_rdm(frozen[j]).subsample_pattern('pg', te[f][1])
        want = float(np.mean(compare(pred, te[f][0], method)))
        if not close(ea[j], want, 1e-9):
            return f'fold {f} model {j}: stored score {ea[j]} but direct comparison gives {want}'
    return None


def tier_c_noninterference(run, thorough):
    bd = Bounded(run, 'C05/noninterference', 'C05/crossval/oracle/noninterference',
                 'crossval with 1..3 weighted models (2 basis RDMs each), recording / frozen fitters; n_rdm 4..5, n_cond 8..9, '
                 'k_rdm, k_pattern in {1,2}, methods cosine/corr; perturbation of test-only resp. non-test entries; every fold',
                 function='crossval')
    seeds = range(3 if thorough else 1)
    for seed in seeds:
        for n_model in (1, 2, 3):
            for (n_rdm, n_cond) in ((4, 8), (5, 9)) if thorough else ((4, 8),):
                for k_rdm in (1, 2):
                    for k_pattern in (1, 2):
                        for method in ('cosine', 'corr'):
                            for fold in range(k_rdm * k_pattern):
                                bd.check(orc_noninterference, dict(seed=seed, n_model=n_model, n_rdm=n_rdm, n_cond=n_cond,
                                                                   k_rdm=k_rdm, k_pattern=k_pattern, method=method, fold=fold),
                                         f'models={n_model}' if n_model > 1 else 'single-model')
    bd.done()
    return bd
