"""C05 -- folds partition the data; test data never influence fitting."""
import z3

from vf.pyvc.values import V, SV, Obj, SeqV, CaseV, Undecided, fresh_name
from vf.pyvc.api import FuncCheck
from contracts.common import new_engine, finish_engine

LEVEL = 'proof'
CV = 'rsatoolbox.inference.crossvalsets.'


def groups_of(E, rdms, which, desc):
    """the sequence of distinct descriptor groups (np.unique of the descriptor), as the code obtains it"""
    d = E.getattr(rdms, which)
    col = E.getitem(d, desc)
    return E.lib['numpy.unique'](E, col)


def _esym(G, name):
    return z3.Const(fresh_name(name), V) if G.esort == 'val' else z3.Int(fresh_name(name))


def fold_post(label_prefix, which, method, exhaustive=True):
    """property-level postcondition of a fold generator over one factor.
    which: 'pattern_descriptors' | 'rdm_descriptors'; method: RDMs method that must build the sets"""
    def post(ck, E, args, kw, p, desc=None, rdms=None, k=None, idx_pos=1):
        train, test, ceil = p.value
        G = groups_of(E, rdms, which, desc)
        n = G.zlen()
        kk = E.as_int(E.seq_len(train))
        ck.ensure(f'{label_prefix}/count', z3.And(E.as_int(E.seq_len(test)) == kk,
                                                  kk == (E.as_int(k) if k is not None else kk)))
        i = z3.Int(fresh_name('fi'))
        j = z3.Int(fresh_name('fj'))
        E.pc.append(z3.And(i >= 0, i < kk, j >= 0, j < kk))
        p.pc = list(E.pc)
        ti, tj = E.seq_elem(test, i), E.seq_elem(test, j)
        ri = E.seq_elem(train, i)
        test_i, test_j, train_i = E.getitem(ti, idx_pos), E.getitem(tj, idx_pos), E.getitem(ri, idx_pos)
        y = _esym(G, 'y')
        in_test_i, in_test_j, in_train_i = E.seq_mem(test_i, y), E.seq_mem(test_j, y), E.seq_mem(train_i, y)
        isG = E.seq_mem(G, y)
        ck.ensure(f'{label_prefix}/test-subset-of-groups', z3.Implies(in_test_i, isG))
        ck.ensure(f'{label_prefix}/train-subset-of-groups', z3.Implies(in_train_i, isG))
        ck.ensure(f'{label_prefix}/train-test-disjoint', z3.Implies(kk > 1, z3.Not(z3.And(in_test_i, in_train_i))))
        ck.ensure(f'{label_prefix}/train-is-complement', z3.Implies(z3.And(kk > 1, isG), z3.Or(in_test_i, in_train_i)))
        ck.ensure(f'{label_prefix}/no-cv-when-single-fold', z3.Implies(kk == 1, in_test_i == in_train_i))
        if exhaustive:
            ck.ensure(f'{label_prefix}/folds-disjoint', z3.Implies(i != j, z3.Not(z3.And(in_test_i, in_test_j))))
            li, lj = E.as_int(E.seq_len(test_i)), E.as_int(E.seq_len(test_j))
            ck.ensure(f'{label_prefix}/balanced', z3.And(li - lj <= 1, lj - li <= 1))
            # cover: every group lies in some test fold (witness: z3 instantiates the fold index)
            w = z3.Int(fresh_name('w'))
            tw = E.getitem(E.seq_elem(test, w), idx_pos)
            ck.ensure(f'{label_prefix}/cover', z3.Implies(isG, z3.Exists([w], z3.And(w >= 0, w < kk, E.seq_mem(tw, y)))))
        # contents: the objects are exactly the advertised selections of the source
        m = E.methods[('RDMs', method)]
        ck.ensure_eq(f'{label_prefix}/contents-test', E.getitem(ti, 0), m(E, rdms, desc, test_i))
        ck.ensure_eq(f'{label_prefix}/contents-train', E.getitem(ri, 0), m(E, rdms, desc, train_i))
        return train, test, ceil
    return post


def check_k_fold_pattern(run, E):
    base = fold_post('post', 'pattern_descriptors', 'subset_pattern')
    for kcase in ('int', 'none'):
        for rnd in (False, True):
            ck = FuncCheck(E, run, 'C05', CV + 'sets_k_fold_pattern', f'k={kcase},random={rnd}')

            def mk(E, kcase=kcase, rnd=rnd):
                rdms = E.sym_obj('rdms', 'RDMs')
                pd = E.sym_val('pd', tag='scalar')
                k = E.sym_int('k') if kcase == 'int' else None
                assume = [k.z >= 1] if k is not None else []
                return [rdms, pd, k, rnd], {}, assume

            def post(ck, E, args, kw, p):
                rdms, pd, k, rnd = args
                train, test, ceil = base(ck, E, args, kw, p, desc=pd, rdms=rdms, k=k)
                ck.ensure('post/ceil-none', ceil is None)

            def allow(E, args, kw, p):
                # the documented precondition: at most as many folds as groups
                rdms, pd, k, rnd = args
                if p.exc.exc_name != 'AssertionError':
                    return None
                n = groups_of(E, rdms, 'pattern_descriptors', pd).zlen()
                if k is None:
                    return n < 2     # default k is >= 2
                return E.as_int(k) > n
            ck.execute(mk, post=post, allow_raise=allow)
            yield ck


def run(run):
    E = new_engine(run)
    fails = []
    for ck in check_k_fold_pattern(run, E):
        fails += ck.failed
    finish_engine(E, run)
    for nm, label, detail in fails:
        run.violation(nm, 'all-inputs', dict(obligation=nm, detail=detail), found_input=False,
                      what='engine-A obligation refuted')
