"""C02 -- cross-validated distances are the mean of between-fold products only."""
import itertools

import numpy as np

from vf.rt.harness import oracle, Bounded, replay_file, close
from contracts.common import report_a_failures

LEVEL = 'other'


# =====================================================================================================
# engine B: the real calc_rdm_crossnobis / calc_rdm_poisson_cv on symbolic data (all real values, bounded designs)
# =====================================================================================================
def _design(C, M, R, order):
    """labels of a fold-balanced design: every condition R times in every fold"""
    cond, fold = [], []
    for m in range(M):
        for c in range(C):
            for _ in range(R):
                cond.append(c)
                fold.append(m)
    idx = list(range(len(cond)))
    if order == 'reversed':
        idx = idx[::-1]
    elif order == 'interleaved':
        idx = idx[1::2] + idx[0::2]
    return [cond[i] for i in idx], [fold[i] for i in idx]


def _spec_cv(X, cond, fold, C, M, kernel):
    """literal definition: average over ordered pairs of distinct folds (m, n) of kernel(x_am - x_bm, x_an - x_bn) / P"""
    import sympy as sp
    P = X.shape[1]
    means = {}
    for c in range(C):
        for m in range(M):
            rows = [X[t] for t in range(len(cond)) if cond[t] == c and fold[t] == m]
            means[c, m] = sum(rows[1:], rows[0]) / sp.Integer(len(rows))
    out = []
    for a in range(C):
        for b in range(a + 1, C):
            tot = 0
            cnt = 0
            for m in range(M):
                for n in range(M):
                    if m == n:
                        continue
                    tot = tot + kernel(means[a, m], means[b, m], means[a, n], means[b, n], m, n)
                    cnt += 1
            out.append(tot / sp.Integer(cnt) / sp.Integer(P))
    return np.array(out, dtype=object)


MODS = ['rsatoolbox.rdm.calc', 'rsatoolbox.data.computations', 'rsatoolbox.data.dataset', 'rsatoolbox.data.base',
        'rsatoolbox.util.rdm_utils', 'rsatoolbox.util.build_rdm', 'rsatoolbox.util.data_utils', 'rsatoolbox.rdm.rdms',
        'rsatoolbox.util.descriptor_utils']


def tier_b(run, thorough):
    import sympy as sp
    from vf.symrun.core import symarray, patched_np, identical, OVERRIDES_USED, witness, guard
    from rsatoolbox.data import Dataset
    import rsatoolbox.rdm.calc as calc
    designs = [(2, 2, 1, 2), (3, 2, 1, 2), (2, 3, 1, 2), (2, 2, 2, 2)] + ([(3, 3, 1, 2), (2, 3, 2, 2)] if thorough else [])
    fails = []
    n_eval = 0
    distinct = set()

    def record(nm, ok, idx, diff, case, desc):
        nonlocal n_eval
        n_eval += 1
        distinct.add(nm)
        run.obligation(nm, 'proved' if ok else 'refuted', 'sympy-normal-form', 0.0,
                       detail=desc if ok else f'differs at entry {idx}: {str(diff)[:300]}')
        if not ok:
            pt, val = (witness(sp.sympify(diff)) if not isinstance(diff, tuple) else (None, None))
            fails.append((nm, desc, dict(case=case, entry=str(idx), difference=str(diff)[:500], witness=pt, value=val)))

    for (C, M, R, P) in designs:
        for order in ('sorted', 'reversed', 'interleaved'):
            with guard(run, f'C02/B/symbolic-execution[C={C},M={M},R={R},P={P},{order}]'):
                cond, fold = _design(C, M, R, order)
                X = symarray('x', (len(cond), P))
                for flabels, fname in ((fold, 'int-folds'), ([['b', 'a', 'c'][f] for f in fold], 'str-folds')):
                    if fname == 'str-folds' and order != 'sorted':
                        continue
                    ds = Dataset(X.copy(), obs_descriptors={'cond': list(cond), 'fold': list(flabels)})
                    tag = f'[C={C},M={M},R={R},P={P},{order},{fname}]'
                    case = dict(C=C, M=M, R=R, P=P, order=order, folds=fname)
                    # --- crossnobis, identity precision
                    with patched_np(MODS):
                        got = calc.calc_rdm_crossnobis(ds, 'cond', cv_descriptor='fold').dissimilarities[0]
                    want = _spec_cv(X, cond, fold, C, M, lambda am, bm, an, bn, m, n: np.dot(am - bm, an - bn))
                    ok, idx, diff = identical(got, want)
                    record(f'C02/calc_rdm_crossnobis/B/mean-over-ordered-fold-pairs{tag}', ok, idx, diff, case,
                           'crossnobis(a,b) == mean over ordered pairs of distinct folds of (x_am-x_bm).(x_an-x_bn)/P for all real data')
                    # --- crossnobis, one symbolic symmetric precision
                    L = symarray('l', (P, P))
                    N = np.dot(L, L.T)
                    with patched_np(MODS):
                        got = calc.calc_rdm_crossnobis(ds, 'cond', noise=N, cv_descriptor='fold').dissimilarities[0]
                    want = _spec_cv(X, cond, fold, C, M, lambda am, bm, an, bn, m, n: np.dot(np.dot(am - bm, N), an - bn))
                    ok, idx, diff = identical(got, want)
                    record(f'C02/calc_rdm_crossnobis/B/single-precision{tag}', ok, idx, diff, case,
                           'same with a symbolic symmetric precision matrix')
                    # --- poisson_cv
                    lam0, w = sp.Symbol('lam0', positive=True), sp.Symbol('w', positive=True)
                    with patched_np(MODS):
                        got = calc.calc_rdm_poisson_cv(ds, 'cond', prior_lambda=lam0, prior_weight=w,
                                                       cv_descriptor='fold').dissimilarities[0]
                    reg = lambda v: (v + lam0 * w) / (1 + w)
                    lg = lambda v: np.array([sp.log(e) for e in v], dtype=object)
                    want = _spec_cv(X, cond, fold, C, M,
                                    lambda am, bm, an, bn, m, n: np.dot(reg(am) - reg(bm), lg(reg(an)) - lg(reg(bn))))
                    ok, idx, diff = identical(got, want)
                    record(f'C02/calc_rdm_poisson_cv/B/mean-over-ordered-fold-pairs{tag}', ok, idx, diff, case,
                           'poisson_cv(a,b) == mean over ordered pairs of distinct folds of (l_am-l_bm).(log l_an-log l_bn)/P')
        # --- remove_mean: centring each fold mean over channels on both sides
        with guard(run, f'C02/B/symbolic-execution[C={C},M={M},R={R},P={P},variants]'):
            cond, fold = _design(C, M, R, 'sorted')
            X = symarray('x', (len(cond), P))
            ds = Dataset(X.copy(), obs_descriptors={'cond': list(cond), 'fold': list(fold)})
            L = symarray('l', (P, P))
            N = np.dot(L, L.T)
            with patched_np(MODS):
                got = calc.calc_rdm_crossnobis(ds, 'cond', noise=N, cv_descriptor='fold', remove_mean=True).dissimilarities[0]
            cen = lambda v: v - sum(v[1:], v[0]) / sp.Integer(len(v))
            want = _spec_cv(X, cond, fold, C, M,
                            lambda am, bm, an, bn, m, n: np.dot(np.dot(cen(am) - cen(bm), N), cen(an) - cen(bn)))
            ok, idx, diff = identical(got, want)
            record(f'C02/calc_rdm_crossnobis/B/remove-mean-centres-both-sides[C={C},M={M},R={R},P={P}]', ok, idx, diff,
                   dict(C=C, M=M, R=R, P=P), 'remove_mean centres train and test fold means over channels')
            # --- one precision per fold: pair (m,n) uses inv((inv N_m + inv N_n)/2)
            if M <= 3 and P == 2:
                Ns = []
                for m in range(M):
                    d = symarray(f'd{m}', (P,), positive=True)
                    Ns.append(np.diag(d))
                with patched_np(MODS):
                    got = calc.calc_rdm_crossnobis(ds, 'cond', noise=Ns, cv_descriptor='fold').dissimilarities[0]

                def pairprec(m, n):
                    a = sp.Matrix(Ns[m].tolist()).inv()
                    b = sp.Matrix(Ns[n].tolist()).inv()
                    return np.array(((a + b) / 2).inv().tolist(), dtype=object)
                want = _spec_cv(X, cond, fold, C, M,
                                lambda am, bm, an, bn, m, n: np.dot(np.dot(am - bm, pairprec(m, n)), an - bn))
                ok, idx, diff = identical(got, want)
                record(f'C02/calc_rdm_crossnobis/B/precision-per-fold[C={C},M={M},R={R},P={P}]', ok, idx, diff,
                       dict(C=C, M=M, R=R, P=P), 'pair (m,n) uses the precision of the two folds averaged covariance; every ordered pair counted')
    for o in sorted(OVERRIDES_USED):
        run.trust('engine B proxy override: ' + o)
    run.trust('engine B: numpy `np` rebound in modules ' + ', '.join(MODS))
    run.bounded_check('C02/B/fold-designs', 'B', 'ALL REAL data values; fold-balanced designs (C,M,R,P) in %s x row orders sorted/reversed/'
                      'interleaved x int/str fold labels; symbolic precision LL^T; symbolic prior' % designs,
                      n_eval, len(distinct), exhaustive=False, failures=len(fails))
    return fails


@oracle('C02/B-witness')
def orc_b_witness(case):
    """float replay of an engine-B refutation on the unpatched function (random float instance of the same design/variant)"""
    from rsatoolbox.data import Dataset
    import rsatoolbox.rdm.calc as calc
    C, M, R, P = case['C'], case['M'], case['R'], case['P']
    cond, fold = _design(C, M, R, case.get('order', 'sorted'))
    rs = np.random.RandomState(case.get('seed', 0))
    X = rs.rand(len(cond), P) + 0.5
    ds = Dataset(X.copy(), obs_descriptors={'cond': cond, 'fold': fold})
    fn, variant = case['fn'], case.get('variant', 'identity')
    cen = lambda v: v - v.mean()
    if fn == 'poisson_cv':
        got = calc.calc_rdm_poisson_cv(ds, 'cond', cv_descriptor='fold').dissimilarities[0]
        reg = lambda v: (v + 0.1) / 1.1
        kern = lambda am, bm, an, bn, m, n: float(np.dot(reg(am) - reg(bm), np.log(reg(an)) - np.log(reg(bn))))
    elif variant == 'single-precision' or variant == 'remove-mean':
        Lm = rs.randn(P, P)
        N = Lm @ Lm.T + 0.1 * np.eye(P)
        rm = variant == 'remove-mean'
        got = calc.calc_rdm_crossnobis(ds, 'cond', noise=N, cv_descriptor='fold', remove_mean=rm).dissimilarities[0]
        f = cen if rm else (lambda v: v)
        kern = lambda am, bm, an, bn, m, n: float((f(am) - f(bm)) @ N @ (f(an) - f(bn)))
    elif variant == 'precision-per-fold':
        Ns = [np.diag(rs.rand(P) + 0.5) for _ in range(M)]
        got = calc.calc_rdm_crossnobis(ds, 'cond', noise=Ns, cv_descriptor='fold').dissimilarities[0]
        pp = lambda m, n: np.linalg.inv((np.linalg.inv(Ns[m]) + np.linalg.inv(Ns[n])) / 2)
        kern = lambda am, bm, an, bn, m, n: float((am - bm) @ pp(m, n) @ (an - bn))
    else:
        got = calc.calc_rdm_crossnobis(ds, 'cond', cv_descriptor='fold').dissimilarities[0]
        kern = lambda am, bm, an, bn, m, n: float(np.dot(am - bm, an - bn))
    means = {(c, m): X[[t for t in range(len(cond)) if cond[t] == c and fold[t] == m]].mean(0) for c in range(C) for m in range(M)}
    want = []
    for a in range(C):
        for b in range(a + 1, C):
            vals = [kern(means[a, m], means[b, m], means[a, n], means[b, n], m, n) for m in range(M) for n in range(M) if m != n]
            want.append(np.mean(vals) / P)
    if not close(got, np.array(want), 1e-9):
        return (f'{fn}/{variant}: got {np.round(got, 6).tolist()} but the mean over ordered pairs of distinct folds of the '
                f'between-fold products is {np.round(want, 6).tolist()}')
    return None


CV_SINGLE = {
    'crossnobis': ('calc_rdm_crossnobis', ['dataset', 'descriptor', 'noise', 'cv_descriptor', 'remove_mean']),
    'poisson_cv': ('calc_rdm_poisson_cv', ['dataset', 'descriptor', 'prior_lambda', 'prior_weight', 'cv_descriptor']),
}


def tier_a(run):
    """engine A (ast -> z3 on the real source): (1) calc_rdm hands a single dataset to the cross-validated estimator of the
    method with EXACTLY the caller's options (descriptor, precision, fold descriptor, remove_mean resp. the poisson prior: any
    value, also 0 / None / False); (2) the callee contract of the fold selection -- Dataset.subset_obs selects by
    descriptor_utils.bool_index / num_index -- is discharged in this run too: a flag is set exactly where the descriptor has a requested
    value, for all descriptor columns and value lists (the same contract C10 generates)."""
    import z3
    from contracts.common import new_engine, finish_engine, install_dataset
    from contracts.C10 import check_selection_helpers
    from vf.pyvc.api import FuncCheck
    CALC = 'rsatoolbox.rdm.calc.'
    E = new_engine(run)
    install_dataset(E)
    fails = []
    for method, (fn, opts) in CV_SINGLE.items():
        for desc_case in ('given', 'none'):
            ck = FuncCheck(E, run, 'C02', CALC + 'calc_rdm', f'single,method={method},descriptor={desc_case}')

            def mk(E, method=method, desc_case=desc_case):
                kw = dict(method=method, descriptor='cond' if desc_case == 'given' else None,
                          noise=E.sym_val('noise', tag='ndarray'), cv_descriptor=E.sym_val('cv_descriptor'),
                          prior_lambda=E.sym_val('prior_lambda'), prior_weight=E.sym_val('prior_weight'),
                          remove_mean=E.sym_val('remove_mean'))
                return [E.sym_obj('dataset', 'Dataset')], kw, []

            def post(ck, E, args, kw, p, fn=fn, opts=opts):
                fv = E.find_function(CALC + fn)
                vals = dict(kw, dataset=args[0])
                bound = E.bind_args(fv.node, [], {k: vals[k] for k in opts}, module=fv.module)
                want = E.app(CALC + fn, [bound[q] for q in bound], 'obj', cls='RDMs')
                ck.ensure_eq('post/dispatch-with-exactly-the-callers-options', p.value, want)
            ck.execute(mk, post=post, allow_raise=lambda *a: None)
            fails += ck.failed
    for ck in check_selection_helpers(run, E, pid='C02', fns=('bool_index', 'num_index'), gathers=False):
        fails += ck.failed
    finish_engine(E, run)
    return fails


def run(run):
    afails = tier_a(run)
    bfails = tier_b(run, run.tier == 'thorough')
    # concrete replay of engine-B refutations on the unpatched functions
    bd = Bounded(run, 'C02/B-witness', 'C02/cv/oracle/float-replay-of-symbolic-refutations',
                 'float instances of the designs on which engine B refuted an identity', function='calc_rdm_')
    for nm, desc, detail in bfails:
        c = dict(detail['case'])
        c['fn'] = 'poisson_cv' if 'poisson_cv' in nm else 'crossnobis'
        c['variant'] = ('single-precision' if 'single-precision' in nm else 'remove-mean' if 'remove-mean' in nm
                        else 'precision-per-fold' if 'precision-per-fold' in nm else 'identity')
        bd.check(orc_b_witness, c, c['fn'] + '/' + c['variant'], function='calc_rdm_' + c['fn'])
    if bfails:
        bd.done()
    bds = [bd]
    try:
        from contracts import C02_c
        bds += C02_c.tier_c(run, run.tier == 'thorough')
    except ImportError:
        run.notes.append('bounded tier (contracts/C02_c.py) not present')
    report_a_failures(run, afails + [(nm, desc, detail) for nm, desc, detail in bfails], bds)
    run.explanation = ('engine A: calc_rdm forwards exactly the caller\'s options to the cross-validated estimators, fold selection helper '
                       'bool_index under contract; engine B: the real functions run on sympy object arrays; identities with the literal definition decided by '
                       'normal form for all real data at the listed designs; bounded tier for larger float designs and invariances')


def replay(path):
    return replay_file(path)
