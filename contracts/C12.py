"""C12 -- value-returning operations neither modify nor alias their inputs."""
from vf.report import SRC
from contracts._wrap import finish, replay  # noqa

LEVEL = 'other'


def frame_tier(run):
    from vf.frame.analysis import analyse, public, DOCUMENTED_MUTATORS
    import time
    t0 = time.time()
    fns = analyse(SRC)
    n_ok = n_alarm = 0
    alarms = []
    for q in sorted(fns):
        f = fns[q]
        if not public(f):
            continue
        short = q.replace('rsatoolbox.', '')
        muts = {p: v for p, v in f.mutates.items() if not (p == 'self' and f.node.name == '__init__')}
        cname = (f.cls + '.' if f.cls else '') + f.node.name
        if not muts:
            n_ok += 1
            run.obligation(f'C12/{short}/frame', 'proved', 'frame-analysis', 0.0,
                           detail='no statement of this function (or of its repo callees, by their summaries) may store into memory reachable from an argument')
            run.function(q)
        else:
            n_alarm += 1
            kind = 'documented in-place operation' if cname in DOCUMENTED_MUTATORS else 'may-store alarm'
            alarms.append(dict(function=short, kind=kind,
                               stores={p: [f'line {l}: {r}' for l, r in v[:3]] for p, v in muts.items()}))
    run.extra['frame_alarms'] = alarms
    run.notes.append(f'frame analysis: {n_ok} public callables proved store-free w.r.t. their arguments, {n_alarm} with may-store alarms '
                     f'(listed under frame_alarms; a may-alarm is not a violation: it is decided by the dynamic fingerprints of the bounded tier)')
    run.trust('frame analysis: alias/copy classification table of numpy / stdlib operations (vf/frame/analysis.py); method calls resolved by name '
              'across all repo classes (over-approximation); getattr / C extensions opaque')
    run.sample(dict(frame_alarm_example=alarms[0] if alarms else None))
    return time.time() - t0


def run(run):
    frame_tier(run)
    finish(run, [], 'C12')
    run.explanation = ('static frame analysis of the real AST proves the argument-frame clause for the public callables without any '
                       'may-store; all other callables, and the independence (aliasing) clause, are decided by the bounded fingerprint tier '
                       'over the introspected public API')
