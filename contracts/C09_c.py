"""C09, bounded run-time tier (tier C): bootstrap samples are faithful with-replacement resamples of whole groups.

How the random draws are covered.  The draws are NOT sampled (except in the domain C09/larger-sizes-sampled, labelled so).
Inside each oracle `np.random.randint` (the only source of
randomness of inference/bootstrap.py) is replaced by a scripted chooser and restored afterwards (try/finally).  The chooser
records, for every number asked for, the admissible range (low, high); the oracle then re-runs the real function once for
EVERY possible outcome of all the numbers drawn (depth-first odometer over the recorded ranges, no assumption on how often or
with which arguments randint is called).  Every outcome is an equally likely leaf under the contract of the dependency
(`randint(low, high, size)` = independent uniform integers in [low, high)), which is assumed, not tested.

Generated inputs.  RDM r / conditions i<j carry the sentinel value 1000*(r+1) + 10*(i+1) + (j+1) (distinct, finite, non-zero),
every RDM and condition carries id descriptors ('rid', 'rname' / 'cid', 'cname') besides the grouping descriptor ('rg' / 'pg')
and the automatic 'index'.  Group labels are ints or strings whose sorted order differs from their order of first appearance;
descriptors are stored as python lists or numpy arrays.  Groupings are ALL set partitions of the RDMs / conditions
(restricted-growth strings), i.e. unique values, repeated values, contiguous and interleaved groups, balanced and unbalanced.

oracles and the clauses of the property they cover
  C09/rdm-draws        bootstrap_sample_rdm, every outcome of the draws: the returned index array has as many entries as there
                       are distinct groups and every entry is a group value ("selects ... as many groups as there are distinct
                       groups and returns them as index arrays"); the sample holds exactly the RDMs of the drawn groups with
                       the drawn multiplicity (multiset of 'rid' == for each drawn value every RDM carrying it), each row is
                       the source row of the RDM named by its 'rid' (sentinels), every rdm descriptor (grouping, ids, index)
                       is the source value of that RDM ("all their descriptor values", hence groups whole), conditions and
                       pattern descriptors untouched, no NaN appears.  Over the complete outcome space: every multiset of
                       groups is reachable ("with replacement") and every group has the same expected number of selections
                       ("each group is selected equally often on average" -- exact, given the assumed uniformity of randint).
  C09/pattern-draws    the same for bootstrap_sample_pattern and conditions; additionally every entry (vector form and both
                       triangles of the matrix form) equals the source dissimilarity of the same RDM and the two ORIGINAL
                       conditions named by 'cid', is NaN exactly when both positions are copies of one original condition (this
                       includes groups drawn three or more times: all copy pairs, not only neighbours) and nowhere else;
                       resampling a model prediction (RDMs of a ModelFixed / a second RDMs object with the same descriptor)
                       with the RETURNED indices gives the same sequence of original conditions ('cid') as the sample and,
                       position by position of the vector form, the prediction for the same two original conditions as the
                       sample entry, NaN where the sample is NaN ("conditions in the same order as the sample").
  C09/joint-draws      the same for bootstrap_sample (RDMs and conditions drawn in one call), all joint outcomes.
  C09/subsample        RDMs.subsample called directly with every value vector (list / tuple / array / scalar): same clauses.
  C09/subsample-pattern RDMs.subsample_pattern called directly with every value vector: same clauses incl. NaN placement.
  C09/frequency-smoke  STATISTICAL SMOKE TEST, NOT A DECISION: with the real numpy generator (fixed seed, state restored
                       afterwards) and unbalanced group sizes each GROUP (not each RDM / condition) is selected N times on
                       average in N draws; generous threshold of 6 standard deviations of the binomial count.

Dimension sweeps (laid over ALL groupings of one or two small sizes, see _sweep_variants / _direct_variants; every expected value
is still the literal statement: the sample entry is the stored source value, whatever its type, unit or sign).  Case keys:
  values           dtype of the source dissimilarities (uint8 / int16 / int64 / float32: the sample must hold the same VALUES, and NaN
                   for copy pairs, which an integer array cannot hold), 'tiny' / 'huge' (sentinels * 1e-20 / * 1e12: a NaN rule based
                   on an absolute threshold, a narrower float), 'zero-neg' (a true dissimilarity of 0 between two DIFFERENT conditions
                   stays 0: "no other entry becomes NaN"; negative values as of crossnobis), 'nan-source' (an entry that is NaN in the
                   source is NaN in the sample and not replaced)
  container        + 'tuple', 'nplist' (python list of numpy scalars), 'array-uint8 / int16 / int32 / object' (typed label arrays);
                   pred_container: the prediction stores the same descriptors in another container than the data
  label kinds      + 'bigint' (beyond 32 bit, negative, 0), 'substr' (labels that are prefixes / single characters of other labels)
  vector_desc      vector-valued (2-D) descriptors beside a grouping descriptor; desc_order: grouping descriptor first in the dict
  rindex / pindex  user supplied 'index' descriptors that are not 0..n-1 (as left by subset_pattern), drawn with the default arguments
  vtype            + values asked for as list of numpy scalars, object / uint8 / int32 / int64 arrays (direct calls)
  held, twice, then_other, then_relabel, other_source
                   call sequences (the quantifier ranges over histories): the result of the previous call is checked again after the
                   next call; the same draws are asked for again after the caller overwrote the values of the sample it got; a second
                   source object of the same shape with other content / grouping goes through the same outcomes; the caller assigns a
                   new grouping descriptor on the same object in place and draws again
  sampled          C09/larger-sizes-sampled: n_rdm up to 12 (30), n_cond up to 13 (40), groupings whose sizes differ by a remainder,
                   repeated non-contiguous runs; NOT all outcomes but 5 constructed + seeded random ones (domain labelled so)
Not swept, because the statement implies no definite result: another PYTHONHASHSEED / interpreter (no clause fixes the order of the
groups or of the items of a sample, and every outcome of the draws is enumerated whatever that order is); that the inputs are unchanged
(C12) -- though every outcome is drawn from the SAME source object, so that a source modified by a call fails on the next outcome.

PENDING TRIAGE (registered behind `if False`): default-index,user-supplied-index,prediction-of-ModelFixed -- ModelFixed.__init__
overwrites the 'index' pattern descriptor of the RDMs object it is given with 0..n-1; when the data carry another index and the
default descriptor is used, the prediction resampled with the returned indices holds no / other conditions than the sample.

A case is one input (sizes, explicit label lists, container); the oracle enumerates the outcomes / value vectors itself and
reports how many fail and the first failing one (enumeration of a case stops after MAX_FAILS failures).  The optional case key
'script' (list of scripted draws) or 'value' (one value vector) restricts a replay to that single outcome.

What is deliberately not demanded: the ORDER of RDMs / conditions inside the sample (the statement fixes only the order
agreement between sample and resampled prediction, which is checked), the container type of the descriptors of the sample.

NOT covered by this tier: ALL outcomes for sizes beyond n_rdm <= 4 / n_cond <= 5 (larger sizes: selected outcomes only); descriptor
values other than int / str scalars (float, None, tuples); the uniformity of numpy's generator itself (assumed contract of the dependency; C09/frequency-smoke is
only a smoke test); randomness taken from any source other than np.random.randint (reported as a failure because the
enumeration would be incomplete); that inputs are not modified (C12); the callers that rely on the order agreement (C04).
"""
import itertools
import warnings

import numpy as np

from vf.rt.harness import oracle, Bounded

INT_LABELS = [5, 2, 9, 0, 7]                        # sorted order != order of first appearance
STR_LABELS = ['s2', 'S10', 'subj-b', 'a', 's10']    # different lengths, upper / lower case
BIG_LABELS = [2 ** 40 + 5, -3, 2 ** 33, 0, -(2 ** 35)]   # beyond 32 bit, negative, zero
SUB_LABELS = ['s1', 's10', 's', '1', '10']          # labels that are substrings / single characters of other labels
LABEL_TABLES = {'int': INT_LABELS, 'str': STR_LABELS, 'bigint': BIG_LABELS, 'substr': SUB_LABELS}
TYPED = ('uint8', 'int16', 'int64', 'float32')      # case['values']: dtype of the source dissimilarities
MAX_LEAVES = 400000
MAX_FAILS = 25          # per case: stop enumerating after that many failing outcomes (the count is then a lower bound)


# ---- scripted replacement of np.random.randint ---------------------------------------------------------------------
class _Chooser:
    """stands in for np.random.randint: replays `prefix`, continues with the lowest admissible number, records
    (number - low, high - low) of every number handed out"""

    def __init__(self, prefix, modular=False):
        self.prefix = list(prefix)
        self.trace = []
        self.modular = modular       # sampled outcomes: the scripted numbers are reduced modulo the admissible range

    def randint(self, low, high=None, size=None, dtype=int):
        if high is None:
            low, high = 0, low
        low, high = int(low), int(high)
        radix = high - low
        if radix <= 0:
            raise ValueError('low >= high')
        shape = None if size is None else tuple(int(s) for s in np.atleast_1d(size))
        n = 1 if shape is None else int(np.prod(shape))
        out = []
        for _ in range(n):
            k = len(self.trace)
            v = self.prefix[k] if k < len(self.prefix) else 0
            if self.modular:
                v = int(v) % radix
            if v >= radix:
                raise ValueError(f'scripted draw {v} outside range of size {radix}')
            self.trace.append((v, radix))
            out.append(low + v)
        if shape is None:
            return int(out[0])
        return np.array(out, dtype=dtype).reshape(shape)


def _outcomes(fn, script=None, modular=False):
    """run fn() once for every outcome of the numbers it draws through np.random.randint;
    yields (result, script, probability).  np.random.randint is restored after every run.
    With `script` only that one outcome is run (modular: a stream of numbers reduced modulo the range asked for)."""
    prefix = [] if script is None else list(script)
    n = 0
    while True:
        ch = _Chooser(prefix, modular)
        saved = np.random.randint
        np.random.randint = ch.randint
        try:
            res = fn()
        finally:
            np.random.randint = saved
        w = 1.0
        for _, radix in ch.trace:
            w /= radix
        yield res, [v for v, _ in ch.trace], w
        n += 1
        if script is not None:
            return
        if n > MAX_LEAVES:
            raise RuntimeError(f'more than {MAX_LEAVES} outcomes of the random draws')
        t = list(ch.trace)
        while t and t[-1][0] == t[-1][1] - 1:
            t.pop()
        if not t:
            return
        prefix = [v for v, _ in t[:-1]] + [t[-1][0] + 1]


# ---- inputs and the literal spec -------------------------------------------------------------------------------------
def _sent(r, i, j, base=0, wide=False):
    i, j = (i, j) if i < j else (j, i)
    if wide:            # more than 9 conditions: two decimal digits per condition
        return float(base + 100000 * (r + 1) + 100 * (i + 1) + (j + 1))
    return float(base + 1000 * (r + 1) + 10 * (i + 1) + (j + 1))


def _wrap(values, container):
    """container of one descriptor: 'list', 'tuple', 'array', 'nplist' (python list of numpy scalars / rows),
    'array-object', 'array-<integer dtype>' (that dtype where all values are python ints, default dtype otherwise)"""
    if container == 'list':
        return list(values)
    if container == 'tuple':
        return tuple(values)
    if container == 'array':
        return np.array(values)
    if container == 'nplist':
        return list(np.array(values))
    if container == 'array-object':
        return np.array(values, dtype=object)
    if container.startswith('array-'):
        if all(isinstance(v, int) and not isinstance(v, bool) for v in values):
            arr = np.array(values, dtype=container[6:])
            if arr.tolist() != list(values):
                raise ValueError(f'{values} do not fit into {container[6:]}')
            return arr
        return np.array(values)
    raise ValueError(container)


def _source(case, base=0, n_rdm=None, keep_rg=False):
    """-> (RDMs, src) ; src = plain-python description of the source used by the spec.
    optional case keys: 'values' (None: float64 sentinels; a dtype of TYPED: small distinct integers stored in that dtype;
    'tiny' / 'huge': sentinels * 1e-20 / * 1e12; 'zero-neg': distinct small values including 0 and negative ones;
    'nan-source': one NaN entry per RDM), 'container', 'vector_desc', 'desc_order' ('group-first': the grouping descriptor is
    the first key of the descriptor dict), 'rindex' / 'pindex' (user supplied 'index' descriptors)"""
    from rsatoolbox.rdm import RDMs
    whole = n_rdm is None
    n_rdm = case['n_rdm'] if n_rdm is None else n_rdm
    n_cond = case['n_cond']
    cont = case.get('container', 'list')
    kind = case.get('values')
    wide = n_cond > 9
    pairs = [(i, j) for i in range(n_cond) for j in range(i + 1, n_cond)]

    def value(r, k, i, j):
        if kind is None:
            return _sent(r, i, j, base, wide)
        if kind == 'tiny':
            return _sent(r, i, j, base, wide) * 1e-20
        if kind == 'huge':
            return _sent(r, i, j, base, wide) * 1e12
        code = 1 + r * len(pairs) + k + base // 500          # small distinct integers
        if kind == 'zero-neg':
            return float(code - 3)                            # -2, -1, 0, 1, ... for the data (base 0)
        if kind == 'nan-source':
            return float('nan') if k == (r % len(pairs)) else float(code)
        if kind in TYPED:
            return code
        raise ValueError(kind)

    vals = [[value(r, k, i, j) for k, (i, j) in enumerate(pairs)] for r in range(n_rdm)]
    if kind in TYPED:
        vec = np.array(vals, dtype=kind)
        if vec.tolist() != vals:
            raise ValueError(f'values do not fit into {kind}')
    else:
        vec = np.array(vals, dtype=float)
    mat = np.full((n_rdm, n_cond, n_cond), np.nan)            # the spec's table of source dissimilarities
    for r in range(n_rdm):
        for k, (i, j) in enumerate(pairs):
            mat[r, i, j] = mat[r, j, i] = float(vec[r, k])
    rdesc = {'rid': list(range(n_rdm)), 'rname': ['R%d' % (7 - r) for r in range(n_rdm)]}
    pdesc = {'cid': list(range(n_cond)), 'cname': ['c%d' % ((3 * c + 1) % 7) for c in range(n_cond)]}
    if case.get('vector_desc'):
        # descriptors whose entries are vectors (coordinates): a 2-D array / list of lists, one row per item
        rdesc['rpos'] = [[float(r), float(-r)] for r in range(n_rdm)]
        pdesc['xy'] = [[100.0 + c, 200.0 + c] for c in range(n_cond)]
    if case.get('matrix_desc'):
        # descriptors whose entries are MATRICES (one 2x2 transform per RDM, one 2x3 thumbnail per condition): a 3-D array
        rdesc['rtrans'] = [[[float(r), 1.0], [2.0, float(-r)]] for r in range(n_rdm)]
        pdesc['thumb'] = [[[10.0 + c, 20.0 + c, 30.0 + c], [40.0 + c, 50.0 + c, 60.0 + c]] for c in range(n_cond)]
    if case.get('rg') is not None and (base == 0 or keep_rg):
        rdesc['rg'] = list(case['rg'])
    if case.get('pg') is not None:
        pdesc['pg'] = list(case['pg'])
    if case.get('rindex') is not None and whole:
        rdesc['index'] = list(case['rindex'])
    if case.get('pindex') is not None:
        pdesc['index'] = list(case['pindex'])
    if case.get('desc_order') == 'group-first':
        rdesc = {k: rdesc[k] for k in sorted(rdesc, key=lambda k: k not in ('rg', 'index'))}
        pdesc = {k: pdesc[k] for k in sorted(pdesc, key=lambda k: k not in ('pg', 'index'))}
    rdms = RDMs(vec.copy(), dissimilarity_measure='sentinel',
                rdm_descriptors={k: _wrap(v, cont) for k, v in rdesc.items()},
                pattern_descriptors={k: _wrap(v, cont) for k, v in pdesc.items()})
    rdesc.setdefault('index', list(range(n_rdm)))
    pdesc.setdefault('index', list(range(n_cond)))
    return rdms, dict(n_rdm=n_rdm, n_cond=n_cond, rdesc=rdesc, pdesc=pdesc, base=base, mat=mat)


def _members(labels, drawn):
    """for each drawn value, every position carrying it (the drawn groups with the drawn multiplicity)"""
    out = []
    for v in drawn:
        for pos, d in enumerate(labels):
            if d == v:
                out.append(pos)
    return out


def _distinct(labels):
    out = []
    for d in labels:
        if d not in out:
            out.append(d)
    return out


def _check_idx(idx, labels, what):
    groups = _distinct(labels)
    if not isinstance(idx, np.ndarray) or idx.ndim != 1:
        return f'{what}: returned indices are not a 1-d index array: {idx!r}'
    if len(idx) != len(groups):
        return f'{what}: {len(idx)} groups drawn {_fmt(idx)} but there are {len(groups)} distinct groups {groups}'
    for v in idx:
        if not any(v == g for g in groups):
            return f'{what}: drawn value {v!r} is not a group value ({groups})'
    return None


def _check_sample(src, sample, exp_rows, exp_conds):
    """sample must consist of exactly the source RDMs exp_rows and source conditions exp_conds (multisets), every
    descriptor value and every dissimilarity being that of the source item named by the id descriptors"""
    if sample.n_rdm != len(exp_rows) or sample.n_cond != len(exp_conds):
        return (f'sample has {sample.n_rdm} RDMs x {sample.n_cond} conditions, expected {len(exp_rows)} x {len(exp_conds)} '
                f'(source RDMs {sorted(exp_rows)}, source conditions {sorted(exp_conds)})')
    m = sample.n_cond
    vec = np.asarray(sample.get_vectors())
    if vec.shape != (len(exp_rows), m * (m - 1) // 2):
        return f'dissimilarities have shape {vec.shape}, expected {(len(exp_rows), m * (m - 1) // 2)}'
    for name, kind, exp, sdesc, odesc in (('rid', 'RDMs', exp_rows, src['rdesc'], sample.rdm_descriptors),
                                          ('cid', 'conditions', exp_conds, src['pdesc'], sample.pattern_descriptors)):
        if set(odesc.keys()) != set(sdesc.keys()):
            return f'{kind}: descriptors {sorted(odesc.keys())}, source has {sorted(sdesc.keys())}'
        ids = [int(x) for x in odesc[name]]
        if len(ids) != len(exp) or sorted(ids) != sorted(exp):
            return f'{kind} in sample (by {name}) {ids}, expected the multiset {sorted(exp)}'
        for k, v in sdesc.items():
            got = list(odesc[k])
            want = [v[i] for i in ids]
            if len(got) != len(want) or any(not np.array_equal(np.asarray(g), np.asarray(w)) for g, w in zip(got, want)):
                return f"{kind}: descriptor '{k}' of the sample is {got}, the source items {ids} carry {want}"
    rid = [int(x) for x in sample.rdm_descriptors['rid']]
    cid = [int(x) for x in sample.pattern_descriptors['cid']]
    mats = np.asarray(sample.get_matrices())
    # expected entries, written down pair by pair (looked up in the table of source values for all sample RDMs at once)
    rid_a = np.array(rid, dtype=int)
    exp_vec = np.empty((len(rid), m * (m - 1) // 2))
    exp_mat = np.zeros((len(rid), m, m))
    k = 0
    for a in range(m):
        for b in range(a + 1, m):
            if cid[a] == cid[b]:
                col = np.nan
            else:
                lo, hi = min(cid[a], cid[b]), max(cid[a], cid[b])
                col = src['mat'][rid_a, lo, hi]
            exp_vec[:, k] = col
            exp_mat[:, a, b] = col
            exp_mat[:, b, a] = col
            k += 1
    off = ~np.eye(m, dtype=bool)
    if _same(vec, exp_vec) and _same(mats[:, off], exp_mat[:, off]):
        return None
    k = 0
    for a in range(m):                                 # locate the first differing entry for the message
        for b in range(a + 1, m):
            for row, r in enumerate(rid):
                same = cid[a] == cid[b]
                want = np.nan if same else src['mat'][r, cid[a], cid[b]]
                for where, got in (('vector', vec[row, k]), ('matrix', mats[row, a, b]), ('matrix^T', mats[row, b, a])):
                    if same:
                        if not np.isnan(got):
                            return (f'{where} entry of sample RDM {row} (source RDM {r}) at positions ({a},{b}), both copies of '
                                    f'source condition {cid[a]}, is {got}, expected NaN; sample conditions {cid}')
                    elif not _eq(got, want):
                        return (f'{where} entry of sample RDM {row} (source RDM {r}) at positions ({a},{b}) = source conditions '
                                f'({cid[a]},{cid[b]}) is {got}, expected the source value {want}; sample conditions {cid}')
            k += 1
    return 'sample differs from the expected entries (no single entry located)'


def _eq(got, want):
    """one entry: equal values, or both NaN (a source entry that is NaN already)"""
    return bool(np.isnan(want)) if np.isnan(got) else bool(got == want)


def _same(got, want):
    """exact equality incl. position of NaN"""
    got = np.asarray(got, dtype=float)
    if got.shape != want.shape:
        return False
    ng, nw = np.isnan(got), np.isnan(want)
    return bool(np.array_equal(ng, nw) and np.array_equal(got[~ng], want[~nw]))


def _check_pred_order(sample, pred_s, psrc):
    """vector position k of the resampled prediction must be the prediction for the same two ORIGINAL conditions as
    vector position k of the sample"""
    cid = [int(x) for x in sample.pattern_descriptors['cid']]
    m = len(cid)
    pv = np.asarray(pred_s.get_vectors())
    if pred_s.n_cond != m or pv.shape[1] != m * (m - 1) // 2:
        return f'resampled prediction has {pred_s.n_cond} conditions, the sample {m}'
    pcid = [int(x) for x in pred_s.pattern_descriptors['cid']]
    if pcid != cid:
        return f'resampled prediction holds the source conditions {pcid}, the sample holds {cid} (order differs)'
    k = 0
    for a in range(m):
        for b in range(a + 1, m):
            got = pv[0, k]
            if cid[a] == cid[b]:
                if not np.isnan(got):
                    return (f'resampled prediction at pair {k} is {got}, the sample pairs two copies of condition {cid[a]} '
                            f'there (NaN expected); sample conditions {cid}')
            elif not _eq(got, psrc['mat'][0, cid[a], cid[b]]):
                return (f'resampled prediction at pair {k} is {got}, the sample holds source conditions ({cid[a]},{cid[b]}) '
                        f'there, whose prediction is {psrc["mat"][0, cid[a], cid[b]]}; sample conditions {cid}')
            k += 1
    return None


class _Tally:
    """accumulates, over the whole outcome space, reachability of multisets and expected selections per group"""

    def __init__(self, labels, what):
        self.groups = _distinct(labels)
        self.what = what
        self.expect = [0.0] * len(self.groups)
        self.multisets = set()
        self.total = 0.0

    def add(self, idx, w):
        pos = []
        for v in idx:
            for g, lab in enumerate(self.groups):
                if lab == v:
                    pos.append(g)
        for g in pos:
            self.expect[g] += w
        self.multisets.add(tuple(sorted(pos)))
        self.total += w

    def verdict(self):
        g = len(self.groups)
        if abs(self.total - 1.0) > 1e-9:
            return f'{self.what}: outcome probabilities sum to {self.total}'
        if max(self.expect) - min(self.expect) > 1e-9:
            pairs = ', '.join(f'{lab!r}: {e:.4f}' for lab, e in zip(self.groups, self.expect))
            return (f'{self.what}: over all equally likely outcomes of the draws the groups are not selected equally often; '
                    f'expected selections per draw of {g} groups = {{{pairs}}}, should all be 1')
        want = set(itertools.combinations_with_replacement(range(g), g))
        missing = want - self.multisets
        if missing:
            ex = sorted(missing)[0]
            return (f'{self.what}: {len(missing)} of {len(want)} multisets of groups can never be drawn, e.g. '
                    f'{[self.groups[i] for i in ex]} (not a draw with replacement)')
        return None


def _summary(n_leaves, fails, what='outcomes of the draws'):
    if fails:
        script, msg = fails[0]
        n = f'the first {n_leaves}' if len(fails) >= MAX_FAILS else str(n_leaves)
        return f'{len(fails)} of {n} {what} fail; first: {_fmt(script)}: {msg}'
    return None


def _fmt(idx):
    return None if idx is None else np.asarray(idx).tolist()


def _prediction(case):
    """model prediction living on the same conditions / descriptors as the data (optionally in another container)"""
    from rsatoolbox.model import ModelFixed
    pcase = case if case.get('pred_container') is None else dict(case, container=case['pred_container'])
    pred, psrc = _source(pcase, base=50000, n_rdm=1)
    if case.get('pred') == 'model':
        pred = ModelFixed('m', pred).predict_rdm()
    elif case.get('pred') == 'model-weighted':       # one basis RDM with weight 1: predicts that RDM
        from rsatoolbox.model import ModelWeighted
        pred = ModelWeighted('m', pred).predict_rdm(np.array([1.0]))
    elif case.get('pred') == 'model-select':         # one candidate, selected
        from rsatoolbox.model import ModelSelect
        pred = ModelSelect('m', pred).predict_rdm(0)
    elif case.get('pred') == 'model-reordered':
        # the model RDM was stored in another condition order and brought into the order of the data with RDMs.reorder (which
        # permutes every pattern descriptor, also 'index'); the fixed model built from it predicts in the order of the data
        from rsatoolbox.rdm import RDMs
        n = psrc['n_cond']
        order = list(range(1, n)) + [0]
        mat = psrc['mat'][0][np.ix_(order, order)]
        vec = [mat[i, j] for i in range(n) for j in range(i + 1, n)]
        cont = pcase.get('container', 'list')
        pd = {k: _wrap([v[o] for o in order], cont) for k, v in psrc['pdesc'].items() if k != 'index'}
        stored = RDMs(np.array([vec], dtype=float), dissimilarity_measure='sentinel', pattern_descriptors=pd)
        stored.reorder(np.argsort(order))
        pred = ModelFixed('m', stored).predict_rdm()
    return pred, psrc


def _sampled_scripts(spec, n_draws):
    """sizes too large for all outcomes: streams of scripted numbers (the chooser reduces them modulo the range asked for):
    only the first group, only the last group, every group once in ascending / descending order, every group three times in
    a row, and spec['n'] seeded random streams"""
    length = 4 * n_draws + 8
    rs = np.random.RandomState(spec['seed'])
    out = [[0] * length, [-1] * length, list(range(length)), [-1 - k for k in range(length)], [k // 3 for k in range(length)]]
    out += [rs.randint(0, 2 ** 31 - 1, size=length).tolist() for _ in range(spec['n'])]
    return out


def _recheck_held(held):
    """a result of an earlier call that the caller still holds must still be what it was"""
    if not held:
        return None
    h = held[0]
    for name in ('R', 'P'):
        if h[name] is not None and (len(h[name]) != len(h[name + '0']) or any(x != y for x, y in zip(h[name], h[name + '0']))):
            return (f'the index array returned by an EARLIER call (draws {h["script"]}) was {h[name + "0"]} and is '
                    f'{_fmt(h[name])} after the function was called again')
    msg = _check_sample(h['src'], h['sample'], h['rows'], h['conds'])
    if msg is not None:
        return f'the sample returned by an EARLIER call (draws {h["script"]}) changed when the function was called again: {msg}'
    return None


def _enumerate(case, fn_name, rdms, src, pred, psrc, held):
    """all outcomes of the draws (or case['script'] / the streams of case['sampled']) of one source object"""
    from rsatoolbox.inference import bootstrap_sample, bootstrap_sample_rdm, bootstrap_sample_pattern
    rby = 'rg' if case.get('rg') is not None else 'index'
    pby = 'pg' if case.get('pg') is not None else 'index'
    rlab, plab = src['rdesc'][rby], src['pdesc'][pby]
    default = case.get('default_args', False)
    if default and (rby != 'index' or pby != 'index'):
        raise ValueError('default_args needs rg = pg = None')
    do_r = fn_name in ('bootstrap_sample', 'bootstrap_sample_rdm')
    do_p = fn_name in ('bootstrap_sample', 'bootstrap_sample_pattern')

    def call():
        if fn_name == 'bootstrap_sample':
            return bootstrap_sample(rdms) if default else bootstrap_sample(rdms, rby, pby)
        if fn_name == 'bootstrap_sample_rdm':
            return bootstrap_sample_rdm(rdms) if default else bootstrap_sample_rdm(rdms, rby)
        return bootstrap_sample_pattern(rdms) if default else bootstrap_sample_pattern(rdms, pby)

    def check(res):
        """-> (message or None, what the caller now holds)"""
        if not isinstance(res, tuple) or len(res) != 1 + do_r + do_p:
            return (f'{fn_name} returned {type(res).__name__} of length '
                    f'{len(res) if isinstance(res, tuple) else "?"}'), None
        sample = res[0]
        R = res[1] if do_r else None
        P = res[-1] if do_p else None
        msg = None
        if do_r:
            msg = _check_idx(R, rlab, 'rdm_idx')
        if msg is None and do_p:
            msg = _check_idx(P, plab, 'pattern_idx')
        if msg is not None:
            return msg, None
        rows = _members(rlab, R) if do_r else list(range(src['n_rdm']))
        conds = _members(plab, P) if do_p else list(range(src['n_cond']))
        msg = _check_sample(src, sample, rows, conds)
        if msg is not None:
            return f'rdm_idx {_fmt(R)}, pattern_idx {_fmt(P)}: ' + msg, None
        if do_p:
            pred_s = pred.subsample_pattern(pby, P)
            msg = _check_pred_order(sample, pred_s, psrc)
            if msg is not None:
                return f'prediction resampled with pattern_idx {_fmt(P)}: ' + msg, None
        return None, dict(src=src, sample=sample, rows=rows, conds=conds, R=R, P=P,
                          R0=None if R is None else list(R), P0=None if P is None else list(P))

    tr = _Tally(rlab, 'RDM groups') if do_r else None
    tp = _Tally(plab, 'condition groups') if do_p else None
    if case.get('script') is not None:
        runs = [(case['script'], False)]
    elif case.get('sampled') is not None:
        n_draws = (len(_distinct(rlab)) if do_r else 0) + (len(_distinct(plab)) if do_p else 0)
        runs = [(sc, True) for sc in _sampled_scripts(case['sampled'], n_draws)]
    else:
        runs = [(None, False)]
    fails, n = [], 0
    for script0, modular in runs:
        for res, script, w in _outcomes(call, script0, modular):
            n += 1
            msg = _recheck_held(held) if case.get('held') else None
            if msg is None:
                msg, got = check(res)
            if msg is None and case.get('twice'):
                # the caller overwrites the values of the sample it got, then asks for the same draws again
                got['sample'].dissimilarities[...] = 7
                for res2, _, _ in _outcomes(call, script):
                    msg, got = check(res2)
                if msg is not None:
                    msg = 'second call with the same draws, after the caller overwrote the values of the first sample: ' + msg
            if msg is not None:
                fails.append((script, msg))
                if len(fails) >= MAX_FAILS:
                    break
                continue
            if case.get('held'):
                held[:] = [dict(got, script=script)]
            if do_r:
                tr.add(res[1], w)
            if do_p:
                tp.add(res[-1], w)
        if len(fails) >= MAX_FAILS:
            break
    if fails or case.get('script') is not None or case.get('sampled') is not None:
        return _summary(n, fails)
    n_expected = 1
    for t in (tr, tp):
        if t is not None:
            n_expected *= len(t.groups) ** len(t.groups)
    if n == 1 and n_expected > 1:
        return (f'{fn_name} drew nothing through np.random.randint although {n_expected} outcomes are possible: '
                f'the outcomes cannot be enumerated by this tier')
    for t in (tr, tp):
        if t is not None:
            msg = t.verdict()
            if msg:
                return msg
    return None


def _run_draws(case, fn_name):
    """optional case keys for call sequences: 'held' (the sample and indices of the previous call are checked again after
    every call), 'twice' (see _enumerate), 'then_other' = {'rg': .., 'pg': ..} (afterwards a second source object of the
    same shape with other dissimilarities and these groupings goes through the same outcomes), 'then_relabel' =
    {'rg': .., 'pg': ..} (afterwards the caller assigns these grouping descriptors on the FIRST object, in place)"""
    do_p = fn_name in ('bootstrap_sample', 'bootstrap_sample_pattern')
    rdms, src = _source(case)
    pred, psrc = _prediction(case) if do_p else (None, None)
    held = []
    msg = _enumerate(case, fn_name, rdms, src, pred, psrc, held)
    if msg is None and case.get('then_other') is not None:
        other = dict(case, **case['then_other'])
        rdms2, src2 = _source(other, base=70000, keep_rg=True)
        pred2, psrc2 = _prediction(other) if do_p else (None, None)
        msg = _enumerate(other, fn_name, rdms2, src2, pred2, psrc2, held)
        if msg is not None:
            msg = (f'second source object of the same shape (other dissimilarities, groupings {case["then_other"]}), after '
                   f'all draws from the first: {msg}')
    if msg is None and case.get('then_relabel') is not None:
        new = dict(case, **case['then_relabel'])
        cont = case.get('container', 'list')
        for key in ('rg', 'pg'):
            if case['then_relabel'].get(key) is None:
                continue
            if key == 'rg':
                rdms.rdm_descriptors['rg'] = _wrap(new['rg'], cont)
                src = dict(src, rdesc=dict(src['rdesc'], rg=list(new['rg'])))
            else:
                rdms.pattern_descriptors['pg'] = _wrap(new['pg'], cont)
                src = dict(src, pdesc=dict(src['pdesc'], pg=list(new['pg'])))
                if pred is not None:
                    pred.pattern_descriptors['pg'] = _wrap(new['pg'], case.get('pred_container') or cont)
                    psrc = dict(psrc, pdesc=dict(psrc['pdesc'], pg=list(new['pg'])))
        held[:] = []     # (samples may share descriptor dicts with their source: what the CALLER assigns there is not C09's business)
        msg = _enumerate(new, fn_name, rdms, src, pred, psrc, held)
        if msg is not None:
            msg = f'same object after the caller assigned the grouping descriptors {case["then_relabel"]} in place: {msg}'
    if msg is None and case.get('then_edit'):
        # the caller changes the dissimilarities of the SOURCE in place (public attribute): later samples hold the current values
        rdms.dissimilarities[...] = rdms.dissimilarities * 3 + 1
        src = dict(src, mat=src['mat'] * 3 + 1)
        held[:] = []
        msg = _enumerate(case, fn_name, rdms, src, pred, psrc, held)
        if msg is not None:
            msg = f'same object after the caller rescaled its dissimilarities in place (x3 + 1): {msg}'
    if msg is None and case.get('held'):
        msg = _recheck_held(held)
    return msg


@oracle('C09/rdm-draws')
def orc_rdm(case):
    return _run_draws(case, 'bootstrap_sample_rdm')


@oracle('C09/pattern-draws')
def orc_pattern(case):
    return _run_draws(case, 'bootstrap_sample_pattern')


@oracle('C09/joint-draws')
def orc_joint(case):
    return _run_draws(case, 'bootstrap_sample')


def _as_value(vec, vtype):
    if vtype == 'list':
        return list(vec)
    if vtype == 'tuple':
        return tuple(vec)
    if vtype == 'array':
        return np.array(vec)
    if vtype == 'nplist':                 # python list of numpy scalars
        return list(np.array(vec))
    if vtype.startswith('array-'):        # 'array-object', 'array-uint8', 'array-int32', ...
        arr = np.array(vec, dtype=vtype[6:])
        if arr.tolist() != list(vec):
            raise ValueError(f'{vec} do not fit into {vtype[6:]}')
        return arr
    if vtype == 'scalar':
        return vec[0]
    if vtype == 'np-scalar':
        return np.array(vec)[0]
    raise ValueError(vtype)


def _value_vectors(labels, case):
    groups = _distinct(labels)
    if case.get('value') is not None:
        return [list(case['value'])]
    if case['vtype'] in ('scalar', 'np-scalar'):
        return [[g] for g in groups]
    out = []
    for k in case['lengths']:
        out += [list(v) for v in itertools.product(groups, repeat=k)]
    return out


@oracle('C09/subsample')
def orc_subsample(case):
    """RDMs.subsample(by, value) called directly with every vector of group values of the given lengths"""
    rdms, src = _source(case)
    by = 'rg' if case.get('rg') is not None else 'index'
    lab = src['rdesc'][by]
    # case['other_source']: a second object of the same shape and descriptors with other dissimilarities gets the same calls
    rdms2, src2 = _source(case, base=70000, keep_rg=True) if case.get('other_source') else (None, None)
    fails, n = [], 0
    held = None
    for vec in _value_vectors(lab, case):
        n += 1
        sample = rdms.subsample(None if case.get('by_none') else by, _as_value(vec, case['vtype']))
        rows = _members(lab, vec)
        msg = _check_sample(src, sample, rows, list(range(src['n_cond'])))
        if msg is None and rdms2 is not None:
            sample2 = rdms2.subsample(None if case.get('by_none') else by, _as_value(vec, case['vtype']))
            msg = _check_sample(src2, sample2, rows, list(range(src['n_cond'])))
            if msg is None:
                msg = _check_sample(src, sample, rows, list(range(src['n_cond'])))
                if msg is None and held is not None:
                    msg = _check_sample(src, held[0], held[1], list(range(src['n_cond'])))
                if msg:
                    msg = 'sample held by the caller changed after later calls: ' + msg
            else:
                msg = 'second source object of the same shape, same values asked for: ' + msg
            held = (sample, rows)
        if msg:
            fails.append((vec, msg))
            if len(fails) >= MAX_FAILS:
                break
    return _summary(n, fails, 'value vectors')


@oracle('C09/subsample-pattern')
def orc_subsample_pattern(case):
    """RDMs.subsample_pattern(by, value) called directly with every vector of group values of the given lengths; a
    prediction resampled with the same values is aligned with the sample"""
    rdms, src = _source(case)
    pred, psrc = _prediction(case)
    by = 'pg' if case.get('pg') is not None else 'index'
    lab = src['pdesc'][by]
    fails, n = [], 0
    held = None
    for vec in _value_vectors(lab, case):
        conds = _members(lab, vec)
        if len(conds) < 2:
            continue                                   # an RDM needs two conditions
        n += 1
        value = _as_value(vec, case['vtype'])
        sample = rdms.subsample_pattern(None if case.get('by_none') else by, value)
        msg = _check_sample(src, sample, list(range(src['n_rdm'])), conds)
        if msg is None:
            pred_s = pred.subsample_pattern(None if case.get('by_none') else by, value)
            msg = _check_pred_order(sample, pred_s, psrc)
            if msg:
                msg = 'prediction resampled with the same values: ' + msg
            elif case.get('other_source'):
                # call sequence: the sample is still right after the prediction (same shape, other values) was resampled,
                # and so is the sample of the previous value vector
                msg = _check_sample(src, sample, list(range(src['n_rdm'])), conds)
                if msg is None and held is not None:
                    msg = _check_sample(src, held[0], list(range(src['n_rdm'])), held[1])
                if msg:
                    msg = 'sample held by the caller changed after later calls: ' + msg
                held = (sample, conds)
        if msg:
            fails.append((vec, msg))
            if len(fails) >= MAX_FAILS:
                break
    return _summary(n, fails, 'value vectors')


def _rng_intervening(name, rs):
    """a library call a user makes BETWEEN two bootstrap draws (fitting / evaluating models on the previous sample)"""
    from rsatoolbox.rdm import RDMs
    from rsatoolbox.model import ModelWeighted, ModelFixed, ModelSelect
    import rsatoolbox.model.fitter as ft
    import rsatoolbox.inference as inf
    basis = RDMs(rs.rand(3, 10) + 0.1)
    data = RDMs(rs.rand(4, 10) + 0.1)
    mw = ModelWeighted('w', basis)
    if name.startswith('fit_optimize_positive'):
        return lambda: ft.fit_optimize_positive(mw, data, method='cosine')
    if name.startswith('fit_optimize'):
        return lambda: ft.fit_optimize(mw, data, method='cosine', normalize=name.endswith('normalize=True'))
    if name == 'fit_regress':
        return lambda: ft.fit_regress(mw, data, method='corr')
    if name == 'fit_select':
        return lambda: ft.fit_select(ModelSelect('s', basis), data, method='cosine')
    if name == 'eval_fixed':
        return lambda: inf.eval_fixed([ModelFixed('f', rs.rand(10) + 0.1)], data, method='cosine')
    if name == 'crossval':
        def f():
            big = RDMs(rs.rand(4, 45) + 0.1)
            tr, te, ce = inf.sets_k_fold(big, k_pattern=2, k_rdm=2, random=False)
            return inf.crossval(ModelWeighted('w', RDMs(rs.rand(2, 45) + 0.1)), big, tr, te, ceil_set=ce, method='cosine')
        return f
    raise ValueError(name)


@oracle('C09/rng-not-reset')
def orc_rng_not_reset(case):
    """draws stay random when other library routines are called between them: after seeding numpy's global generator with two
    DIFFERENT seeds, calling the routine and drawing, the two draws differ (they coincide by chance with probability < 1e-12
    here) -- a routine that leaves the generator in a fixed state makes every later draw of a bootstrap loop identical, and
    'each group is selected equally often over many draws' fails"""
    import contextlib
    import io
    from rsatoolbox.rdm import RDMs
    from rsatoolbox.inference import bootstrap_sample_rdm, bootstrap_sample_pattern
    rs = np.random.RandomState(case['seed'])
    data = RDMs(rs.rand(8, 36) + 0.1)
    call = _rng_intervening(case['routine'], rs)
    state = np.random.get_state()
    try:
        draws = []
        for sd in (4711 + case['seed'], 815 + case['seed']):
            np.random.seed(sd)
            with warnings.catch_warnings(), contextlib.redirect_stderr(io.StringIO()):
                warnings.simplefilter('ignore')
                call()
            draws.append([int(x) for x in bootstrap_sample_rdm(data)[1]] + [int(x) for x in bootstrap_sample_pattern(data)[1]])
    finally:
        np.random.set_state(state)
    if draws[0] == draws[1]:
        return (f"after seeding numpy's generator with two different seeds and calling {case['routine']}, the next draws of "
                f'bootstrap_sample_rdm / bootstrap_sample_pattern are IDENTICAL ({draws[0]}): the routine leaves the global '
                f'generator in a fixed state')
    return None


@oracle('C09/frequency-smoke')
def orc_frequency(case):
    """STATISTICAL SMOKE TEST (not a decision): real generator, fixed seed, unbalanced groups"""
    from rsatoolbox.inference import bootstrap_sample, bootstrap_sample_rdm, bootstrap_sample_pattern
    rdms, src = _source(case)
    fn, N = case['fn'], case['N']
    state = np.random.get_state()
    np.random.seed(case['seed'])
    try:
        counts = {}
        for _ in range(N):
            if fn == 'bootstrap_sample':
                _, R, P = bootstrap_sample(rdms, 'rg', 'pg')
                drawn = [('rdm', v) for v in R] + [('pattern', v) for v in P]
            elif fn == 'bootstrap_sample_rdm':
                _, R = bootstrap_sample_rdm(rdms, 'rg')
                drawn = [('rdm', v) for v in R]
            else:
                _, P = bootstrap_sample_pattern(rdms, 'pg')
                drawn = [('pattern', v) for v in P]
            for kind, v in drawn:
                key = (kind, v.item() if hasattr(v, 'item') else v)
                counts[key] = counts.get(key, 0) + 1
    finally:
        np.random.set_state(state)
    for kind, labels in (('rdm', case.get('rg')), ('pattern', case.get('pg'))):
        if labels is None or not any(k[0] == kind for k in counts):
            continue
        groups = _distinct(labels)
        g = len(groups)
        sd = np.sqrt(N * g * (1.0 / g) * (1.0 - 1.0 / g))      # count of one group ~ Binomial(N*g, 1/g)
        for lab in groups:
            c = counts.get((kind, lab), 0)
            if abs(c - N) > 6 * sd + 1:
                sizes = {repr(x): list(labels).count(x) for x in groups}
                return (f'[statistical smoke test, seed {case["seed"]}] {kind} group {lab!r} selected {c} times in {N} draws of {g} '
                        f'groups, expected {N} +- {sd:.1f} (threshold 6 sd); all counts '
                        f'{ {repr(x): counts.get((kind, x), 0) for x in groups} }, group sizes {sizes}')
    return None


# ---- domains ---------------------------------------------------------------------------------------------------------
def _partitions(n):
    """all set partitions of n items as restricted-growth strings"""
    def rec(prefix, mx):
        if len(prefix) == n:
            yield list(prefix)
            return
        for v in range(mx + 2):
            yield from rec(prefix + [v], max(mx, v))
    if n == 0:
        yield []
    else:
        yield from rec([0], 0)


def _label(rgs, kind):
    table = LABEL_TABLES[kind]
    return [table[g] for g in rgs]


def _sweep_variants():
    """dimension sweeps laid over the groupings: (name of the dimension, label kind, descriptor container, extra case keys)"""
    out = []
    for v in TYPED + ('tiny', 'huge', 'zero-neg', 'nan-source'):              # typed data, extreme units, zeros / negative
        out.append((f'values-{v}', 'int', 'list', dict(values=v)))
    out.append(('values-uint8', 'str', 'array', dict(values='uint8')))
    out.append(('values-tiny', 'str', 'array', dict(values='tiny')))
    for cont in ('tuple', 'nplist', 'array-uint8', 'array-int16', 'array-int32', 'array-object'):    # containers, typed labels
        out.append((f'container-{cont}', 'int', cont, {}))
    for cont in ('tuple', 'nplist', 'array-object'):
        out.append((f'container-{cont}', 'str', cont, {}))
    for kind in ('bigint', 'substr'):                                           # label values
        for cont in ('list', 'array'):
            out.append((f'labels-{kind}', kind, cont, {}))
    out.append(('vector-valued-descriptors', 'int', 'list', dict(vector_desc=True)))
    out.append(('vector-valued-descriptors', 'str', 'array', dict(vector_desc=True)))
    out.append(('vector-valued-descriptors', 'int', 'array-object', dict(vector_desc=True)))
    out.append(('descriptor-dict-order', 'str', 'list', dict(desc_order='group-first')))
    out.append(('descriptor-dict-order', 'int', 'array', dict(desc_order='group-first', vector_desc=True)))
    out.append(('prediction-other-container', 'int', 'array-uint8', dict(pred_container='list')))
    out.append(('prediction-other-container', 'str', 'list', dict(pred_container='array-object')))
    out.append(('matrix-valued-descriptors', 'int', 'array', dict(matrix_desc=True)))
    out.append(('matrix-valued-descriptors', 'str', 'list', dict(matrix_desc=True, vector_desc=True)))
    out.append(('call-sequence,source-edited-in-place', 'int', 'list', dict(then_edit=True)))
    out.append(('call-sequence,source-edited-in-place', 'str', 'array', dict(then_edit=True, held=True)))
    out.append(('call-sequence', 'int', 'list', dict(held=True, twice=True)))   # call sequences
    out.append(('call-sequence', 'str', 'array', dict(held=True, twice=True, values='float32')))
    out.append(('call-sequence', 'int', 'array', dict(held=True, other=True)))
    out.append(('call-sequence', 'str', 'list', dict(held=True, other=True, relabel=True)))
    out.append(('call-sequence', 'int', 'nplist', dict(relabel=True)))
    return out


def _direct_variants():
    """sweeps of the direct calls: (name, label kind, descriptor container, value types, extra case keys)"""
    out = []
    for v in TYPED + ('tiny', 'huge', 'zero-neg', 'nan-source'):
        out.append((f'values-{v}', 'int' if len(out) % 2 else 'str', 'list', ('list',), dict(values=v, other_source=True)))
    out.append(('typed-values-asked-for', 'int', 'list', ('nplist', 'array-uint8', 'array-int32', 'array-object'), {}))
    out.append(('typed-values-asked-for', 'int', 'array-uint8', ('list', 'array-int32', 'np-scalar', 'scalar'), {}))
    out.append(('typed-values-asked-for', 'str', 'array', ('nplist', 'array-object'), {}))
    out.append(('typed-values-asked-for', 'str', 'array-object', ('list', 'array', 'scalar', 'np-scalar'), {}))
    out.append(('labels-bigint', 'bigint', 'list', ('list', 'array', 'array-int64', 'scalar', 'np-scalar'), {}))
    out.append(('labels-bigint', 'bigint', 'array', ('tuple', 'nplist', 'scalar'), {}))
    out.append(('labels-substr', 'substr', 'list', ('list', 'tuple', 'array', 'scalar', 'np-scalar'), {}))
    out.append(('labels-substr', 'substr', 'array', ('list', 'array-object', 'scalar', 'np-scalar'), {}))
    for cont in ('tuple', 'nplist'):
        out.append((f'container-{cont}', 'int', cont, ('list', 'array', 'scalar'), {}))
        out.append((f'container-{cont}', 'str', cont, ('tuple', 'np-scalar'), {}))
    out.append(('vector-valued-descriptors', 'int', 'array', ('list', 'scalar'), dict(vector_desc=True, desc_order='group-first')))
    out.append(('vector-valued-descriptors', 'str', 'list', ('array',), dict(vector_desc=True)))
    out.append(('call-sequence', 'int', 'array', ('list', 'array'), dict(other_source=True)))
    out.append(('call-sequence', 'str', 'list', ('tuple', 'scalar'), dict(other_source=True)))
    return out


def _key(variant):
    """the few variants that the quick tier also runs at the larger of its sizes"""
    name, kind, cont, extra = variant
    return ((name in ('values-uint8', 'values-tiny', 'values-zero-neg') and kind == 'int') or (name, cont) == ('labels-bigint', 'array')
            or (name, kind) == ('container-tuple', 'str') or (name == 'call-sequence' and extra.get('relabel') and extra.get('other')))


def _sweep_case(base, rgs, pgs, kind, extra):
    """case of one sweep variant; 'other' / 'relabel' are turned into the groupings of the later phases: the reversed label
    lists for the second object, the labels shifted by one place in the label table for the in-place assignment"""
    extra = dict(extra)
    other, relabel = extra.pop('other', False), extra.pop('relabel', False)
    case = dict(base, **extra)
    table = LABEL_TABLES[kind]
    if other:
        case['then_other'] = dict(rg=None if rgs is None else _label(rgs[::-1], kind),
                                  pg=None if pgs is None else _label(pgs[::-1], kind))
    if relabel:
        case['then_relabel'] = dict(rg=None if rgs is None else [table[(g + 1) % len(table)] for g in rgs[1:] + rgs[:1]],
                                    pg=None if pgs is None else [table[(g + 1) % len(table)] for g in pgs[1:] + pgs[:1]])
    return case


def _design(n, style):
    """groupings of n items for the larger sizes"""
    if style == 'unique':
        return list(range(n))
    if style == 'interleaved':            # a b c a b c ..., group sizes differ when n % 3 != 0
        return [i % 3 for i in range(n)]
    if style == 'runs':                   # a b c a b c b | a b c ...: repeated, not contiguous, unbalanced
        return [1 if i % 7 == 6 else (i % 7) % 3 for i in range(n)]
    if style == 'blocks':                 # contiguous blocks of 1, 2, 3, ... items
        out, g = [], 0
        while len(out) < n:
            out += [g] * (g + 1)
            g += 1
        return out[:n]
    if style == 'one-big':
        return [0] * (n - 1) + [1]
    raise ValueError(style)


def _design_label(gs, kind):
    """labels for up to 31 groups; order of first appearance != sorted order, negative ints, 'g10' < 'g3' as strings"""
    code = [(7 * g + 3) % 31 for g in gs]
    return [3 * c - 20 for c in code] if kind == 'int' else ['g%d' % c for c in code]


KINDS = [('int', 'list'), ('int', 'array'), ('str', 'list'), ('str', 'array')]
USER_INDEX = [13, 11, 14, 18, 16]       # an 'index' descriptor that is not 0..n-1 (as left by subset_pattern, or set by the user)
ONE_BASED = [1, 2, 3, 4, 5]
DIRECT_NOTE = ('dimension sweeps (source values typed / scaled / with 0, negative, NaN entries; labels beyond 32 bit / substrings of '
               'each other; tuple / numpy-scalar-list / typed / object-array descriptors; vector-valued descriptors; user supplied '
               'index; a second object of the same shape gets the same calls and earlier samples are re-checked)')
SWEEP_NOTE = ('dimension sweeps (source values stored as uint8 / int16 / int64 / float32, scaled by 1e-20 / 1e12, containing 0 and '
              'negative values, containing NaN; descriptors as tuple / list of numpy scalars / uint8, int16, int32, object arrays; '
              'labels beyond 32 bit / substrings of each other; vector-valued descriptors beside the grouping; grouping descriptor '
              'first in the dict; user supplied index descriptors; prediction stored in another container; call sequences: '
              'earlier results re-checked after every call, same draws again after the caller overwrote the sample, a second '
              'object of the same shape, grouping re-assigned in place)')


def _shape_class(rgs):
    sizes = sorted(rgs.count(g) for g in set(rgs))
    if len(sizes) == len(rgs):
        return 'unique'
    return 'balanced-groups' if sizes[0] == sizes[-1] else 'unbalanced-groups'


def tier_c(run, thorough):
    bds = []

    # ---- bootstrap_sample_rdm -----------------------------------------------------------------------------------------
    bd = Bounded(run, 'C09/rdm-draws', 'C09/bootstrap_sample_rdm/oracle/faithful-group-resample',
                 'ALL outcomes of the draws (np.random.randint scripted) for ALL groupings (set partitions) of n_rdm 1..4 RDMs, '
                 'n_cond in %s; int / str group labels in list / array descriptors; default index descriptor; %s for ALL '
                 'groupings of n_rdm %s, n_cond %s'
                 % ('2..5' if thorough else '{2, 5}', SWEEP_NOTE, '3..4' if thorough else '3 (six of the sweeps: also 4)',
                    '{2, 4}' if thorough else '3'),
                 exhaustive=True, function='bootstrap_sample_rdm')
    for n_rdm in range(1, 5):
        for n_cond in (range(2, 6) if thorough else (2, 5)):
            for rgs in _partitions(n_rdm):
                for kind, cont in KINDS:
                    case = dict(n_rdm=n_rdm, n_cond=n_cond, rg=_label(rgs, kind), pg=None, container=cont)
                    bd.check(orc_rdm, case, f'{_shape_class(rgs)},{kind},{cont}', function='bootstrap_sample_rdm')
            for cont in ('list', 'array'):
                case = dict(n_rdm=n_rdm, n_cond=n_cond, rg=None, pg=None, container=cont, default_args=True)
                bd.check(orc_rdm, case, f'default-index,{cont}', function='bootstrap_sample_rdm')
                if n_rdm >= 2:      # descriptors whose entries are vectors (coordinates per RDM / condition)
                    case = dict(n_rdm=n_rdm, n_cond=n_cond, rg=None, pg=None, container=cont, default_args=True, vector_desc=True)
                    bd.check(orc_rdm, case, f'default-index,{cont},vector-valued-descriptors', function='bootstrap_sample_rdm')
    variants = _sweep_variants()
    for n_rdm, n_cond in ([(3, 2), (3, 4), (4, 2), (4, 4)] if thorough else [(3, 3), (4, 3)]):
        for name, kind, cont, extra in variants:
            if name == 'prediction-other-container' or (not thorough and n_rdm == 4 and not _key((name, kind, cont, extra))):
                continue
            for rgs in _partitions(n_rdm):
                case = _sweep_case(dict(n_rdm=n_rdm, n_cond=n_cond, rg=_label(rgs, kind), pg=None, container=cont),
                                   rgs, None, kind, extra)
                bd.check(orc_rdm, case, f'{_shape_class(rgs)},{kind},{cont},{name}', function='bootstrap_sample_rdm')
        for cont, rindex in (('list', USER_INDEX), ('array', USER_INDEX), ('tuple', ONE_BASED), ('array-int16', USER_INDEX)):
            case = dict(n_rdm=n_rdm, n_cond=n_cond, rg=None, pg=None, container=cont, default_args=True,
                        rindex=rindex[:n_rdm], pindex=USER_INDEX[:n_cond], held=True)
            if cont == 'array':
                case['desc_order'] = 'group-first'       # the index is the first key of the descriptor dicts
            bd.check(orc_rdm, case, f'default-index,{cont},user-supplied-index', function='bootstrap_sample_rdm')
    bd.done()
    bds.append(bd)

    # ---- bootstrap_sample_pattern -------------------------------------------------------------------------------------
    # (n_rdm, label kind, container) combinations per n_cond
    full = [(r, k, c) for r in (1, 2, 3, 4) for (k, c) in KINDS]
    five = full if thorough else [(1, 'int', 'list'), (3, 'str', 'array')]
    bd = Bounded(run, 'C09/pattern-draws', 'C09/bootstrap_sample_pattern/oracle/faithful-group-resample',
                 'ALL outcomes of the draws (np.random.randint scripted, incl. every group drawn 3, 4, 5 times) for ALL groupings '
                 '(set partitions) of n_cond 2..5 conditions; n_rdm 1..4 x int / str group labels x list / array descriptors'
                 '%s; default index descriptor; prediction = RDMs / ModelFixed.predict_rdm; %s for ALL groupings of %s'
                 % ('' if thorough else ' for n_cond <= 4, for n_cond = 5 the combinations (1, int, list), (3, str, array)',
                    SWEEP_NOTE, 'n_cond 3..4, n_rdm 2 (n_cond 4 also n_rdm 3; six of the sweeps: also n_cond 5)' if thorough
                    else 'n_cond 3, n_rdm 2 (six of the sweeps: also n_cond 4)'),
                 exhaustive=True, function='bootstrap_sample_pattern')
    for n_cond in range(2, 6):
        combos = five if n_cond == 5 else full
        for rgs in _partitions(n_cond):
            for n_rdm, kind, cont in combos:
                case = dict(n_rdm=n_rdm, n_cond=n_cond, rg=None, pg=_label(rgs, kind), container=cont,
                            pred='model' if cont == 'list' else 'rdms')
                bd.check(orc_pattern, case, f'{_shape_class(rgs)},{kind},{cont}', function='bootstrap_sample_pattern')
        for n_rdm, cont in sorted(set((r, c) for r, _, c in combos)):
            case = dict(n_rdm=n_rdm, n_cond=n_cond, rg=None, pg=None, container=cont, default_args=True,
                        pred='model' if cont == 'array' else 'rdms')
            bd.check(orc_pattern, case, f'default-index,{cont}', function='bootstrap_sample_pattern')
            if n_cond >= 3:
                bd.check(orc_pattern, dict(case, vector_desc=True), f'default-index,{cont},vector-valued-descriptors',
                         function='bootstrap_sample_pattern')
    for n_rdm, n_cond in ([(2, 3), (2, 4), (3, 4), (2, 5)] if thorough else [(2, 3), (2, 4)]):
        for k, (name, kind, cont, extra) in enumerate(variants):
            if n_cond == (5 if thorough else 4) and not _key((name, kind, cont, extra)):
                continue
            for rgs in _partitions(n_cond):
                case = _sweep_case(dict(n_rdm=n_rdm, n_cond=n_cond, rg=None, pg=_label(rgs, kind), container=cont,
                                        pred='model' if k % 2 else 'rdms'), None, rgs, kind, extra)
                bd.check(orc_pattern, case, f'{_shape_class(rgs)},{kind},{cont},{name}', function='bootstrap_sample_pattern')
        for cont, pindex in (('list', USER_INDEX), ('array', USER_INDEX), ('tuple', ONE_BASED), ('array-int16', USER_INDEX)):
            case = dict(n_rdm=n_rdm, n_cond=n_cond, rg=None, pg=None, container=cont, default_args=True,
                        rindex=USER_INDEX[:n_rdm], pindex=pindex[:n_cond], held=True, pred='rdms')
            if cont == 'array':
                case['desc_order'] = 'group-first'
            bd.check(orc_pattern, case, f'default-index,{cont},user-supplied-index', function='bootstrap_sample_pattern')
            if True:   # recorded as open finding (was pending triage): default-index,user-supplied-index,prediction-of-ModelFixed
                # ModelFixed.__init__ overwrites the 'index' pattern descriptor of the RDMs it is given with 0..n-1, so the
                # prediction resampled with the returned (user) index values has no / other conditions than the sample
                for pk in ('model-weighted', 'model-select'):
                    bd.check(orc_pattern, dict(case, pred=pk), 'default-index,user-supplied-index,prediction-of-flexible-model',
                             function='bootstrap_sample_pattern')
                bd.check(orc_pattern, dict(case, pred='model'), 'default-index,user-supplied-index,prediction-of-ModelFixed',
                         function='bootstrap_sample_pattern')
    bd.done()
    bds.append(bd)

    # ---- bootstrap_sample (joint) ---------------------------------------------------------------------------------------
    both = [KINDS[0], KINDS[3]]
    if thorough:
        shapes = [(r, c, both if (r, c) != (4, 4) else KINDS[0:1]) for r in range(1, 5) for c in range(2, 5)]
        shapes += [(r, 5, KINDS[0:1]) for r in (1, 2, 3)]
        dom = ('n_rdm 1..4 x n_cond 2..4 (int labels / list; except for 4 x 4 also str labels / array), '
               'n_rdm 1..3 x n_cond 5 (int labels / list)')
    else:
        shapes = [(r, c, both) for r in range(1, 4) for c in range(2, 4)] + [(r, 4, KINDS[0:1]) for r in (1, 2, 3)]
        dom = 'n_rdm 1..3 x n_cond 2..3 (int labels / list and str labels / array), n_rdm 1..3 x n_cond 4 (int labels / list)'
    bd = Bounded(run, 'C09/joint-draws', 'C09/bootstrap_sample/oracle/faithful-group-resample',
                 'ALL joint outcomes of the RDM and condition draws for ALL pairs of groupings (set partitions), %s; '
                 'default index descriptors; %s for ALL pairs of groupings of n_rdm x n_cond = %s'
                 % (dom, SWEEP_NOTE, '2 x 3, 3 x 3 (six of the sweeps: also 2 x 4)' if thorough else '2 x 2 (six of the sweeps: also 2 x 3)'),
                 exhaustive=True, function='bootstrap_sample')
    for n_rdm, n_cond, kinds in shapes:
        for rgs in _partitions(n_rdm):
            for pgs in _partitions(n_cond):
                for kind, cont in kinds:
                    case = dict(n_rdm=n_rdm, n_cond=n_cond, rg=_label(rgs, kind), pg=_label(pgs, kind), container=cont,
                                pred='rdms')
                    bd.check(orc_joint, case, f'rdm:{_shape_class(rgs)},pattern:{_shape_class(pgs)},{kind},{cont}',
                             function='bootstrap_sample')
        case = dict(n_rdm=n_rdm, n_cond=n_cond, rg=None, pg=None, container='list', default_args=True, pred='model')
        bd.check(orc_joint, case, 'default-index,list', function='bootstrap_sample')
        if n_cond >= 3:
            bd.check(orc_joint, dict(case, pred='model-reordered'), 'default-index,prediction-of-ModelFixed-from-reordered-RDMs',
                     function='bootstrap_sample')
            bd.check(orc_pattern, dict(case, pred='model-reordered'), 'default-index,prediction-of-ModelFixed-from-reordered-RDMs',
                     function='bootstrap_sample_pattern')
    for n_rdm, n_cond in ([(2, 3), (2, 4), (3, 3)] if thorough else [(2, 2), (2, 3)]):
        for name, kind, cont, extra in variants:
            if n_cond == (4 if thorough else 3) and not _key((name, kind, cont, extra)):
                continue
            for rgs in _partitions(n_rdm):
                for pgs in _partitions(n_cond):
                    case = _sweep_case(dict(n_rdm=n_rdm, n_cond=n_cond, rg=_label(rgs, kind), pg=_label(pgs, kind),
                                            container=cont, pred='rdms'), rgs, pgs, kind, extra)
                    bd.check(orc_joint, case, f'rdm:{_shape_class(rgs)},pattern:{_shape_class(pgs)},{kind},{cont},{name}',
                             function='bootstrap_sample')
        for cont, index in (('list', USER_INDEX), ('array', USER_INDEX), ('tuple', ONE_BASED), ('array-int16', USER_INDEX)):
            case = dict(n_rdm=n_rdm, n_cond=n_cond, rg=None, pg=None, container=cont, default_args=True,
                        rindex=index[1:n_rdm + 1], pindex=index[:n_cond], held=True, pred='rdms')
            if cont == 'array':
                case['desc_order'] = 'group-first'
            bd.check(orc_joint, case, f'default-index,{cont},user-supplied-index', function='bootstrap_sample')
            if True:   # recorded as open finding (was pending triage): default-index,user-supplied-index,prediction-of-ModelFixed
                bd.check(orc_joint, dict(case, pred='model'), 'default-index,user-supplied-index,prediction-of-ModelFixed',
                         function='bootstrap_sample')
    bd.done()
    bds.append(bd)

    # ---- direct calls ---------------------------------------------------------------------------------------------------
    VT = ('list', 'tuple', 'array')
    bd = Bounded(run, 'C09/subsample', 'C09/RDMs.subsample/oracle/faithful-group-resample',
                 'ALL vectors of group values of length 1..max(3, #groups)%s passed as list / tuple / array, every single value '
                 'as python / numpy scalar; ALL groupings of n_rdm 1..4, n_cond in {2, 4}; int / str labels in list / array '
                 'descriptors; by = None on the index; %s, values also as list of numpy scalars / object, uint8, int32, int64 arrays, '
                 'for ALL groupings of n_rdm %s, n_cond 3, vectors of length 1..3'
                 % (' + 1' if thorough else '', DIRECT_NOTE, '3..4' if thorough else '3'),
                 exhaustive=True, function='RDMs.subsample')
    for n_rdm in range(1, 5):
        for n_cond in (2, 4):
            for rgs in _partitions(n_rdm):
                g = len(set(rgs))
                lengths = list(range(1, max(3, g) + (2 if thorough else 1)))
                for kind, cont in KINDS:
                    base = dict(n_rdm=n_rdm, n_cond=n_cond, rg=_label(rgs, kind), pg=None, container=cont)
                    for vt in VT:
                        bd.check(orc_subsample, dict(base, vtype=vt, lengths=lengths),
                                 f'{_shape_class(rgs)},{kind},{cont},value-{vt}', function='RDMs.subsample')
                    for vt in ('scalar', 'np-scalar'):
                        bd.check(orc_subsample, dict(base, vtype=vt), f'{_shape_class(rgs)},{kind},{cont},value-{vt}',
                                 function='RDMs.subsample')
            for vt in VT:
                case = dict(n_rdm=n_rdm, n_cond=n_cond, rg=None, pg=None, container='list', by_none=True, vtype=vt,
                            lengths=list(range(1, max(3, n_rdm) + 1)))
                bd.check(orc_subsample, case, f'by-none,value-{vt}', function='RDMs.subsample')
    direct = _direct_variants()
    for n_rdm in ((3, 4) if thorough else (3,)):
        for rgs in _partitions(n_rdm):
            for name, kind, cont, vts, extra in direct:
                base = dict(n_rdm=n_rdm, n_cond=3, rg=_label(rgs, kind), pg=None, container=cont, **extra)
                for vt in vts:
                    case = dict(base, vtype=vt) if 'scalar' in vt else dict(base, vtype=vt, lengths=[1, 2, 3])
                    bd.check(orc_subsample, case, f'{_shape_class(rgs)},{kind},{cont},value-{vt},{name}', function='RDMs.subsample')
        for cont, rindex in (('list', USER_INDEX), ('array-int16', USER_INDEX), ('tuple', ONE_BASED)):
            for vt in ('list', 'array', 'scalar'):
                case = dict(n_rdm=n_rdm, n_cond=3, rg=None, pg=None, container=cont, by_none=True, vtype=vt, lengths=[1, 2, 3],
                            rindex=rindex[:n_rdm], other_source=True)
                bd.check(orc_subsample, case, f'by-none,{cont},value-{vt},user-supplied-index', function='RDMs.subsample')
    bd.done()
    bds.append(bd)

    if thorough:
        dom = ('1..max(4, #groups)', '{1, 3}', ' (n_cond = 5: tuple values only with int labels / list descriptor, n_rdm = 3 only '
               'with int / list and str / array)')
    else:
        dom = ('1..3 (int labels / list descriptor / array value: 1..max(3, #groups))', '{2}',
               ' (n_cond >= 4: only int / list and str / array)')
    bd = Bounded(run, 'C09/subsample-pattern', 'C09/RDMs.subsample_pattern/oracle/faithful-group-resample',
                 'ALL vectors of group values (selecting >= 2 conditions) of length %s, passed as list / tuple / array, every '
                 'single value as python / numpy scalar; ALL groupings (set partitions) of n_cond 2..5, n_rdm in %s; int / str '
                 'labels in list / array descriptors%s; by = None on the index; %s, values also as list of numpy scalars / object, '
                 'uint8, int32, int64 arrays, for ALL groupings of n_cond %s, n_rdm 2, vectors of length 1..3'
                 % (dom + (DIRECT_NOTE, '3..4' if thorough else '3 (labels beyond 32 bit and substring labels: also 4)')),
                 exhaustive=True, function='RDMs.subsample_pattern')
    for n_cond in range(2, 6):
        for n_rdm in ((1, 3) if thorough else (2,)):
            for rgs in _partitions(n_cond):
                g = len(set(rgs))
                for kind, cont in (KINDS if thorough or n_cond <= 3 else both):
                    base = dict(n_rdm=n_rdm, n_cond=n_cond, rg=None, pg=_label(rgs, kind), container=cont,
                                pred='model' if kind == 'int' else 'rdms')
                    for vt in VT:
                        if thorough and n_cond == 5 and ((vt == 'tuple' and (kind, cont) != ('int', 'list'))
                                                         or (n_rdm == 3 and (kind, cont) not in both)):
                            continue
                        if thorough:
                            top = max(4, g)
                        else:
                            top = max(3, g) if (kind, cont, vt) == ('int', 'list', 'array') else 3
                        bd.check(orc_subsample_pattern, dict(base, vtype=vt, lengths=list(range(1, top + 1))),
                                 f'{_shape_class(rgs)},{kind},{cont},value-{vt}', function='RDMs.subsample_pattern')
                    for vt in ('scalar', 'np-scalar'):
                        bd.check(orc_subsample_pattern, dict(base, vtype=vt), f'{_shape_class(rgs)},{kind},{cont},value-{vt}',
                                 function='RDMs.subsample_pattern')
            for vt in VT:
                case = dict(n_rdm=n_rdm, n_cond=n_cond, rg=None, pg=None, container='list', by_none=True, vtype=vt,
                            lengths=list(range(1, 4)), pred='rdms')
                bd.check(orc_subsample_pattern, case, f'by-none,value-{vt}', function='RDMs.subsample_pattern')
    for n_cond in (3, 4):
        for rgs in _partitions(n_cond):
            for k, (name, kind, cont, vts, extra) in enumerate(direct):
                if not thorough and n_cond == 4 and not name.startswith('labels-'):
                    continue
                base = dict(n_rdm=2, n_cond=n_cond, rg=None, pg=_label(rgs, kind), container=cont, pred='model' if k % 2 else 'rdms',
                            **extra)
                for vt in vts:
                    case = dict(base, vtype=vt) if 'scalar' in vt else dict(base, vtype=vt, lengths=[1, 2, 3])
                    bd.check(orc_subsample_pattern, case, f'{_shape_class(rgs)},{kind},{cont},value-{vt},{name}',
                             function='RDMs.subsample_pattern')
        for cont, pindex in (('list', USER_INDEX), ('array-int16', USER_INDEX), ('tuple', ONE_BASED)):
            for vt in ('list', 'array', 'scalar'):
                case = dict(n_rdm=2, n_cond=n_cond, rg=None, pg=None, container=cont, by_none=True, vtype=vt, lengths=[1, 2, 3],
                            pindex=pindex[:n_cond], other_source=True, pred='rdms')
                bd.check(orc_subsample_pattern, case, f'by-none,{cont},value-{vt},user-supplied-index',
                         function='RDMs.subsample_pattern')
    bd.done()
    bds.append(bd)

    # ---- larger sizes: selected and seeded outcomes only ----------------------------------------------------------------
    n_streams = 40 if thorough else 6
    shapes = [(7, 6), (12, 13)] + ([(8, 8), (30, 20), (5, 40)] if thorough else [])
    bd = Bounded(run, 'C09/larger-sizes-sampled', 'C09/bootstrap_sample/oracle/faithful-group-resample-larger-sizes',
                 'NOT all outcomes: per case 5 constructed outcomes (only the first / only the last group, every group once ascending '
                 '/ descending, every group three times in a row) + %d seeded random outcomes of the scripted draws; n_rdm x n_cond in '
                 '%s; groupings: unique, a b c a b c .. (sizes differ by the remainder), a b c a b c b runs, blocks of 1, 2, 3, .. '
                 'items, all but one item in one group; int labels / list and str labels / array descriptors; earlier results '
                 're-checked after every call; same clauses as the exhaustive domains except the two over the whole outcome space'
                 % (n_streams, shapes), exhaustive=False, function='bootstrap_sample')
    styles = ('unique', 'interleaved', 'runs', 'blocks', 'one-big')
    for n_rdm, n_cond in shapes:
        for k, style in enumerate(styles):
            for kind, cont in (('int', 'list'), ('str', 'array')):
                rgs, pgs = _design(n_rdm, style), _design(n_cond, styles[(k + 2) % len(styles)])
                case = dict(n_rdm=n_rdm, n_cond=n_cond, rg=_design_label(rgs, kind), pg=_design_label(pgs, kind), container=cont,
                            pred='model' if kind == 'int' else 'rdms', held=True, sampled=dict(seed=9000 + k, n=n_streams))
                ic = f'larger-sizes,{kind},{cont}'
                bd.check(orc_joint, case, f'rdm:{style},pattern:{styles[(k + 2) % len(styles)]},{ic}', function='bootstrap_sample')
                bd.check(orc_rdm, dict(case, pg=None), f'{style},{ic}', function='bootstrap_sample_rdm')
                bd.check(orc_pattern, dict(case, rg=None, pg=_design_label(_design(n_cond, style), kind)), f'{style},{ic}',
                         function='bootstrap_sample_pattern')
        case = dict(n_rdm=n_rdm, n_cond=n_cond, rg=None, pg=None, container='array', default_args=True, pred='rdms', held=True,
                    sampled=dict(seed=9100, n=n_streams))
        bd.check(orc_joint, case, 'default-index,larger-sizes', function='bootstrap_sample')
    bd.done()
    bds.append(bd)

    # ---- the global generator is not reset by routines called between draws -------------------------------------------------
    bd = Bounded(run, 'C09/rng-not-reset', 'C09/bootstrap_sample/oracle/draws-stay-random-between-other-library-calls',
                 'a fit / evaluation between seeding and drawing: fit_optimize (normalize on / off), fit_optimize_positive, fit_regress, '
                 'fit_select, eval_fixed, crossval; two different seeds must give different draws (8 RDMs x 9 conditions)',
                 exhaustive=False, function='bootstrap_sample')
    for k, routine in enumerate(('fit_optimize,normalize=True', 'fit_optimize,normalize=False', 'fit_optimize_positive', 'fit_regress',
                                 'fit_select', 'eval_fixed', 'crossval')):
        for seed in range(2 if thorough else 1):
            bd.check(orc_rng_not_reset, dict(seed=seed + k, routine=routine), 'intervening-library-call', function='bootstrap_sample')
    bd.done()
    bds.append(bd)

    # ---- statistical smoke test (labelled as such) -------------------------------------------------------------------------
    N = 20000 if thorough else 3000
    bd = Bounded(run, 'C09/frequency-smoke', 'C09/bootstrap_sample/oracle/statistical-smoke-equal-group-frequency',
                 'STATISTICAL SMOKE TEST, not a decision: real numpy generator, %d fixed seed(s), %d draws each, unbalanced group '
                 'sizes (3+1, 1+4, 1+3+1, 1+2+1, 3+1+1), threshold 6 sd of the binomial count' % (3 if thorough else 1, N),
                 exhaustive=False, function='bootstrap_sample')
    designs = [([5, 5, 5, 2], [9, 0, 0, 0, 0]), ([2, 5, 5, 5], [5, 5, 2, 9, 5]), (['a', 'b', 'b', 'c'], ['x', 'y', 'x', 'x', 'z'])]
    for seed in range(3 if thorough else 1):
        for rg, pg in designs:
            for fn in ('bootstrap_sample_rdm', 'bootstrap_sample_pattern', 'bootstrap_sample'):
                case = dict(n_rdm=4, n_cond=5, rg=rg, pg=pg, container='list', fn=fn, N=N, seed=20260 + seed)
                bd.check(orc_frequency, case, 'unbalanced-groups,statistical-smoke', function=fn)
    bd.done()
    bds.append(bd)
    return bds
