"""C20, bounded run-time tier (tier C) -- importers recover exactly the structure encoded in external names and files.

Every oracle builds its input from a JSON-able case, calls the REAL rsatoolbox.io functions and compares with a spec
written from the property statement (own path builder, own file writers, explicit loops); nothing of rsatoolbox is used
to compute an expected value.

Clauses of the property and the oracles that cover them
-------------------------------------------------------
BIDS ("parsing a relative path into entities and rebuilding a path from them returns the original path for every valid
combination of sub, ses, task, run, space, desc, suffix, extension and derivative; sibling, events and metadata look-ups
change only the entities they are asked to change"):
  * C20/bids-parse      BidsFile attributes == the entities the path was built from (absent -> None), str-typed.
  * C20/bids-rebuild    BidsLayout._replace(f, {}) == path, find_mri_sibling_of(f, own desc, own suffix).relpath == path,
                        abs_path/fpath == join(root, path).  Also run on paths without a modality directory
                        (sub-01/sub-01_scans.tsv) in a domain of its own (KNOWN FINDING, see C20_findings.md).
  * C20/bids-lookups    find_meta_for / find_events_for / find_table_sibling_of / find_mri_sibling_of / find_table_key_for:
                        relpath == own builder applied to the entity dict with exactly the documented entities replaced
                        or removed; class of the returned object; its re-parsed entities; base object not modified.
  * C20/bids-files      the look-ups on a real directory tree (TemporaryDirectory): get_meta() / get_events() /
                        get_table_sibling().get_frame() return the content of the file at the expected place,
                        find_mri_derivative_files returns exactly the non-json files with the desc (and task).
  Domain: ALL 2^6 presence/absence combinations of derivative, ses, task, run, space, desc x single / multi-part
  extension x 8 value families (numeric labels, alphabetic labels starting with letters of their own key such as sub-bob /
  task-stroop / desc-confounds, labels equal to their key, labels equal to another key, mixed, long camel-case, the same label everywhere, one-letter labels).
Meadows ("single- or multi-participant, .mat or .json files load into RDMs whose values, stimulus labels
(alphabetically sorted on request with values permuted alike), participant and task descriptors match the file and name"):
  * C20/meadows-filename     extract_filename_segments on the three documented file-name shapes: exact dict.
  * C20/meadows-petname      is_petname.
  * C20/meadows-mat-single   generated with scipy.io.savemat; values / labels / participant / task_index / experiment name;
                             sort False / True / default: the label-pair -> value map is preserved (sentinel values).
  * C20/meadows-mat-multi    same for multi-participant files (several variable layouts, participant order as in file);
                             one class has a different stimulus order per participant (KNOWN FINDING).
  * C20/meadows-json         generated with json.dump: only multiarrange tasks, task names, task positions, participant,
                             tasks with other stimuli skipped with a warning.
  * C20/meadows-unsupported  documented refusals raise ValueError (multi-participant json, single-task json, unknown
                             extension, mat file without the variables) instead of returning something.
MNE ("epochs map to a temporal dataset with the epochs' data, event codes, channel names and times"):
  * C20/mne-epochs           fake epochs object -> TemporalDataset fields; descriptors passed through.
  * C20/mne-bids-filename    descriptors_from_bids_filename over presence/absence and order of entities, value families.
  * C20/mne-read-epochs      read_epochs with a stand-in `mne` module: filename + entity descriptors + epochs content.
  * C20/mne-real-file        (only if mne is importable) real EpochsArray saved to a .fif in a TemporaryDirectory.
Design matrix ("one range-normalised, centred column per condition plus flagged confound columns, dof = volumes - columns"):
  * C20/design-matrix        shape, pred_mask, dof (int), centred, range 1, columns in order of first appearance, each
                             condition column correlates with an INDEPENDENT literal prediction (SPM canonical double-gamma
                             from scipy.stats.gamma, linear interpolation) of its own onsets and not with the others',
                             constant baseline before the first onset, confound columns = centred/range-normalised input
                             columns without the columns containing n/a, inputs not modified.
  * C20/design-noninterference   a condition's column does not depend on the other conditions' onsets nor on confounds.
SPM ("high-pass filtering removes from each run's data its component in that run's filter regressors"):
  * C20/spm-filter           spm_filter(Y) rows of run i == Y_i - X0_i (X0_i' Y_i) with orthonormal X0_i, X0_i' out_i == 0,
                             input untouched (KNOWN FINDING: returns the unfiltered copy for every non-trivial filter).
  * C20/spm-residuals        get_residuals with a fake nitools: residuals / betas of the filtered, weighted data.
  * C20/spm-mat-file         SPM.mat written with scipy.io.savemat -> get_info_from_spm_mat attributes (run structure,
                             filter bases, regressor names / run numbers, relocated raw data files).
  * C20/spm-relocate         relocate_file on posix / windows style SPM file entries.

Dimension sweep (tools/SWEEP_BRIEF.md): the same clauses along dimensions the first tier did not vary
  typed data        MNE: float32 / int32 / int16 epochs data, int32 event codes; Meadows: int64 / int16 / float32 values in mat and
                    whole numbers in json; design matrix: integer onsets / durations, float32 / int64 / int16 confounds, 0/1 outlier
                    columns, TR as int, volumes as numpy integer; SPM: float32 data in spm_filter, int16 / uint8 / float32 raw data
                    in get_residuals (integer data given to spm_filter directly: pending triage, see below)
  extreme units     MNE data x 1e-9 / 1e15 (fake) and x 1e-9 / 1e6 (real fif); Meadows values x 1e-12 / 1e9; confounds x 1e-26 ..
                    1e12 (range-normalisation removes the unit); SPM data x 1e-26 .. 1e12 -- compared RELATIVE to the size of
                    the data (_relclose), the harness' close() has an absolute floor
  containers        task filter of find_mri_derivative_files as tuple / ndarray; other row labels and further columns in the events /
                    confounds tables; key order inside the json objects; F-ordered and strided data for spm_filter
  repeated values   BIDS families 'all-values-equal' (every entity 01) and 'single-char-own-key-letter'; 'func' repeated further
                    down an SPM file entry; numeric-string stimulus names ('10' < '100' < '9' alphabetically); stimulus files with
                    extensions of different length; unbalanced designs, mixed-case / numeric-string condition labels
  sizes             two stimuli (one pair), 12-40 stimuli, five participants; single event per condition, 6-10 conditions, single
                    confound, n/a in the last / a middle volume; ten and more SPM runs; further extensions (json, tsv.gz,
                    dtseries.nii, func.gii ...) and layout roots (trailing separator, relative, with blanks, '.')
  call sequences    C20/bids-sequence (look-ups repeated, reversed, interleaved with another file on the same layout, replacement
                    dict untouched), bids-files (same relative paths with other content in another root, calls repeated),
                    mne-epochs (second object of the same shape, the caller's change of the first result does not leak),
                    C20/meadows-sequence (files of the same name with other content, held unsorted result), design matrix (tables
                    of the same shape with other content in between, held result), spm_filter (another GLM object of the same
                    directory with other bases, held result); the Meadows files are unchanged after loading
  environment       C20/fresh-interpreter: a batch of the oracles above in new interpreters with other PYTHONHASHSEEDs
Classes that FAIL on the unchanged tree are registered behind `if False:  # pending triage: <class>` in tier_c:   [TRIAGED since: every class repaired in /repo, recorded as open finding, or dropped -- DESIGN.md 10.10]
  integer-typed-data (spm_filter keeps an integer dtype and truncates), single-run-spm-mat, condition-name-with-space,
  old-root-contains-func (relocate_file), two-stimuli-multi-participant (Meadows mat), impulse-events-duration-0 (design matrix).

NOT covered by this tier: values outside the BIDS label grammar (non-alphanumeric labels), nibabel / nitools image
reading (faked), the numerical quality of the pchip HRF resampling (only correlation >= 0.9 with a literal prediction),
events whose response lies outside the scan or constant confound columns (0/0 in the normalisation, precondition),
Meadows stimulus names containing more than one dot, single-regressor SPM filter bases read from a file
(loadmat(simplify_cells) turns them into 1-D arrays; scipy.io), real Meadows / SPM downloads.
"""
import itertools
import json
import os
import sys
import tempfile
import types
import warnings

import numpy as np

from vf.rt.harness import oracle, Bounded, replay_file, close  # noqa: F401


def _relclose(a, b, tol, ref=None):
    """|a - b| <= tol * ref elementwise, ref = max |b| unless given: a comparison RELATIVE to the size of the data (the
    harness' close() never goes below an absolute 1.0 as scale and so accepts anything for data in units of 1e-12)"""
    a = np.asarray(a, dtype=float)
    b = np.asarray(b, dtype=float)
    if a.shape != b.shape or not np.isfinite(a).all():
        return False
    if ref is None:
        ref = float(np.abs(b).max()) if b.size else 0.0
    return bool(a.size == 0 or np.abs(a - b).max() <= tol * ref)

# =====================================================================================================
# BIDS
# =====================================================================================================
BIDS_OPTIONAL = ['derivative', 'ses', 'task', 'run', 'space', 'desc']
BIDS_FAMILIES = {
    'numeric': dict(derivative='fmriprep', sub='04', ses='03', task='7', run='02', space='152', desc='1',
                    modality='func', suffix='bold'),
    'own-key-letters': dict(derivative='ana', sub='bob', ses='early', task='stroop', run='nrun1', space='scanner',
                            desc='confounds', modality='func', suffix='bold'),
    'value-is-own-key': dict(derivative='derivatives', sub='sub', ses='ses', task='task', run='run', space='space',
                             desc='desc', modality='anat', suffix='mask'),
    'value-is-other-key': dict(derivative='sub', sub='ses', ses='task', task='run', run='space', space='desc',
                               desc='sub', modality='func', suffix='events'),
    'mixed': dict(derivative='glm2', sub='s01', ses='test2', task='kanizsa3', run='10', space='MNI152',
                  desc='smoothed6mm', modality='anat', suffix='T1w'),
    'camel': dict(derivative='fmriprep', sub='uB12u', ses='eSe', task='Task', run='Run1', space='MNI152NLin2009cAsym',
                  desc='Desc', modality='func', suffix='boldref'),
    # sweep: the SAME value in every entity (a rebuild by textual substitution of a value hits the wrong entity) and
    # one-character values that are a letter of their own key (nothing is left after stripping a character set)
    'all-values-equal': dict(derivative='01', sub='01', ses='01', task='01', run='01', space='01', desc='01',
                             modality='fmap', suffix='epi'),
    'single-char-own-key-letter': dict(derivative='d', sub='s', ses='e', task='k', run='n', space='p', desc='c',
                                       modality='dwi', suffix='dwi'),
}
BIDS_EXTS = ['nii', 'nii.gz']
BIDS_EXTS_SWEEP = ['json', 'dtseries.nii', 'tsv', 'tsv.gz', 'func.gii', 'fif']      # other valid single / multi-part extensions
BIDS_ROOTS_SWEEP = ['/data/bids/', 'rel/bids', '/data/my study/bids.v2', '.']
BIDS_SIBS = [['brain', 'mask'], ['confounds', 'timeseries'], ['desc', 'dseg'], ['aparcaseg', 'dseg']]
BIDS_ATTRS = ['derivative', 'sub', 'ses', 'task', 'run', 'space', 'desc', 'modality', 'suffix', 'ext']


def _bids_build(e):
    """the BIDS grammar, written from the specification: [derivatives/<pipeline>/]sub-<>/[ses-<>/][<modality>/]
    sub-<>[_ses-<>][_task-<>][_run-<>][_space-<>][_desc-<>]_<suffix>.<ext>"""
    segs = []
    if e.get('derivative'):
        segs += ['derivatives', e['derivative']]
    segs.append('sub-' + e['sub'])
    if e.get('ses'):
        segs.append('ses-' + e['ses'])
    if e.get('modality'):
        segs.append(e['modality'])
    f = ['sub-' + e['sub']]
    for k in ('ses', 'task', 'run', 'space', 'desc'):
        if e.get(k):
            f.append(k + '-' + e[k])
    f.append(e['suffix'] + '.' + e['ext'])
    return os.sep.join(segs + ['_'.join(f)])


def _bids_attrs(f):
    return {a: getattr(f, a, '<unset>') for a in BIDS_ATTRS}


def _bids_diff(got, want):
    return ', '.join(f'{a}: parsed {got[a]!r}, encoded {want.get(a)!r}' for a in BIDS_ATTRS if got[a] != want.get(a))


@oracle('C20/bids-parse')
def orc_bids_parse(case):
    from rsatoolbox.io.bids import BidsLayout, BidsFile
    ents = case['ents']
    path = _bids_build(ents)
    f = BidsFile(path, BidsLayout('/data/bids'))
    got = _bids_attrs(f)
    d = _bids_diff(got, ents)
    if d:
        return f'{path}: {d}'
    for a in BIDS_ATTRS:
        if got[a] is not None and not isinstance(got[a], str):
            return f'{path}: {a} is {type(got[a]).__name__}, not str'
    if f.relpath != path:
        return f'relpath changed to {f.relpath!r}'
    return None


@oracle('C20/bids-rebuild')
def orc_bids_rebuild(case):
    from rsatoolbox.io.bids import BidsLayout, BidsFile, BidsMriFile
    ents = case['ents']
    root = case.get('root', '/data/bids')
    path = _bids_build(ents)
    layout = BidsLayout(root, nibabel=object())
    f = BidsFile(path, layout)
    back = layout._replace(f, {})
    if back != path:
        return f'{path}: rebuilt from its own entities as {back}'
    m = BidsMriFile(path, layout, None)
    same = layout.find_mri_sibling_of(m, ents.get('desc'), ents['suffix'])
    if same.relpath != path:
        return f'{path}: sibling look-up with the same desc and suffix gives {same.relpath}'
    want_abs = os.path.join(root, path)
    if 'root' in case:      # sweep roots (trailing separator, relative, '.'): the same file, whatever the spelling of the join
        if os.path.normpath(layout.abs_path(f)) != os.path.normpath(want_abs) or os.path.normpath(f.fpath) != os.path.normpath(want_abs):
            return f'{path}: absolute path {layout.abs_path(f)} / {f.fpath}, expected {want_abs} (root {root!r})'
    elif layout.abs_path(f) != want_abs or f.fpath != want_abs:
        return f'{path}: absolute path {layout.abs_path(f)} / {f.fpath}, expected {want_abs}'
    return None


@oracle('C20/bids-lookups')
def orc_bids_lookups(case):
    from rsatoolbox.io.bids import BidsLayout, BidsMriFile, BidsJsonFile, BidsTableFile
    ents = case['ents']
    path = _bids_build(ents)
    layout = BidsLayout('/data/bids', nibabel=object())
    f = BidsMriFile(path, layout, None)
    before = _bids_attrs(f)

    def expect(obj, want_ents, cls, what):
        want = _bids_build(want_ents)
        if obj.relpath != want:
            return f'{path}: {what} is {obj.relpath}, expected {want}'
        if type(obj) is not cls:
            return f'{path}: {what} is a {type(obj).__name__}, expected {cls.__name__}'
        d = _bids_diff(_bids_attrs(obj), want_ents)
        if d:
            return f'{path}: entities of {what} ({obj.relpath}): {d}'
        if obj.layout is not layout:
            return f'{path}: {what} belongs to another layout'
        return None

    # metadata: only the extension changes
    r = expect(layout.find_meta_for(f), dict(ents, ext='json'), BidsJsonFile, 'meta file')
    if r:
        return r
    # events: the raw-data file of the same sub/ses/task/run: no derivative, space, desc
    r = expect(layout.find_events_for(f), dict(ents, derivative=None, space=None, desc=None, suffix='events', ext='tsv'),
               BidsTableFile, 'events file')
    if r:
        return r
    for desc, suffix in case['sibs'] + [[ents.get('desc'), ents['suffix']]]:
        r = expect(layout.find_mri_sibling_of(f, desc, suffix), dict(ents, desc=desc, suffix=suffix), BidsMriFile,
                   f'mri sibling desc={desc} suffix={suffix}')
        if r:
            return r
        r = expect(f.get_mri_sibling(desc, suffix), dict(ents, desc=desc, suffix=suffix), BidsMriFile,
                   f'get_mri_sibling desc={desc} suffix={suffix}')
        if r:
            return r
        if desc is None:
            continue
        for obj, what in ((layout.find_table_sibling_of(f, desc, suffix), 'table sibling'),
                          (f.get_table_sibling(desc, suffix), 'get_table_sibling')):
            r = expect(obj, dict(ents, desc=desc, suffix=suffix, ext='tsv', space=None), BidsTableFile,
                       f'{what} desc={desc} suffix={suffix}')
            if r:
                return r
    # key table of a segmentation: derivatives/<pipeline>/desc-<desc>_<suffix>.tsv
    if ents.get('desc'):
        key = layout.find_table_key_for(f)
        segs = (['derivatives', ents['derivative']] if ents.get('derivative') else []) + \
            [f"desc-{ents['desc']}_{ents['suffix']}.tsv"]
        if key.relpath != os.sep.join(segs):
            return f'{path}: key table is {key.relpath}, expected {os.sep.join(segs)}'
        if type(key) is not BidsTableFile:
            return f'{path}: key table is a {type(key).__name__}'
    after = _bids_attrs(f)
    if after != before or f.relpath != path:
        return f'{path}: look-ups modified the base file object: {before} -> {after}'
    return None


def _bids_all_lookups(layout, f, ents, sibs, reverse=False):
    """every look-up of the layout on `f` as (name, relpath, expected relpath from the own builder), in the given call order"""
    jobs = [('meta', lambda: layout.find_meta_for(f), dict(ents, ext='json')),
            ('events', lambda: layout.find_events_for(f),
             dict(ents, derivative=None, space=None, desc=None, suffix='events', ext='tsv'))]
    for desc, suffix in sibs:
        jobs.append((f'mri-sibling {desc} {suffix}', lambda d=desc, x=suffix: layout.find_mri_sibling_of(f, d, x),
                     dict(ents, desc=desc, suffix=suffix)))
        jobs.append((f'table-sibling {desc} {suffix}', lambda d=desc, x=suffix: layout.find_table_sibling_of(f, d, x),
                     dict(ents, desc=desc, suffix=suffix, ext='tsv', space=None)))
    jobs.append(('rebuild', lambda: types.SimpleNamespace(relpath=layout._replace(f, {})), dict(ents)))
    if reverse:
        jobs = jobs[::-1]
    return [(name, fn().relpath, _bids_build(want)) for name, fn, want in jobs]


@oracle('C20/bids-sequence')
def orc_bids_sequence(case):
    """call sequences: every look-up gives the path of the own builder whatever was looked up before on the same file object,
    on the same layout for ANOTHER file with the same entities present (other values), in whatever order, and when repeated;
    the dict of replacements handed to _replace and the base objects are left as they were"""
    from rsatoolbox.io.bids import BidsLayout, BidsMriFile
    ents, other = case['ents'], case['other']
    path, opath = _bids_build(ents), _bids_build(other)
    layout = BidsLayout('/data/bids', nibabel=object())
    f = BidsMriFile(path, layout, None)
    g = BidsMriFile(opath, layout, None)
    before_f, before_g = _bids_attrs(f), _bids_attrs(g)
    passes = [('first pass', f, ents, False), ('other file of the same shape', g, other, False),
              ('second pass after the look-ups for ' + opath, f, ents, False), ('reversed call order', f, ents, True),
              ('other file, reversed call order', g, other, True),
              ('a new object for the same path', BidsMriFile(path, layout, None), ents, False)]
    for label, obj, e, rev in passes:
        for name, got, want in _bids_all_lookups(layout, obj, e, case['sibs'], reverse=rev):
            if got != want:
                return f'{obj.relpath}: {name} ({label}) is {got}, expected {want}'
    repl = dict(desc='brain', suffix='mask', ext='json')
    keep = dict(repl)
    got = layout._replace(f, repl)
    if repl != keep:
        return f'{path}: _replace modified the dict of replacements: {keep} -> {repl}'
    if got != _bids_build(dict(ents, **keep)):
        return f'{path}: _replace with {keep} gives {got}'
    if _bids_attrs(f) != before_f or _bids_attrs(g) != before_g or f.relpath != path or g.relpath != opath:
        return f'{path}: the look-ups modified a base file object'
    return None


class _FakeNib:
    """stands in for nibabel: load(path).get_fdata() returns the path so that the oracle sees which file was read"""

    class _Img:
        def __init__(self, p):
            self.p = p

        def get_fdata(self):
            return self.p

    def load(self, p):
        return self._Img(p)


@oracle('C20/bids-files')
def orc_bids_files(case):
    from rsatoolbox.io.bids import BidsLayout, BidsMriFile
    ents_list = case['files']          # list of entity dicts of derivative bold files
    desc = case['desc']
    tasks = case.get('tasks')
    with tempfile.TemporaryDirectory() as root:
        def put(rel, text):
            full = os.path.join(root, rel)
            os.makedirs(os.path.dirname(full), exist_ok=True)
            with open(full, 'w') as fh:
                fh.write(text)

        salt = case.get('salt', 0)   # sweep: the same relative paths with OTHER content in another root (stale cache by path)

        def tag(rel):          # content is a function of the place of the file, so shared files (events) are consistent
            return (sum(map(ord, rel)) + salt) % 97

        expected = []
        for ents in ents_list:
            rel = _bids_build(ents)
            put(rel, 'img')
            mrel = _bids_build(dict(ents, ext='json'))
            put(mrel, json.dumps(dict(RepetitionTime=1.5 + tag(mrel), marker=mrel)))
            erel = _bids_build(dict(ents, derivative=None, space=None, desc=None, suffix='events', ext='tsv'))
            put(erel, 'onset\tduration\ttrial_type\n%d.5\t1\tc%d\n%d.5\t2\tface\n' % (tag(erel), tag(erel), tag(erel) + 10))
            crel = _bids_build(dict(ents, desc='confounds', suffix='timeseries', ext='tsv', space=None))
            put(crel, 'csf\ttrans_x\n%d\t0.5\n%d\t0.25\n' % (tag(crel), tag(crel) + 1))
            put(_bids_build(dict(ents, desc='brain', suffix='mask')), 'mask')
            if ('desc-' + desc) in rel:
                if tasks is None or any(('task-' + t) in rel for t in tasks):
                    expected.append(rel)
        layout = BidsLayout(root, nibabel=_FakeNib())
        if case.get('tasks_as') == 'tuple' and tasks is not None:          # container type of the task filter
            tasks_arg = tuple(tasks)
        elif case.get('tasks_as') == 'ndarray' and tasks is not None:
            tasks_arg = np.array(tasks)
        else:
            tasks_arg = None if tasks is None else list(tasks)
        found = layout.find_mri_derivative_files(ents_list[0]['derivative'], desc, tasks_arg)
        got = [f.relpath for f in found]
        if isinstance(tasks_arg, list) and tasks_arg != tasks:
            return f'find_mri_derivative_files modified its list of tasks: {tasks} -> {tasks_arg}'
        again = [f.relpath for f in layout.find_mri_derivative_files(ents_list[0]['derivative'], desc, tasks_arg)]
        if again != got:
            return f'find_mri_derivative_files called twice: {got} then {again}'
        if sorted(got) != sorted(expected):
            return f'find_mri_derivative_files(desc={desc}, tasks={tasks}) found {sorted(got)}, expected {sorted(expected)}'
        if len(set(got)) != len(got):
            return f'find_mri_derivative_files returned duplicates: {got}'
        for f in found:
            if type(f) is not BidsMriFile:
                return f'{f.relpath}: found file is a {type(f).__name__}'
        for ents in ents_list:
            rel = _bids_build(ents)
            f = BidsMriFile(rel, layout, _FakeNib())
            if f.get_data() != os.path.join(root, rel):
                return f'{rel}: get_data read {f.get_data()}'
            mrel = _bids_build(dict(ents, ext='json'))
            meta = f.get_meta()
            if meta != dict(RepetitionTime=1.5 + tag(mrel), marker=mrel):
                return f'{rel}: get_meta returned {meta}, the sidecar is {mrel}'
            if f.get_meta() != dict(RepetitionTime=1.5 + tag(mrel), marker=mrel):
                return f'{rel}: a second get_meta returned {f.get_meta()}, the sidecar is {mrel}'
            erel = _bids_build(dict(ents, derivative=None, space=None, desc=None, suffix='events', ext='tsv'))
            ev = f.get_events()
            if list(ev.columns) != ['onset', 'duration', 'trial_type'] or list(ev.trial_type) != ['c%d' % tag(erel), 'face'] \
                    or list(ev.onset) != [tag(erel) + 0.5, tag(erel) + 10.5]:
                return f'{rel}: get_events returned {ev.to_dict()}, the events file is {erel}'
            crel = _bids_build(dict(ents, desc='confounds', suffix='timeseries', ext='tsv', space=None))
            cf = f.get_table_sibling('confounds', 'timeseries').get_frame()
            if list(cf.columns) != ['csf', 'trans_x'] or list(cf.csf) != [tag(crel), tag(crel) + 1]:
                return f'{rel}: confounds table {cf.to_dict()}, the file is {crel}'
            mask = f.get_mri_sibling('brain', 'mask').get_data()
            if mask != os.path.join(root, _bids_build(dict(ents, desc='brain', suffix='mask'))):
                return f'{rel}: mask sibling read {mask}'
    return None


# =====================================================================================================
# MNE
# =====================================================================================================
class _FakeEpochs:
    def __init__(self, data, events, ch_names, times):
        self._data = data
        self.events = events
        self.ch_names = ch_names
        self.times = times

    def get_data(self, *a, **k):
        return self._data


def _fake_epochs(case):
    n_ep, n_ch, n_t = case['n_epochs'], case['n_channels'], case['n_times']
    rs = np.random.RandomState(case['seed'])
    data = (np.arange(n_ep * n_ch * n_t, dtype=float).reshape(n_ep, n_ch, n_t) + 0.5) * 1e-6
    # sweep: other legitimate units (MEG data in tesla ~1e-15, data rescaled to microvolts ...) and typed data
    data = (data + case.get('offset', 0.0) * 1e-6) * case.get('scale', 1.0)
    if case.get('dtype'):
        if np.dtype(case['dtype']).kind != 'f':
            data = np.arange(n_ep * n_ch * n_t).reshape(n_ep, n_ch, n_t) * 3 - 7 + int(case.get('offset', 0))
        data = data.astype(case['dtype'])
    codes = rs.randint(1, 5, size=n_ep) * 10 + 1
    events = np.stack([1000 + 100 * np.arange(n_ep), np.full(n_ep, 7), codes], axis=1).astype(case.get('events_dtype', int))
    ch = [('A%d' % (i + 1) if i % 2 == 0 else 'X%d' % (32 - i)) for i in range(n_ch)]
    times = case.get('tmin', -0.1) + np.arange(n_t) / case.get('sfreq', 20.0)
    return _FakeEpochs(data, events, ch, times), data, codes, ch, times


def _check_epochs_dataset(ds, data, codes, ch, times, descriptors):
    from rsatoolbox.data.dataset import TemporalDataset
    if type(ds) is not TemporalDataset:
        return f'result is a {type(ds).__name__}, not a TemporalDataset'
    if ds.measurements.shape != data.shape:
        return f'measurements shape {ds.measurements.shape}, epochs data {data.shape}'
    if not np.array_equal(ds.measurements, data):
        return 'measurements differ from the epochs data'
    if (ds.n_obs, ds.n_channel, ds.n_time) != data.shape:
        return f'(n_obs, n_channel, n_time) = {(ds.n_obs, ds.n_channel, ds.n_time)}, expected {data.shape}'
    ev = ds.obs_descriptors.get('event')
    if ev is None or list(ev) != list(codes):
        return f'obs descriptor event {None if ev is None else list(ev)}, event codes {list(codes)}'
    nm = ds.channel_descriptors.get('name')
    if nm is None or list(nm) != list(ch):
        return f'channel descriptor name {nm}, channel names {ch}'
    tm = ds.time_descriptors.get('time')
    if tm is None or not np.array_equal(np.asarray(tm, dtype=float), times):
        return f'time descriptor {tm}, epochs times {list(times)}'
    if dict(ds.descriptors) != dict(descriptors):
        return f'descriptors {ds.descriptors}, expected {descriptors}'
    return None


@oracle('C20/mne-epochs')
def orc_mne_epochs(case):
    from rsatoolbox.io.mne import dataset_from_epochs
    epo, data, codes, ch, times = _fake_epochs(case)
    keep = data.copy()
    descs = case.get('descriptors')
    given = None if descs is None else dict(descs)
    ds = dataset_from_epochs(epo, given) if case.get('pass_descriptors', True) else dataset_from_epochs(epo)
    r = _check_epochs_dataset(ds, keep, codes, ch, times, descs or {})
    if r:
        return r
    if given is not None and given != descs:
        return 'the descriptors argument was modified'
    if not np.array_equal(epo._data, keep) or epo._data.dtype != keep.dtype or list(epo.events[:, 2]) != list(codes) \
            or list(epo.ch_names) != list(ch) or not np.array_equal(epo.times, times):
        return 'the epochs object was modified'
    if case.get('sequence'):
        # call sequence: a second epochs object of the same shape with other content, then the first one again; what the caller
        # did with the first result (a descriptor added) must not reach later results, the first result must stay as it was
        ds.descriptors['added-by-the-caller'] = 1
        case2 = dict(case, seed=case['seed'] + 1, offset=1e4)
        epo2, data2, codes2, ch2, times2 = _fake_epochs(case2)
        ds2 = dataset_from_epochs(epo2, None if descs is None else dict(descs)) if case.get('pass_descriptors', True) \
            else dataset_from_epochs(epo2)
        r = _check_epochs_dataset(ds2, data2.copy(), codes2, ch2, times2, descs or {})
        if r:
            return 'second epochs object of the same shape: ' + r
        ds3 = dataset_from_epochs(epo, None if descs is None else dict(descs)) if case.get('pass_descriptors', True) \
            else dataset_from_epochs(epo)
        r = _check_epochs_dataset(ds3, keep, codes, ch, times, descs or {})
        if r:
            return 'same epochs object converted again: ' + r
        r = _check_epochs_dataset(ds, keep, codes, ch, times, dict(descs or {}, **{'added-by-the-caller': 1}))
        if r:
            return 'the first result changed when the function was called again: ' + r
    return None


def _entity_fname(pairs, suffix):
    return '_'.join([f'{k}-{v}' for k, v in pairs] + [suffix])


@oracle('C20/mne-bids-filename')
def orc_mne_bids_filename(case):
    from rsatoolbox.io.mne import descriptors_from_bids_filename
    pairs = case['pairs']
    fname = _entity_fname(pairs, case['suffix'])
    want = {k: v for k, v in pairs if k in ('sub', 'run', 'task')}
    got = descriptors_from_bids_filename(fname)
    if got != want:
        return f'{fname}: descriptors {got}, encoded {want}'
    return None


@oracle('C20/mne-read-epochs')
def orc_mne_read_epochs(case):
    import rsatoolbox.io.mne as rmne
    epo, data, codes, ch, times = _fake_epochs(case)
    fname = _entity_fname(case['pairs'], 'epo.fif')
    fpath = os.path.join(case['dir'], fname)
    calls = []
    fake = types.ModuleType('mne')

    def read_epochs(path, *a, **k):
        calls.append(path)
        return epo
    fake.read_epochs = read_epochs
    saved = sys.modules.get('mne', None)
    sys.modules['mne'] = fake
    try:
        ds = rmne.read_epochs(fpath)
    finally:
        if saved is None:
            del sys.modules['mne']
        else:
            sys.modules['mne'] = saved
    if calls != [fpath]:
        return f'mne.read_epochs called with {calls}, expected [{fpath}]'
    want = dict(filename=fname, **{k: v for k, v in case['pairs'] if k in ('sub', 'run', 'task')})
    return _check_epochs_dataset(ds, data, codes, ch, times, want)


@oracle('C20/mne-real-file')
def orc_mne_real(case):
    import mne
    import rsatoolbox.io.mne as rmne
    _, data, codes, ch, times = _fake_epochs(case)
    sfreq = case.get('sfreq', 20.0)
    events = np.stack([100 * (1 + np.arange(len(codes))), np.zeros(len(codes), dtype=int), codes], axis=1).astype(int)
    info = mne.create_info(ch_names=list(ch), ch_types='eeg', sfreq=sfreq)
    epochs = mne.EpochsArray(data, info, events, tmin=case.get('tmin', -0.1), verbose='error')
    fname = _entity_fname(case['pairs'], 'epo.fif')
    with tempfile.TemporaryDirectory() as d:
        fpath = os.path.join(d, fname)
        epochs.save(fpath, verbose='error')
        ds = rmne.read_epochs(fpath)
    want = dict(filename=fname, **{k: v for k, v in case['pairs'] if k in ('sub', 'run', 'task')})
    if not close(ds.measurements, data, 1e-6):
        return 'measurements differ from the data of the saved epochs'
    if 'scale' in case and not _relclose(ds.measurements, data, 1e-6):      # sweep: relative to the size of the data
        return f'measurements differ from the data of the saved epochs (data of size {float(np.abs(data).max()):.3g})'
    ds.measurements = data  # float32 storage of the fif file: compared with tolerance above
    tm = np.asarray(ds.time_descriptors.get('time', []), dtype=float)
    if tm.shape != times.shape or np.abs(tm - times).max() > 1e-9:
        return f'time descriptor {list(tm)}, expected {list(times)}'
    ds.time_descriptors['time'] = times
    return _check_epochs_dataset(ds, data, codes, ch, times, want)


# =====================================================================================================
# Meadows
# =====================================================================================================
PETS = ['cuddly-bunny', 'informed-mole', 'able-fly', 'clean-koi', 'wise-ox', 'sure-cat']
NOT_PETS = ['arrangement', 'ma1', 'bunny', 'cuddly_bunny', 'very-cuddly-bunny', 'cuddly-xyzzy', 'similarity-task', '3', '',
            'tree', '1D', 'cuddly-', '-bunny-']


def _meadows_fname(case):
    shape = case['shape']
    head = f"Meadows_{case['exp']}_v_v{case['version']}_"
    if shape == 'single-participant-single-task':
        mid = f"{case['participant']}_{case['task_index']}"
    elif shape == 'single-participant-multi-task':
        mid = case['participant']
    else:
        mid = case['task_name']
    return head + mid + f"_{case['structure']}.{case['ext']}"


def _meadows_info(case):
    """the documented fields of the three file-name shapes"""
    want = dict(version=str(case['version']), experiment_name=case['exp'], structure=case['structure'], filetype=case['ext'])
    shape = case['shape']
    if shape == 'single-participant-single-task':
        want.update(task_scope='single', participant_scope='single', participant=case['participant'],
                    task_index=int(case['task_index']))
    elif shape == 'single-participant-multi-task':
        want.update(task_scope='multiple', participant_scope='single', participant=case['participant'])
    else:
        want.update(task_scope='single', participant_scope='multiple', task_name=case['task_name'])
    return want


@oracle('C20/meadows-filename')
def orc_meadows_filename(case):
    from rsatoolbox.io.meadows import extract_filename_segments
    fname = _meadows_fname(case)
    fpath = os.path.join(case.get('dir', ''), fname)
    got = extract_filename_segments(fpath)
    want = _meadows_info(case)
    if dict(got) != want:
        return f'{fpath}: {got}, expected {want}'
    if 'task_index' in got and not isinstance(got['task_index'], int):
        return f"{fpath}: task_index is {type(got['task_index']).__name__}"
    return None


@oracle('C20/meadows-petname')
def orc_meadows_petname(case):
    from rsatoolbox.io.meadows import is_petname
    got = is_petname(case['name'])
    if got is not case['expected']:
        return f"is_petname({case['name']!r}) = {got!r}, expected {case['expected']}"
    return None


def _stim_names(kind, n, seed):
    rs = np.random.RandomState(seed)
    if kind == 'equal-length':
        base = ['stim%03d' % (i + 1) for i in range(n)]
    elif kind == 'ragged':
        pool = ['a', 'bbbb', 'cc', 'zebra', 'ab', 'apple10', 'apple2', 'm']
        base = pool[:n]
    elif kind == 'numeric-strings':       # sweep: alphabetical order differs from numerical order ('10' < '100' < '9')
        pool = ['10', '9', '100', '07', '1', '55', '8', '090', '2', '21', '200', '3']
        base = pool[:n]
    elif kind == 'many':                  # sweep: more stimuli than the pools have
        base = [('s%d' % (i * 7 % n)) if i % 2 else ('item%02d' % i) for i in range(n)]
    else:
        raise ValueError(kind)
    order = rs.permutation(n)
    return [base[i] for i in order]


def _with_ext(names, ext):
    """file names of the stimuli; 'mixed': extensions of different length in one file"""
    if ext == 'mixed':
        return [s + ('.png', '.jpeg', '.tif')[sum(map(ord, s)) % 3] for s in names]     # a stimulus keeps its file name
    return [s + ext for s in names]


def _case_utv(case, n, offset):
    """the dissimilarities written to the file: sentinel values, optionally (sweep) integer-typed / float32 / in other units"""
    kind = case.get('values', 'float')
    npairs = n * (n - 1) // 2
    if kind == 'int':               # whole numbers: a JSON writer stores 3 and not 3.0, MATLAB may store an integer class
        return (np.arange(npairs) * 3 + 1 + int(offset)).astype(np.int64)
    if kind == 'int16':
        return (np.arange(npairs) * 3 + 1 + int(offset)).astype(np.int16)
    utv = _utv(n, offset) * case.get('scale', 1.0)
    return utv.astype(np.float32) if kind == 'float32' else utv


def _file_bytes(fpath):
    with open(fpath, 'rb') as fh:
        return fh.read()


def _pair_map(labels, utv):
    """label pair -> value for a vector in upper-triangular row-major order"""
    m = {}
    k = 0
    n = len(labels)
    for i in range(n):
        for j in range(i + 1, n):
            m[frozenset((labels[i], labels[j]))] = float(utv[k])
            k += 1
    assert k == len(utv)
    return m


def _utv(n, offset):
    npairs = n * (n - 1) // 2
    return (np.arange(npairs) * 0.25 + 0.125 + offset).astype(float)


def _check_meadows_rdms(rdms, file_labels, file_utvs, sort, want_rdm_desc, exp):
    """file_labels: condition names in file order (extension stripped); file_utvs: one vector per expected RDM"""
    n = len(file_labels)
    npairs = n * (n - 1) // 2
    if rdms.n_rdm != len(file_utvs) or rdms.n_cond != n:
        return f'{rdms.n_rdm} RDMs of {rdms.n_cond} conditions, file has {len(file_utvs)} of {n}'
    conds = list(rdms.pattern_descriptors.get('conds', []))
    want_conds = sorted(file_labels) if sort else list(file_labels)
    if conds != want_conds:
        return f'stimulus labels {conds}, expected {want_conds} (sort={sort})'
    d = np.asarray(rdms.dissimilarities)
    if d.shape != (len(file_utvs), npairs):
        return f'dissimilarities shape {d.shape}, expected {(len(file_utvs), npairs)}'
    for r, utv in enumerate(file_utvs):
        want = _pair_map(file_labels, utv)
        got = _pair_map(conds, d[r])
        if got != want:
            bad = [(sorted(p), got[p], want[p]) for p in want if got.get(p) != want[p]][:3]
            return f'RDM {r}: values do not belong to the same stimulus pairs as in the file (sort={sort}): ' + \
                '; '.join(f'{a}-{b}: {g} instead of {w}' for (a, b), g, w in bad)
    for k, v in want_rdm_desc.items():
        got = rdms.rdm_descriptors.get(k)
        if got is None or list(got) != list(v):
            return f'rdm descriptor {k} = {got}, expected {v}'
    if rdms.descriptors.get('experiment_name') != exp:
        return f"experiment_name {rdms.descriptors.get('experiment_name')!r}, expected {exp!r}"
    if rdms.dissimilarity_measure != 'euclidean':
        return f'dissimilarity measure {rdms.dissimilarity_measure!r}'
    return None


def _load(fpath, sortmode):
    from rsatoolbox.io.meadows import load_rdms
    if sortmode == 'default':
        return load_rdms(fpath), True
    return load_rdms(fpath, sort=bool(sortmode)), bool(sortmode)


@oracle('C20/meadows-mat-single')
def orc_meadows_mat_single(case):
    from scipy.io import savemat
    n = case['n_stim']
    names = _stim_names(case['names'], n, case['seed'])
    ext = case.get('stim_ext', '.png')
    utv = _case_utv(case, n, 0.0)
    fc = dict(shape='single-participant-single-task', exp=case['exp'], version=case['version'], participant=case['participant'],
              task_index=case['task_index'], structure='1D', ext='mat')
    with tempfile.TemporaryDirectory() as d:
        fpath = os.path.join(d, _meadows_fname(fc))
        savemat(fpath, dict(stimuli=np.array(_with_ext(names, ext)), rdmutv=utv[None, :]))
        raw = _file_bytes(fpath)
        rdms, sort = _load(fpath, case['sort'])
        if _file_bytes(fpath) != raw or os.listdir(d) != [os.path.basename(fpath)]:
            return 'loading changed the file / its directory'
    r = _check_meadows_rdms(rdms, names, [utv], sort, dict(participant=[case['participant']], task_index=[case['task_index']]),
                            case['exp'])
    if r:
        return r
    if 'task' in rdms.rdm_descriptors:
        return f"task descriptor {rdms.rdm_descriptors['task']} although the file (name) has no task name"
    return None


@oracle('C20/meadows-mat-multi')
def orc_meadows_mat_multi(case):
    from scipy.io import savemat
    n = case['n_stim']
    parts = case['participants']
    names = _stim_names(case['names'], n, case['seed'])
    ext = case.get('stim_ext', '.png')
    per_part_names = []
    for p in range(len(parts)):
        if case.get('order_differs') and p > 0:
            per_part_names.append([names[i] for i in np.roll(np.arange(n), p)])
        else:
            per_part_names.append(list(names))
    utvs = [_case_utv(case, n, 100.0 * p) for p in range(len(parts))]
    stim_vars = [('stimuli_' + p.replace('-', '_'), np.array(_with_ext(per_part_names[i], ext))) for i, p in enumerate(parts)]
    utv_vars = [('rdmutv_' + p.replace('-', '_'), utvs[i][None, :]) for i, p in enumerate(parts)]
    layout = case.get('layout', 'interleaved')
    if layout == 'interleaved':
        items = [x for pair in zip(stim_vars, utv_vars) for x in pair]
    elif layout == 'stimuli-first':
        items = stim_vars + utv_vars
    elif layout == 'rdm-first':
        items = utv_vars + stim_vars
    elif layout == 'rdm-reversed':      # the value variables stored in another participant order than the stimulus variables
        items = stim_vars + utv_vars[::-1]
    elif layout == 'rdm-rotated':
        items = utv_vars[1:] + utv_vars[:1] + stim_vars
    else:
        items = [x for pair in zip(utv_vars, stim_vars) for x in pair]
    fc = dict(shape='multi-participant-single-task', exp=case['exp'], version=case['version'], task_name=case['task_name'],
              structure='1D', ext='mat')
    with tempfile.TemporaryDirectory() as d:
        fpath = os.path.join(d, _meadows_fname(fc))
        savemat(fpath, dict(items))
        raw = _file_bytes(fpath)
        rdms, sort = _load(fpath, case['sort'])
        if _file_bytes(fpath) != raw or os.listdir(d) != [os.path.basename(fpath)]:
            return 'loading changed the file / its directory'
    # every participant's values are compared with THAT participant's stimulus order in the file
    if rdms.n_rdm != len(parts):
        return f'{rdms.n_rdm} RDMs, file has {len(parts)} participants'
    got_parts = rdms.rdm_descriptors.get('participant')
    if got_parts is None or list(got_parts) != list(parts):
        return f'participant descriptor {got_parts}, file order {parts}'
    conds = list(rdms.pattern_descriptors.get('conds', []))
    d_ = np.asarray(rdms.dissimilarities)
    if d_.shape != (len(parts), n * (n - 1) // 2):
        return f'dissimilarities shape {d_.shape}'
    if sorted(conds) != sorted(names):
        return f'stimulus labels {conds}, file has {names}'
    for p in range(len(parts)):
        want = _pair_map(per_part_names[p], utvs[p])
        got = _pair_map(conds, d_[p])
        if got != want:
            bad = [(sorted(q), got[q], want[q]) for q in want if got.get(q) != want[q]][:3]
            return f'participant {parts[p]}: values are not those of the same stimulus pairs in the file: ' + \
                '; '.join(f'{a}-{b}: {g} instead of {w}' for (a, b), g, w in bad)
    return _check_meadows_rdms(rdms, per_part_names[0], [utvs[0]] + [
        [_pair_map(per_part_names[p], utvs[p])[frozenset((per_part_names[0][i], per_part_names[0][j]))]
         for i in range(n) for j in range(i + 1, n)] for p in range(1, len(parts))],
        sort, dict(participant=parts, task=[case['task_name']] * len(parts)), case['exp'])


@oracle('C20/meadows-json')
def orc_meadows_json(case):
    n = case['n_stim']
    names = _stim_names(case['names'], n, case['seed'])
    ext = case.get('stim_ext', '.png')
    tasks = []
    want_names, want_pos, want_utvs = [], [], []
    n_ma = 0
    for pos, kind in enumerate(case['tasks']):
        if kind == 'info':
            tasks.append(dict(status='finished', task=dict(name='gi%d' % pos, task_type='info'), stimuli=[], trials=[], isInfo=True))
        elif kind == 'other':
            tasks.append(dict(status='finished', task=dict(name='tri%d' % pos, task_type='triplets'),
                              stimuli=[dict(name=s, id='x') for s in _with_ext(names, ext)], trials=[]))
        elif kind == 'nometa':
            tasks.append(dict(status='finished', stimuli=[], trials=[]))
        else:
            these = list(names) if kind == 'ma' else [names[i] for i in np.roll(np.arange(n), 1)]
            utv = _case_utv(case, n, 100.0 * n_ma)
            tasks.append(dict(status='finished', task=dict(name='ma%d' % (n_ma + 1), task_type='multiarrange'),
                              stimuli=[dict(name=s, id='id%d' % i, path='p/%d.png' % i) for i, s in enumerate(_with_ext(these, ext))],
                              rdm=[x.item() for x in utv], trials=[]))
            if kind == 'ma':
                want_names.append('ma%d' % (n_ma + 1))
                want_pos.append(pos)
                want_utvs.append(utv)
            n_ma += 1
    fc = dict(shape='single-participant-multi-task', exp=case['exp'], version=case['version'], participant=case['participant'],
              structure='tree', ext='json')
    with tempfile.TemporaryDirectory() as d:
        fpath = os.path.join(d, _meadows_fname(fc))
        doc = dict(token=None, tasks=tasks)
        if case.get('key_order') == 'reversed':       # sweep: the order of the keys inside the json objects carries no meaning
            def rev(o):
                if isinstance(o, dict):
                    return {k: rev(o[k]) for k in reversed(list(o))}
                return [rev(x) for x in o] if isinstance(o, list) else o
            doc = rev(doc)
        with open(fpath, 'w', encoding='utf-8') as fh:
            json.dump(doc, fh)
        raw = _file_bytes(fpath)
        with warnings.catch_warnings(record=True) as w:
            warnings.simplefilter('always')
            rdms, sort = _load(fpath, case['sort'])
        if _file_bytes(fpath) != raw or os.listdir(d) != [os.path.basename(fpath)]:
            return 'loading changed the file / its directory'
    r = _check_meadows_rdms(rdms, names, want_utvs, sort,
                            dict(participant=[case['participant']] * len(want_names), task=want_names), case['exp'])
    if r:
        return r
    tidx = rdms.rdm_descriptors.get('task_index')
    if tidx is not None:
        tidx = [int(t) for t in tidx]
        if [t - tidx[0] for t in tidx] != [p - want_pos[0] for p in want_pos] or tidx[0] not in (want_pos[0], want_pos[0] + 1):
            return f'task_index {tidx} does not follow the positions {want_pos} of the tasks in the file'
    if 'ma-other-stimuli' in case['tasks'] and not w:
        return 'a multiarrange task with different stimuli was dropped without a warning'
    return None


def _meadows_write(kind, case, d):
    """write one Meadows file of the given kind into directory d; returns (path, stimulus names in file order, the vectors,
    expected rdm descriptors)"""
    from scipy.io import savemat
    n = case['n_stim']
    names = _stim_names(case['names'], n, case['seed'])
    off = case.get('offset', 0.0)
    if kind == 'mat-single':
        utvs = [_case_utv(case, n, off)]
        fc = dict(shape='single-participant-single-task', exp='seqExp', version=3, participant='able-fly', task_index=2,
                  structure='1D', ext='mat')
        fpath = os.path.join(d, _meadows_fname(fc))
        savemat(fpath, dict(stimuli=np.array(_with_ext(names, '.png')), rdmutv=utvs[0][None, :]))
        desc = dict(participant=['able-fly'], task_index=[2])
    elif kind == 'mat-multi':
        parts = ['wise-ox', 'able-fly']
        utvs = [_case_utv(case, n, off + 100.0 * q) for q in range(len(parts))]
        items = {}
        for q, nm in enumerate(parts):
            items['stimuli_' + nm.replace('-', '_')] = np.array(_with_ext(names, '.png'))
            items['rdmutv_' + nm.replace('-', '_')] = utvs[q][None, :]
        fc = dict(shape='multi-participant-single-task', exp='seqExp', version=3, task_name='arrangement', structure='1D', ext='mat')
        fpath = os.path.join(d, _meadows_fname(fc))
        savemat(fpath, items)
        desc = dict(participant=parts, task=['arrangement'] * len(parts))
    elif kind == 'json':
        utvs = [_case_utv(case, n, off + 100.0 * q) for q in range(2)]
        tasks = [dict(status='finished', task=dict(name='gi', task_type='info'), stimuli=[], trials=[])]
        for q in range(2):
            tasks.append(dict(status='finished', task=dict(name='ma%d' % (q + 1), task_type='multiarrange'),
                              stimuli=[dict(name=x, id='id%d' % i) for i, x in enumerate(_with_ext(names, '.png'))],
                              rdm=[x.item() for x in utvs[q]], trials=[]))
        fc = dict(shape='single-participant-multi-task', exp='seqExp', version=3, participant='able-fly', structure='tree', ext='json')
        fpath = os.path.join(d, _meadows_fname(fc))
        with open(fpath, 'w', encoding='utf-8') as fh:
            json.dump(dict(tasks=tasks), fh)
        desc = dict(participant=['able-fly'] * 2, task=['ma1', 'ma2'])
    else:
        raise ValueError(kind)
    return fpath, names, utvs, desc


@oracle('C20/meadows-sequence')
def orc_meadows_sequence(case):
    """call sequences: two files with the SAME name and shape in different directories and with different content are each
    loaded with their own content, in whatever order and however often; a result held by the caller (unsorted) does not change
    when the same file is loaded again with sort=True"""
    from rsatoolbox.io.meadows import load_rdms
    kind = case['kind']
    other = dict(case, seed=case['seed'] + 1, offset=case.get('offset', 0.0) + 1000.0)
    with tempfile.TemporaryDirectory() as da, tempfile.TemporaryDirectory() as db:
        fa, na, ua, desc = _meadows_write(kind, case, da)
        fb, nb, ub, _ = _meadows_write(kind, other, db)
        if os.path.basename(fa) != os.path.basename(fb):
            return 'oracle error: the two files must have the same name'
        r1 = load_rdms(fa, sort=False)
        r = _check_meadows_rdms(r1, na, ua, False, desc, 'seqExp')
        if r:
            return 'first load: ' + r
        snap = (list(r1.pattern_descriptors['conds']), np.array(r1.dissimilarities, copy=True),
                {k: list(v) for k, v in r1.rdm_descriptors.items()})
        for label, fp, nm, uv, sort in (('file of the same name with other content', fb, nb, ub, True),
                                        ('first file again, sorted', fa, na, ua, True),
                                        ('first file again, unsorted', fa, na, ua, False),
                                        ('other file, unsorted', fb, nb, ub, False),
                                        ('first file, default', fa, na, ua, 'default')):
            rd, srt = _load(fp, sort if sort == 'default' else int(sort))
            r = _check_meadows_rdms(rd, nm, uv, srt, desc, 'seqExp')
            if r:
                return f'{label}: {r}'
        if list(r1.pattern_descriptors['conds']) != snap[0] or not np.array_equal(np.asarray(r1.dissimilarities), snap[1]) \
                or {k: list(v) for k, v in r1.rdm_descriptors.items()} != snap[2]:
            return 'the RDMs returned by the first load changed when the files were loaded again'
    return None


@oracle('C20/meadows-unsupported')
def orc_meadows_unsupported(case):
    from scipy.io import savemat
    from rsatoolbox.io.meadows import load_rdms
    kind = case['kind']
    with tempfile.TemporaryDirectory() as d:
        if kind == 'multi-participant-json':
            fpath = os.path.join(d, 'Meadows_myExp_v_v1_arrangement_tree.json')
            with open(fpath, 'w') as fh:
                json.dump(dict(tasks=[]), fh)
        elif kind == 'single-task-json':
            fpath = os.path.join(d, 'Meadows_myExp_v_v1_cuddly-bunny_3_tree.json')
            with open(fpath, 'w') as fh:
                json.dump(dict(task=dict(name='a', task_type='multiarrange'), stimuli=[], rdm=[]), fh)
        elif kind == 'json-without-task-list':
            fpath = os.path.join(d, 'Meadows_myExp_v_v1_cuddly-bunny_tree.json')
            with open(fpath, 'w') as fh:
                json.dump(dict(tasks=dict(a=1)), fh)
        elif kind == 'csv':
            fpath = os.path.join(d, 'Meadows_myExp_v_v1_cuddly-bunny_3_1D.csv')
            with open(fpath, 'w') as fh:
                fh.write('a,b\n')
        elif kind == 'mat-missing-rdmutv':
            fpath = os.path.join(d, 'Meadows_myExp_v_v1_cuddly-bunny_3_1D.mat')
            savemat(fpath, dict(stimuli=np.array(['a.png', 'b.png', 'c.png'])))
        elif kind == 'mat-missing-stimuli':
            fpath = os.path.join(d, 'Meadows_myExp_v_v1_cuddly-bunny_3_1D.mat')
            savemat(fpath, dict(rdmutv=np.array([[1., 2., 3.]])))
        else:
            raise ValueError(kind)
        try:
            out = load_rdms(fpath)
        except ValueError:
            return None
    return f'{kind}: load_rdms returned {type(out).__name__} instead of raising ValueError'


# =====================================================================================================
# design matrix
# =====================================================================================================
def _literal_prediction(onsets, dur, tr, n_vols):
    """independent of the repo: SPM canonical double-gamma HRF at 0.1 s, boxcar of the block duration, linear interpolation"""
    from scipy.stats import gamma
    t = np.arange(0, 32, 0.1)
    h = gamma.pdf(t, 6) - gamma.pdf(t, 16) / 6
    k = np.convolve(h, np.ones(max(1, int(round(dur / 0.1)))))
    kt = np.arange(k.size) * 0.1
    tt = np.arange(n_vols) * tr
    y = np.zeros(n_vols)
    for o in onsets:
        y += np.interp(tt - o, kt, k, left=0, right=0)
    return y


def _design_inputs(case):
    import pandas
    rs = np.random.RandomState(case['seed'])
    n_cond, n_rep, tr, dur = case['n_cond'], case['n_rep'], case['tr'], case['dur']
    lead = case.get('lead', 6.0)
    # sweep: unbalanced designs (case['reps'] = number of events per condition; default n_rep for every condition)
    reps = list(case.get('reps') or [n_rep] * n_cond)
    n_ev = sum(reps)
    spacing = 8.0
    slots = rs.permutation(n_ev + 2)[:n_ev]
    if case.get('labels') == 'int':
        names = [3, 1, 2, 7, 5, 11, 0, -4, 100, 6][:n_cond]
    else:
        names = ['face', 'animal', 'zebra', 'b2', 'B1', '10', '9', 'tool use', 'Face', 'a'][:n_cond]
    order = case.get('order', 'interleaved')
    conds = []
    for rep in range(max(reps)):
        conds += [c for c in range(n_cond) if reps[c] > rep]
    if order == 'blocked':
        conds = sorted(conds)
    elif order == 'random':
        conds = list(rs.permutation(conds))
    rows = []
    for i, c in enumerate(conds):
        d = dur if not case.get('mixed_durations') else (dur if i % 3 else dur * 2)
        onset = lead + float(slots[i]) * spacing + float(np.round(rs.uniform(0, 3), 2))
        if case.get('int_times'):           # sweep: integer-typed onset / duration columns (whole seconds)
            onset, d = int(round(onset)), max(1, int(round(d)))
        if case.get('extra_cols'):          # sweep: further columns of a BIDS events file, trial_type not last
            rows.append(dict(stim_file='img/%d.png' % i, trial_type=names[c], response_time=0.4 + 0.01 * i, duration=d,
                             onset=onset, value=i % 2))
        else:
            rows.append(dict(onset=onset, duration=d, trial_type=names[c]))
    if case.get('sort_by_onset', True):
        rows.sort(key=lambda r: r['onset'])
    events = pandas.DataFrame(rows)
    if case.get('index') == 'shuffled':     # sweep: row labels of a table that was filtered / concatenated before
        events.index = np.random.RandomState(case['seed'] + 7).permutation(len(rows)) * 3 + 100
    n_vols = int(np.ceil((lead + (n_ev + 2) * spacing + 40 + 2 * dur) / tr)) + case.get('extra_vols', 0)
    confounds = None
    n_cf = case.get('n_cf')
    if n_cf is not None:
        cols = {}
        cfn = ['csf', 'trans_x', 'rot_z', 'white_matter', 'global_signal', 'framewise_displacement']
        cf_dtype = case.get('cf_dtype', 'float64')
        for j in range(n_cf):
            v = rs.randn(n_vols) * (j + 1) + 10 * j
            v = v * case.get('cf_scale', 1.0)           # sweep: confounds in other units (range-normalisation removes the unit)
            if np.dtype(cf_dtype).kind != 'f':
                v = np.round(v * 10).astype(cf_dtype)   # sweep: integer-typed confound columns (no n/a possible)
            else:
                v = v.astype(cf_dtype)
                if j in case.get('nan_cols', []):
                    v[dict(first=0, last=n_vols - 1, middle=n_vols // 2)[case.get('nan_pos', 'first')]] = np.nan
            cols[cfn[j]] = v
        for j in range(case.get('spikes', 0)):          # sweep: 0/1 outlier regressors as written by fmriprep (int64)
            v = np.zeros(n_vols, dtype=np.int64)
            v[3 + 5 * j] = 1
            cols['motion_outlier%02d' % j] = v
        idx = range(n_vols) if case.get('index') != 'shuffled' else list(range(50, 50 + 2 * n_vols, 2))
        confounds = pandas.DataFrame(cols, index=idx)
    return events, n_vols, confounds, names


@oracle('C20/design-matrix')
def orc_design_matrix(case):
    from rsatoolbox.io.fmriprep import make_design_matrix
    events, n_vols, confounds, names = _design_inputs(case)
    tr, dur = case['tr'], case['dur']
    if case.get('int_args'):        # sweep: TR given as a Python int, the number of volumes as a numpy integer
        tr, n_vols = int(tr), np.int64(n_vols)
    ev_keep = events.copy(deep=True)
    cf_keep = None if confounds is None else confounds.copy(deep=True)
    dm, mask, dof = make_design_matrix(events, tr=tr, n_vols=n_vols, confounds=confounds)
    if case.get('twice'):
        # call sequence: the same call again gives the same result, and the result held from the first call is not touched
        first = (np.array(dm, copy=True), np.array(mask, copy=True), dof)
        # ... a call with tables of the same shape and other content (all onsets 2 s later, confounds reversed in time) in between
        ev_o = events.copy(deep=True)
        ev_o['onset'] = ev_o['onset'] + 2
        cf_o = None if confounds is None else confounds.iloc[::-1].reset_index(drop=True)
        dm_o, mask_o, dof_o = make_design_matrix(ev_o, tr=tr, n_vols=n_vols, confounds=cf_o)
        if np.asarray(dm_o).shape != first[0].shape or dof_o != dof:
            return 'tables of the same shape give a matrix of another shape / other dof'
        if np.array_equal(np.asarray(dm_o)[:, 0], first[0][:, 0]):
            return 'the first condition column did not change although all onsets were moved by 2 s'
        if not np.array_equal(np.asarray(dm), first[0]) or not np.array_equal(np.asarray(mask), first[1]):
            return 'the result of the first call changed when the function was called with other tables of the same shape'
        dm_b, mask_b, dof_b = make_design_matrix(events, tr=tr, n_vols=n_vols, confounds=confounds)
        if not np.array_equal(np.asarray(dm_b), first[0]) or not np.array_equal(np.asarray(mask_b), first[1]) or dof_b != dof:
            return 'the same call made twice gives different results'
        if not np.array_equal(np.asarray(dm), first[0]) or not np.array_equal(np.asarray(mask), first[1]):
            return 'the result of the first call changed when the function was called again'
    # conditions in order of first appearance in the table
    conds = []
    for v in ev_keep.trial_type.tolist():
        if v not in conds:
            conds.append(v)
    kept = [] if cf_keep is None else [c for c in cf_keep.columns if not np.isnan(cf_keep[c].values).any()]
    n_col = len(conds) + len(kept)
    dm = np.asarray(dm)
    if dm.shape != (n_vols, n_col):
        return f'design matrix shape {dm.shape}, expected {n_vols} volumes x ({len(conds)} conditions + {len(kept)} confounds)'
    mask = np.asarray(mask)
    if mask.dtype != bool or mask.tolist() != [True] * len(conds) + [False] * len(kept):
        return f'predictor mask {mask.tolist()} ({mask.dtype}), expected {len(conds)} x True then {len(kept)} x False'
    if dof != n_vols - dm.shape[1] or dof != n_vols - n_col:
        return f'dof = {dof}, but volumes - columns = {n_vols} - {dm.shape[1]} = {n_vols - dm.shape[1]}'
    if not isinstance(dof, (int, np.integer)) or isinstance(dof, bool):
        return f'dof is a {type(dof).__name__}'
    if not np.isfinite(dm).all():
        return 'design matrix contains non-finite values'
    if np.abs(dm.mean(axis=0)).max() > 1e-9:
        return f'columns not centred: means {dm.mean(axis=0).tolist()}'
    rng_ = dm.max(axis=0) - dm.min(axis=0)
    if np.abs(rng_ - 1).max() > 1e-9:
        return f'columns not range-normalised: max - min = {rng_.tolist()}'
    # content of the condition columns
    if not case.get('mixed_durations'):
        lit = [_literal_prediction(ev_keep[ev_keep.trial_type == c].onset.values, dur, tr, n_vols) for c in conds]
        for i, c in enumerate(conds):
            cors = [np.corrcoef(lit[j], dm[:, i])[0, 1] for j in range(len(conds))]
            if not cors[i] >= 0.9:
                return f'column {i} does not follow the HRF response to the onsets of condition {c!r}: correlation {cors[i]:.3f} ' \
                       f'(with the conditions in order {conds}: {np.round(cors, 3).tolist()})'
            others = [cors[j] for j in range(len(conds)) if j != i]
            if others and max(others) > cors[i] - 0.3:
                return f'column {i} is not specific to condition {c!r}: correlations {np.round(cors, 3).tolist()}'
    for i, c in enumerate(conds):
        first = ev_keep[ev_keep.trial_type == c].onset.values.min()
        pre = dm[np.arange(n_vols) * tr < first - 1e-9, i]
        if pre.size > 1 and np.abs(pre - pre[0]).max() > 1e-12:
            return f'column {i} ({c!r}) varies before the first onset of its condition ({first} s)'
        if pre.size and abs(pre[0] - dm[:, i].min()) > 0.2:
            return f'column {i} ({c!r}): baseline before the first onset is not near the minimum of the column'
    # confound columns: the input columns without n/a, centred and range-normalised like all the others
    for j, c in enumerate(kept):
        v = cf_keep[c].values.astype(float)
        want = (v - v.mean()) / (v.max() - v.min())
        if not close(dm[:, len(conds) + j], want, 1e-9):
            return f'confound column {j} of the matrix is not the centred, range-normalised confound {c!r}'
    if not events.equals(ev_keep):
        return 'the events table was modified'
    if confounds is not None and not confounds.equals(cf_keep):
        return 'the confounds table was modified'
    return None


@oracle('C20/design-noninterference')
def orc_design_noninterference(case):
    from rsatoolbox.io.fmriprep import make_design_matrix
    events, n_vols, confounds, names = _design_inputs(case)
    tr = case['tr']
    dm0, _, _ = make_design_matrix(events, tr=tr, n_vols=n_vols, confounds=None)
    first = events.trial_type.iloc[0]
    # move the onsets of every OTHER condition, add confounds: the column of `first` (column 0) must not change
    ev2 = events.copy(deep=True)
    other = ev2.trial_type != first
    ev2.loc[other, 'onset'] = ev2.loc[other, 'onset'] + case.get('shift', 2.5)
    dm1, mask1, dof1 = make_design_matrix(ev2, tr=tr, n_vols=n_vols, confounds=confounds)
    if not close(dm1[:, 0], dm0[:, 0], 1e-12):
        return f'the column of condition {first!r} changed when only the onsets of other conditions / the confounds changed'
    if other.any() and close(dm1[:, 1], dm0[:, 1], 1e-9):
        return 'the column of a condition did not change although its onsets were shifted'
    # removing the rows of the other conditions leaves exactly that one column
    ev3 = events[events.trial_type == first].reset_index(drop=True)
    dm2, mask2, dof2 = make_design_matrix(ev3, tr=tr, n_vols=n_vols, confounds=None)
    if dm2.shape != (n_vols, 1) or not close(dm2[:, 0], dm0[:, 0], 1e-12):
        return f'the column of condition {first!r} alone differs from its column in the full design'
    if dof2 != n_vols - 1:
        return f'dof {dof2} for one condition and {n_vols} volumes'
    return None


# =====================================================================================================
# SPM
# =====================================================================================================
class _FakeNitools:
    def __init__(self, data):
        self.data = data
        self.calls = []

    def get_mask_coords(self, mask):
        self.calls.append(('coords', mask))
        return ('COORDS-OF', mask)

    def sample_images(self, files, coords, use_dataobj=True):
        self.calls.append(('sample', list(files), coords))
        return self.data.copy()


def _spm_setup(case):
    rs = np.random.RandomState(case['seed'])
    nscans = list(case['nscans'])
    ks = list(case['ks'])
    P = case['P']
    T = sum(nscans)
    X0 = []
    for n, k in zip(nscans, ks):
        q = np.linalg.qr(rs.randn(n, max(k, 1)))[0][:, :k]
        X0.append(q.reshape(n, k))
    Y = rs.randn(T, P) + 3.0
    if case.get('mode') == 'data-orthogonal-to-filter':
        b = 0
        for n, q in zip(nscans, X0):
            Y[b:b + n] = Y[b:b + n] - q @ (q.T @ Y[b:b + n])
            b += n
    # sweep: data in other legitimate units, typed data (raw scanner data are int16, nibabel hands out float32), memory layout
    Y = Y * case.get('scale', 1.0)
    dt = case.get('dtype')
    if dt:
        if np.dtype(dt).kind != 'f':
            Y = np.clip(np.round(Y * 20), np.iinfo(dt).min, np.iinfo(dt).max)
        Y = Y.astype(dt)
    if case.get('layout') == 'F':
        Y = np.asfortranarray(Y)
    elif case.get('layout') == 'strided':
        big = np.zeros((T, 2 * P), dtype=Y.dtype)
        big[:, ::2] = Y
        Y = big[:, ::2]
    return nscans, X0, Y, rs


def _spm_tol(case, tol):
    """tolerance relative to the size of the data; float32 data leave 24 bits"""
    return 2e-5 if case.get('dtype') == 'float32' else tol


def _spec_filter(nscans, X0, Y):
    Y = np.asarray(Y, dtype=float)
    out = np.empty_like(Y)
    b = 0
    for n, q in zip(nscans, X0):
        Yi = Y[b:b + n]
        out[b:b + n] = Yi - q @ (q.T @ Yi)
        b += n
    return out


def _make_glm(path, nt, nscans, X0):
    from rsatoolbox.io.spm import SpmGlm
    s = SpmGlm(path, nt)
    s.nscans = np.array(nscans)
    s.nruns = len(nscans)
    s.filter_matrices = [q.copy() for q in X0]
    return s


@oracle('C20/spm-filter')
def orc_spm_filter(case):
    nscans, X0, Y, _ = _spm_setup(case)
    s = _make_glm('/proj/glm', _FakeNitools(None), nscans, X0)
    keep = Y.copy()
    out = s.spm_filter(Y)
    if not np.array_equal(Y, keep):
        return 'spm_filter modified its input'
    if Y.dtype != keep.dtype:
        return 'spm_filter changed the type of its input'
    out = np.asarray(out)
    if out.shape != Y.shape:
        return f'result shape {out.shape}, data {Y.shape}'
    want = _spec_filter(nscans, X0, keep)
    sweep = any(k in case for k in ('scale', 'dtype', 'layout', 'sequence'))
    ref = float(np.abs(keep).max())      # size of the data: the comparisons of the sweep classes are relative to it
    tol = _spm_tol(case, 1e-9)
    if case.get('sequence'):
        # call sequence: another object for the same GLM directory with the same run structure but OTHER filter bases and other
        # data; then the first one again.  The held first result must not change, the repeated call must reproduce it.
        first = out.copy()
        case2 = dict(case, seed=case['seed'] + 17)
        nscans2, X02, Y2, _ = _spm_setup(case2)
        s2 = _make_glm('/proj/glm', _FakeNitools(None), nscans2, X02)
        out2 = np.asarray(s2.spm_filter(Y2))
        if not _relclose(out2, _spec_filter(nscans2, X02, Y2), tol, float(np.abs(Y2).max())):
            return 'second GLM object with the same run structure and other filter bases: rows are not Y_i - X0_i X0_i\'Y_i'
        again = np.asarray(s.spm_filter(Y))
        if not np.array_equal(again, first):
            return 'the same call made twice gives different results'
        if not np.array_equal(out, first):
            return 'the result of the first call changed when the filter was applied again'
        if not np.array_equal(Y, keep):
            return 'spm_filter modified its input (second call)'
    b = 0
    for i, (n, q) in enumerate(zip(nscans, X0)):
        blk = out[b:b + n]
        if sweep and not _relclose(blk, want[b:b + n], tol, ref):
            dev = float(np.abs(np.asarray(blk, dtype=float) - want[b:b + n]).max()) if blk.shape == want[b:b + n].shape else None
            comp = float(np.abs(q.T @ blk).max()) if q.shape[1] else 0.0
            return f'run {i} ({n} scans, {q.shape[1]} filter regressors, data {keep.dtype} of size {ref:.3g}): rows are not ' \
                   f'Y_i - X0_i X0_i\'Y_i: max deviation {dev:.3g}, max |X0_i\' out_i| = {comp:.3g} (result dtype {out.dtype})'
        if sweep and q.shape[1] and np.abs(q.T @ blk).max() > tol * ref * 10:
            return f'run {i}: filtered data still has a component in the filter regressors ' \
                   f'({float(np.abs(q.T @ blk).max()):.3g} for data of size {ref:.3g})'
        if sweep:
            b += n
            continue
        if not close(blk, want[b:b + n], 1e-9):
            comp = float(np.abs(q.T @ blk).max()) if q.shape[1] else 0.0
            same = bool(np.array_equal(blk, keep[b:b + n]))
            return f'run {i} ({n} scans, {q.shape[1]} filter regressors): rows are not Y_i - X0_i X0_i\'Y_i; ' \
                   f'max |X0_i\' out_i| = {comp:.3g} (expected 0); returned rows equal the unfiltered input: {same}'
        if q.shape[1] and np.abs(q.T @ blk).max() > 1e-9:
            return f'run {i}: filtered data still has a component in the filter regressors'
        b += n
    for q0, q1 in zip(X0, s.filter_matrices):
        if not np.array_equal(q0, q1):
            return 'spm_filter modified the filter matrices'
    return None


@oracle('C20/spm-residuals')
def orc_spm_residuals(case):
    nscans, X0, Y, rs = _spm_setup(case)
    T = sum(nscans)
    nreg = case.get('nreg', 2)
    R = len(nscans)
    # design: nreg regressors of interest per run + one constant per run
    X = np.zeros((T, R * nreg + R))
    names, runs = [], []
    b = 0
    for r, n in enumerate(nscans):
        X[b:b + n, r * nreg:(r + 1) * nreg] = rs.randn(n, nreg)
        names += ['c%d*bf(1)' % (j + 1) for j in range(nreg)]
        runs += [r + 1] * nreg
        b += n
    b = 0
    for r, n in enumerate(nscans):
        X[b:b + n, R * nreg + r] = 1
        names.append('constant')
        runs.append(r + 1)
        b += n
    W = np.eye(T) if case.get('weight') == 'identity' else np.eye(T) + 0.1 * rs.randn(T, T)
    if case.get('mode') == 'data-orthogonal-to-filter':
        W = np.eye(T)
    nt = _FakeNitools(Y)
    s = _make_glm('/proj/glm', nt, nscans, X0)
    s.weight = W
    s.design_matrix = X
    s.pinvX = np.linalg.pinv(X)
    s.reg_of_interest = np.arange(1, R * nreg + 1)
    s.beta_names = np.array(names)
    s.run_number = np.array(runs)
    s.rawdata_files = ['/proj/func/run%d.nii,%d  ' % (r + 1, t + 1) for r, n in enumerate(nscans) for t in range(n)]
    res, beta, info = s.get_residuals('roi.nii')
    fd = _spec_filter(nscans, X0, W @ Y)
    want_beta = np.linalg.pinv(X) @ fd
    want_res = fd - X @ want_beta
    if ('coords', 'roi.nii') not in nt.calls:
        return f'mask not passed to get_mask_coords: {nt.calls[:1]}'
    samp = [c for c in nt.calls if c[0] == 'sample']
    if len(samp) != 1 or samp[0][1] != s.rawdata_files or samp[0][2] != ('COORDS-OF', 'roi.nii'):
        return 'sample_images not called once with the raw data files and the mask coordinates'
    if np.asarray(res).shape != want_res.shape or np.asarray(beta).shape != (R * nreg, Y.shape[1]):
        return f'shapes residuals {np.asarray(res).shape}, beta {np.asarray(beta).shape}'
    if 'scale' in case or 'dtype' in case:          # sweep classes: compared relative to the size of the data
        ref = float(np.abs(np.asarray(Y, dtype=float)).max())
        tol = _spm_tol(case, 1e-8)
        if not _relclose(res, want_res, tol, ref):
            dev = float(np.abs(np.asarray(res, dtype=float) - want_res).max())
            return f'residuals are not those of the high-pass filtered, weighted data (max deviation {dev:.3g} for {Y.dtype} ' \
                   f'data of size {ref:.3g})'
        if not _relclose(beta, want_beta[:R * nreg], tol * 10, ref):
            return f'betas are not the estimates from the high-pass filtered, weighted data ({Y.dtype} data of size {ref:.3g})'
    if not close(res, want_res, 1e-8):
        dev = float(np.abs(np.asarray(res) - want_res).max())
        return f'residuals are not those of the high-pass filtered, weighted data (max deviation {dev:.3g})'
    if not close(beta, want_beta[:R * nreg], 1e-8):
        return 'betas are not the estimates from the high-pass filtered, weighted data'
    if list(info['reg_name']) != names[:R * nreg] or list(info['run_number']) != runs[:R * nreg]:
        return f'info {info}'
    return None


@oracle('C20/spm-mat-file')
def orc_spm_mat_file(case):
    from scipy.io import savemat
    from rsatoolbox.io.spm import SpmGlm
    nscans, X0, Y, rs = _spm_setup(case)
    T = sum(nscans)
    R = len(nscans)
    conds = case['conds']
    names, runs, cn = [], [], []
    for r in range(R):
        for c in conds:
            names.append('Sn(%d) %s*bf(1)' % (r + 1, c))
            runs.append(r + 1)
            cn.append('%s*bf(1)' % c)
    for r in range(R):
        names.append('Sn(%d) constant' % (r + 1))
        runs.append(r + 1)
        cn.append('constant')
    nb = len(names)
    X = rs.randn(T, nb)
    W = np.eye(T) + 0.1 * rs.randn(T, T)
    sep = '\\' if case.get('windows') else '/'
    old = ('C:\\Users\\jdoe\\old place\\proj' if case.get('windows') else '/Users/jdoe/DoeLab Dropbox/the_proj')
    P = []
    for r, n in enumerate(nscans):
        for t in range(n):
            P.append(old + sep + 'func' + sep + 'uas01_run%02d.nii,%d  ' % (r + 1, t + 1))
    width = max(len(p) for p in P)
    P = [p.ljust(width) for p in P]
    SPM = dict(nscan=np.array(nscans), Vbeta=[dict(fname='beta_%04d.nii' % (i + 1)) for i in range(nb)],
               xY=dict(P=np.array(P)),
               xX=dict(name=np.array(names, dtype=object), K=[dict(X0=q) for q in X0], iC=np.arange(1, R * len(conds) + 1),
                       xKXs=dict(X=X), erdf=float(T - nb), W=W, pKX=np.linalg.pinv(X)))
    with tempfile.TemporaryDirectory() as d:
        glm = os.path.join(d, 'proj', 'glm_firstlevel')
        os.makedirs(glm)
        savemat(os.path.join(glm, 'SPM.mat'), dict(SPM=SPM))
        s = SpmGlm(glm, _FakeNitools(Y))
        s.get_info_from_spm_mat()
        base = os.path.join(d, 'proj').replace('\\', '/')
    if list(np.asarray(s.nscans)) != nscans or s.nruns != R:
        return f'run structure {s.nscans} / {s.nruns}, file has {nscans}'
    if list(s.beta_files) != ['beta_%04d.nii' % (i + 1) for i in range(nb)]:
        return f'beta files {s.beta_files}'
    if list(s.beta_names) != cn:
        return f'regressor names {list(s.beta_names)}, expected {cn}'
    if list(s.run_number) != runs:
        return f'run numbers {list(s.run_number)}, expected {runs}'
    if len(s.filter_matrices) != R:
        return f'{len(s.filter_matrices)} filter bases for {R} runs'
    for r, (q, g) in enumerate(zip(X0, s.filter_matrices)):
        if np.asarray(g).shape != q.shape or not np.array_equal(np.asarray(g), q):
            return f'filter basis of run {r} differs from the file (shape {np.asarray(g).shape} vs {q.shape})'
    if list(np.asarray(s.reg_of_interest)) != list(range(1, R * len(conds) + 1)):
        return f'regressors of interest {s.reg_of_interest}'
    if not np.array_equal(s.design_matrix, X) or not np.array_equal(s.weight, W) or not np.array_equal(s.pinvX, np.linalg.pinv(X)):
        return 'design matrix / weight / pseudo-inverse differ from the file'
    k = 0
    for r, n in enumerate(nscans):
        for t in range(n):
            want = base + '/func/uas01_run%02d.nii,%d  ' % (r + 1, t + 1)
            if s.rawdata_files[k].rstrip() != want.rstrip():
                return f'raw data file {k}: {s.rawdata_files[k]!r}, expected {want!r}'
            k += 1
    return None


@oracle('C20/spm-relocate')
def orc_spm_relocate(case):
    from rsatoolbox.io.spm import SpmGlm
    s = SpmGlm(case['glm_dir'], _FakeNitools(None))
    sep = '\\' if case['windows'] else '/'
    entry = case['old_root'] + sep + sep.join(case['tail']) + case['index']
    got = s.relocate_file(entry)
    base = case['glm_dir'].replace('\\', '/').rstrip('/')
    base = base[:base.rfind('/')]
    want = base + '/' + '/'.join(case['tail']) + case['index']
    if got != want:
        return f'relocate_file({entry!r}) with the GLM in {case["glm_dir"]!r} = {got!r}, expected {want!r}'
    return None


# =====================================================================================================
# environment: a new interpreter with another PYTHONHASHSEED
# =====================================================================================================
_FRESH_CHILD = """
import json, sys, warnings
warnings.simplefilter('ignore')
import contracts.C20_c  # noqa
from vf.rt.harness import ORACLES
out = []
for name, case in json.load(sys.stdin):
    try:
        r = ORACLES[name](case)
    except Exception as e:
        r = 'exception %s: %s' % (type(e).__name__, e)
    out.append(r)
json.dump(out, sys.stdout)
"""


@oracle('C20/fresh-interpreter')
def orc_fresh_interpreter(case):
    """the oracles listed in case['jobs'] hold as well in NEW interpreters started with PYTHONHASHSEED in case['hashseeds'] (same
    library, same sys.path): what is recovered from names and files may not depend on the iteration order of sets of strings"""
    import subprocess
    env_base = dict(os.environ, PYTHONPATH=os.pathsep.join(q for q in sys.path if q), MPLBACKEND='Agg', PYTHONDONTWRITEBYTECODE='1')
    procs = []
    for hs in case['hashseeds']:
        procs.append((hs, subprocess.Popen([sys.executable, '-c', _FRESH_CHILD], stdin=subprocess.PIPE, stdout=subprocess.PIPE,
                                           stderr=subprocess.PIPE, env=dict(env_base, PYTHONHASHSEED=str(hs)), text=True)))
    res = None
    for hs, pr in procs:
        try:
            o, e = pr.communicate(json.dumps(case['jobs']), timeout=300)
        except subprocess.TimeoutExpired:
            pr.kill()
            res = res or f'PYTHONHASHSEED={hs}: the new interpreter did not finish within 300 s'
            continue
        if pr.returncode != 0:
            res = res or f'PYTHONHASHSEED={hs}: the new interpreter failed: {e.strip().splitlines()[-2:]}'
            continue
        for (name, job), r in zip(case['jobs'], json.loads(o)):
            if r is not None:
                res = res or f'under PYTHONHASHSEED={hs}: {name} on {json.dumps(job)[:300]}: {r}'
    return res


# =====================================================================================================
# domains
# =====================================================================================================
def _bids_cases(no_modality=False, families=None, exts=None):
    for fam in (families or list(BIDS_FAMILIES)):
        vals = BIDS_FAMILIES[fam]
        for ext in (exts or BIDS_EXTS):
            for present in itertools.product([False, True], repeat=len(BIDS_OPTIONAL)):
                ents = dict(vals, ext=ext)
                for e, p in zip(BIDS_OPTIONAL, present):
                    if not p:
                        ents[e] = None
                if no_modality:
                    ents['modality'] = None
                yield fam, dict(ents=ents, sibs=BIDS_SIBS)


def tier_c(run, thorough):
    bds = []
    nfam = len(BIDS_FAMILIES)

    # ---------------- BIDS ----------------
    dom = (f'ALL 2^6 presence/absence combinations of derivative, ses, task, run, space, desc x extensions {BIDS_EXTS} x '
           f'{nfam} value families ({", ".join(BIDS_FAMILIES)}); modality directory present; 1-3 families x extensions '
           f'{BIDS_EXTS_SWEEP if thorough else BIDS_EXTS_SWEEP[:2]}; rebuild: layout roots {BIDS_ROOTS_SWEEP}; look-ups: call '
           'sequences (repeated, reversed, interleaved with another file) for 3 pairs of families')
    for name, orc, fn in (('C20/bids-parse', orc_bids_parse, 'BidsFile._deconstruct'),
                          ('C20/bids-rebuild', orc_bids_rebuild, 'BidsLayout._replace'),
                          ('C20/bids-lookups', orc_bids_lookups, 'BidsLayout.find_meta_for')):
        obl = 'C20/BidsLayout.lookups/oracle/bids-lookups' if 'lookups' in name else \
            f'C20/{fn}/oracle/{name.split("/")[1]}'
        bd = Bounded(run, name, obl, dom + (
            f'; sibling arguments {BIDS_SIBS} and the own desc/suffix' if 'lookups' in name else ''),
            exhaustive=True, function=fn)
        for fam, case in _bids_cases():
            bd.check(orc, case, fam, function='BidsFile._findEntity' if orc is orc_bids_parse else fn)
        # sweep: other single / multi-part extensions; other roots of the layout (rebuild: absolute paths)
        for fam, case in _bids_cases(families=['mixed'] + (['own-key-letters', 'all-values-equal'] if thorough else []),
                                     exts=BIDS_EXTS_SWEEP if thorough else BIDS_EXTS_SWEEP[:2]):
            bd.check(orc, case, 'other-extensions', function='BidsFile._deconstruct' if orc is orc_bids_parse else fn)
        if orc is orc_bids_rebuild:
            for root in BIDS_ROOTS_SWEEP:
                for fam, case in _bids_cases(families=['mixed'], exts=['nii.gz']):
                    bd.check(orc, dict(case, root=root), 'other-layout-roots', function='BidsLayout.abs_path')
        if orc is orc_bids_lookups:
            # sweep, call sequences: look-ups repeated, in reversed order, interleaved with those of another file of the same shape
            pairs = [('numeric', 'mixed'), ('own-key-letters', 'camel'), ('all-values-equal', 'single-char-own-key-letter')]
            for fa, fb in pairs:
                for (_, ca), (_, cb) in zip(_bids_cases(families=[fa], exts=['nii.gz']), _bids_cases(families=[fb], exts=['nii.gz'])):
                    bd.check(orc_bids_sequence, dict(ents=ca['ents'], other=cb['ents'], sibs=BIDS_SIBS[:2]), 'call-sequence',
                             function='BidsLayout._replace')
            # ... and with another file that differs from the first in exactly ONE entity (other value, or entity absent)
            for k, (_, ca) in enumerate(_bids_cases(families=['mixed'], exts=['nii.gz'])):
                ents = ca['ents']
                for e in BIDS_OPTIONAL:
                    if ents.get(e) is None or (not thorough and (k + len(e)) % 3):
                        continue
                    changed = dict(ents, **{e: 'derivB' if e == 'derivative' else ('7' if e == 'run' else 'other' + e)})
                    bd.check(orc_bids_sequence, dict(ents=ents, other=changed, sibs=BIDS_SIBS[:2]),
                             'call-sequence,one-entity-differs', function='BidsLayout.find_meta_for')
                    if e != 'derivative':
                        bd.check(orc_bids_sequence, dict(ents=ents, other=dict(ents, **{e: None}), sibs=BIDS_SIBS[:2]),
                                 'call-sequence,one-entity-absent', function='BidsLayout.find_meta_for')
        bd.done()
        bds.append(bd)

    bd = Bounded(run, 'C20/bids-rebuild-no-modality-dir', 'C20/BidsLayout._replace/oracle/bids-rebuild-no-modality-dir',
                 'files directly in the subject / session directory (sub-01/sub-01_scans.tsv): ALL 2^6 presence/absence '
                 'combinations x 2 value families, extension tsv', exhaustive=True, function='BidsFile._deconstruct')
    for fam, case in _bids_cases(no_modality=True, families=['numeric', 'mixed'], exts=['tsv']):
        case['ents']['suffix'] = 'scans'
        bd.check(orc_bids_rebuild, case, 'no-modality-dir', function='BidsFile._deconstruct')
    bd.done()
    bds.append(bd)

    bd = Bounded(run, 'C20/bids-files', 'C20/BidsLayout.find_mri_derivative_files/oracle/bids-files',
                 'directory trees in a TemporaryDirectory with 2-4 derivative bold files (with/without ses, run, space), their '
                 'json sidecars, raw events, confounds tables, masks; desc filter, task filter None / one / two tasks',
                 function='BidsLayout.find_mri_derivative_files')
    fams = ['numeric', 'own-key-letters', 'mixed'] + (['camel', 'value-is-own-key'] if thorough else [])
    for fam in fams:
        v = dict(BIDS_FAMILIES[fam], derivative='fmriprep', ext='nii.gz', suffix='bold', modality='func')
        for drop in ([], ['ses'], ['run', 'space'], ['ses', 'run']):
            base = dict(v)
            for k in drop:
                base[k] = None
            other_task = 'rest' if v['task'] != 'rest' else 'move'
            other_sub = v['sub'] + 'x'
            files = [dict(base, desc='preproc'), dict(base, desc='preproc', task=other_task),
                     dict(base, desc='preproc', sub=other_sub), dict(base, desc='other', sub=other_sub)]
            for tasks in (None, [v['task']], [other_task, v['task']]):
                bd.check(orc_bids_files, dict(files=files, desc='preproc', tasks=tasks), fam,
                         function='BidsLayout.find_mri_derivative_files')
                if fam == 'numeric' and len(drop) < 2 and (thorough or tasks is not None):
                    # sweep: the same relative paths in another root with OTHER file content; task filter as tuple / ndarray
                    for salt, tasks_as in ((1, 'list'), (50, 'tuple'), (7, 'ndarray')):
                        bd.check(orc_bids_files, dict(files=files, desc='preproc', tasks=tasks, salt=salt, tasks_as=tasks_as),
                                 'same-paths-other-content', function='BidsJsonFile.get_data')
    bd.done()
    bds.append(bd)

    # ---------------- MNE ----------------
    bd = Bounded(run, 'C20/mne-epochs', 'C20/dataset_from_epochs/oracle/mne-epochs',
                 'fake epochs objects, epochs 1..4 x channels 1..3 x times in {1, 2, 4} (sentinel data), descriptors none / omitted / given; '
                 '3-5 shapes x data scaled by 1e-9 / 1e15, float32 / int32 / int16 data, int32 event codes, call sequences',
                 exhaustive=True, function='dataset_from_epochs')
    for ne in (1, 2, 3, 4):
        for nc in (1, 2, 3):
            for nt_ in (1, 2, 4):
                for dmode in ('none', 'omitted', 'given'):
                    case = dict(seed=ne * 100 + nc * 10 + nt_, n_epochs=ne, n_channels=nc, n_times=nt_,
                                descriptors=dict(sub='01', filename='x_epo.fif') if dmode == 'given' else None,
                                pass_descriptors=dmode != 'omitted')
                    bd.check(orc_mne_epochs, case, 'single-epoch' if ne == 1 else 'generic', function='dataset_from_epochs')
    # sweep: units (tesla-sized and rescaled data), typed data and event codes, call sequences (second object of the same shape,
    # same object again, caller modifies the first result)
    variants = [('extreme-units', dict(scale=1e-9)), ('extreme-units', dict(scale=1e15)), ('typed-data', dict(dtype='float32')),
                ('typed-data', dict(dtype='int32', events_dtype='int32')), ('typed-data', dict(dtype='int16', events_dtype='int64')),
                ('call-sequence', dict())]
    for (ne, nc, nt_) in ((1, 1, 1), (3, 2, 4), (4, 3, 2)) + (((6, 5, 7), (2, 1, 3)) if thorough else ()):
        for dmode in ('none', 'omitted', 'given'):
            for ic, extra in variants:
                case = dict(seed=ne * 100 + nc * 10 + nt_, n_epochs=ne, n_channels=nc, n_times=nt_,
                            descriptors=dict(sub='01', filename='x_epo.fif') if dmode == 'given' else None,
                            pass_descriptors=dmode != 'omitted', sequence=True, **extra)
                bd.check(orc_mne_epochs, case, ic, function='dataset_from_epochs')
    bd.done()
    bds.append(bd)

    bd = Bounded(run, 'C20/mne-bids-filename', 'C20/descriptors_from_bids_filename/oracle/mne-bids-filename',
                 f'ALL subsets of sub, ses, task, run, desc in canonical and reversed order x {nfam} value families x suffixes epo.fif / '
                 'meg.fif', exhaustive=True, function='descriptors_from_bids_filename')
    keys = ['sub', 'ses', 'task', 'run', 'desc']
    for fam, vals in BIDS_FAMILIES.items():
        for present in itertools.product([False, True], repeat=len(keys)):
            pairs = [[k, vals[k]] for k, p in zip(keys, present) if p]
            for rev in (False, True):
                if rev and len(pairs) < 2:
                    continue
                for suffix in ('epo.fif', 'meg.fif'):
                    bd.check(orc_mne_bids_filename, dict(pairs=pairs[::-1] if rev else pairs, suffix=suffix), fam,
                             function='descriptors_from_bids_filename')
    bd.done()
    bds.append(bd)

    bd = Bounded(run, 'C20/mne-read-epochs', 'C20/read_epochs/oracle/mne-read-epochs',
                 f'read_epochs with a stand-in mne module; {nfam} value families x entity subsets (none, sub, sub+run+task, all)',
                 function='read_epochs')
    for fam, vals in BIDS_FAMILIES.items():
        for ks in ([], ['sub'], ['sub', 'run', 'task'], ['sub', 'ses', 'task', 'run', 'desc']):
            pairs = [[k, vals[k]] for k in ks]
            bd.check(orc_mne_read_epochs, dict(seed=3, n_epochs=3, n_channels=2, n_times=3, pairs=pairs, dir='/data/meg/sub-x'), fam,
                     function='read_epochs')
        # sweep: a directory whose name itself looks like a file name with entities
        pairs = [[k, vals[k]] for k in ('sub', 'task')]
        bd.check(orc_mne_read_epochs, dict(seed=4, n_epochs=2, n_channels=2, n_times=3, pairs=pairs,
                                           dir='/data/sub-zz_task-qq_run-99_meg/ses-1'), 'entities-in-directory-name',
                 function='read_epochs')
    bd.done()
    bds.append(bd)

    try:
        import mne  # noqa: F401
        have_mne = True
    except Exception:
        have_mne = False
    if have_mne:
        bd = Bounded(run, 'C20/mne-real-file', 'C20/read_epochs/oracle/mne-real-file',
                     'real mne.EpochsArray saved as .fif in a TemporaryDirectory: (epochs, channels, times) in {(4,2,3), (2,3,5)'
                     + (', (1,1,2), (5,4,8)' if thorough else '') + '} x 2 value families', function='read_epochs')
        shapes = [(4, 2, 3), (2, 3, 5)] + ([(1, 1, 2), (5, 4, 8)] if thorough else [])
        for fam in ('numeric', 'own-key-letters'):
            vals = BIDS_FAMILIES[fam]
            for (ne, nc, nt_) in shapes:
                pairs = [[k, vals[k]] for k in ('sub', 'run', 'task')]
                bd.check(orc_mne_real, dict(seed=ne, n_epochs=ne, n_channels=nc, n_times=nt_, pairs=pairs, tmin=0.0), fam,
                         function='read_epochs')
            for scale in (1e-9, 1e6):       # sweep: data of the size of MEG recordings (1e-15) / of rescaled data
                bd.check(orc_mne_real, dict(seed=2, n_epochs=3, n_channels=2, n_times=4, pairs=pairs, tmin=-0.1, scale=scale),
                         'extreme-units', function='read_epochs')
        bd.done()
        bds.append(bd)

    # ---------------- Meadows ----------------
    bd = Bounded(run, 'C20/meadows-filename', 'C20/extract_filename_segments/oracle/meadows-filename',
                 'the 3 documented file-name shapes x 3 experiment names x versions 1, 12 x 4 participants x task index 1, 3, 12 / '
                 '3 task names x structures 1D, tree, 2D x mat / json x bare name / directory with dots',
                 exhaustive=True, function='extract_filename_segments')
    for shape in ('single-participant-single-task', 'single-participant-multi-task', 'multi-participant-single-task'):
        for exp in ('myExp', 'twoMaTasks', 'v2test'):
            for version in (1, 12):
                for structure, ext in (('1D', 'mat'), ('tree', 'json'), ('2D', 'mat')):
                    for dr in ('', '/data/my.study/v1_downloads'):
                        common = dict(shape=shape, exp=exp, version=version, structure=structure, ext=ext, dir=dr)
                        if shape == 'multi-participant-single-task':
                            for tn in ('arrangement', 'ma1', 'similarity'):
                                bd.check(orc_meadows_filename, dict(common, task_name=tn), shape, function='extract_filename_segments')
                        else:
                            for pn in PETS[:4]:
                                if shape == 'single-participant-single-task':
                                    for ti in (1, 3, 12):
                                        bd.check(orc_meadows_filename, dict(common, participant=pn, task_index=ti), shape,
                                                 function='extract_filename_segments')
                                else:
                                    bd.check(orc_meadows_filename, dict(common, participant=pn), shape, function='is_petname')
    # sweep: experiment names equal to other parts of the name, version 0, task names with a dash, relative directory with 'v_v'
    for shape in ('single-participant-single-task', 'single-participant-multi-task', 'multi-participant-single-task'):
        for exp in ('Meadows', '1D', 'v', 'tree9'):
            for version in (0, 7):
                for structure, ext in (('1D', 'mat'), ('tree', 'json')):
                    common = dict(shape=shape, exp=exp, version=version, structure=structure, ext=ext, dir='rel_dir/x_v_v2_y')
                    if shape == 'multi-participant-single-task':
                        for tn in ('multi-arrange', 'my-task2', 'v', 'Task10b'):
                            bd.check(orc_meadows_filename, dict(common, task_name=tn), shape, function='extract_filename_segments')
                    else:
                        for pn in PETS[4:6]:
                            if shape == 'single-participant-single-task':
                                for ti in (2, 10, 100):
                                    bd.check(orc_meadows_filename, dict(common, participant=pn, task_index=ti), shape,
                                             function='extract_filename_segments')
                            else:
                                bd.check(orc_meadows_filename, dict(common, participant=pn), shape, function='is_petname')
    bd.done()
    bds.append(bd)

    bd = Bounded(run, 'C20/meadows-petname', 'C20/is_petname/oracle/meadows-petname',
                 f'{len(PETS)} adjective-animal names and {len(NOT_PETS)} other strings', function='is_petname')
    for nme in PETS:
        bd.check(orc_meadows_petname, dict(name=nme, expected=True), 'petname', function='is_petname')
    for nme in NOT_PETS:
        bd.check(orc_meadows_petname, dict(name=nme, expected=False), 'not-a-petname', function='is_petname')
    bd.done()
    bds.append(bd)

    nmax = 6 if thorough else 5
    bd = Bounded(run, 'C20/meadows-mat-single', 'C20/load_rdms/oracle/meadows-mat-single',
                 f'savemat files, 3..{nmax} stimuli in shuffled order (equal-length names; names of different length with extension; '
                 'names of different length without extension), sort False / True / default, 2 participants, task index 1, 3',
                 function='load_rdms')
    for n in range(3, nmax + 1):
        for kind, sext in (('equal-length', '.png'), ('equal-length', ''), ('ragged', '.png'), ('ragged', '')):
            for sort in (0, 1, 'default'):
                for seed in range(2 if thorough else 1):
                    case = dict(seed=seed + n, n_stim=n, names=kind, stim_ext=sext, sort=sort, exp='myExp', version=1,
                                participant=PETS[n % 2], task_index=(1, 3)[n % 2])
                    ic = 'ragged-names-without-extension' if (kind == 'ragged' and sext == '') else f'{kind}-names'
                    bd.check(orc_meadows_mat_single, case, ic, function='load_rdms_comps_mat')
    # sweep: typed values, other units, names whose alphabetical order is not the numerical one, extensions of different length,
    # two stimuli (one pair), more stimuli
    sweep_values = [('typed-values', dict(values='int')), ('typed-values', dict(values='int16')),
                    ('typed-values', dict(values='float32')), ('extreme-units', dict(scale=1e-12)), ('extreme-units', dict(scale=1e9))]
    for n in (3, 4, 6):
        for ic, extra in sweep_values:
            for sort in (0, 1, 'default'):
                case = dict(seed=n + 11, n_stim=n, names='ragged', stim_ext='.png', sort=sort, exp='myExp', version=1,
                            participant=PETS[2], task_index=2, **extra)
                bd.check(orc_meadows_mat_single, case, ic, function='load_rdms')
    for n, kind, sext, ic in [(n, 'numeric-strings', e, 'numeric-string-names') for n in (4, 6, 9) for e in ('.png', '', 'mixed')] + \
            [(n, 'ragged', 'mixed', 'extensions-of-different-length') for n in (3, 5)] + \
            [(2, 'equal-length', '.png', 'two-stimuli'), (2, 'ragged', '', 'two-stimuli')] + \
            [(n, 'many', '.png', 'many-stimuli') for n in ((12, 20, 40) if thorough else (12,))]:
        for sort in (0, 1, 'default'):
            case = dict(seed=n + 5, n_stim=n, names=kind, stim_ext=sext, sort=sort, exp='myExp', version=1,
                        participant=PETS[3], task_index=1)
            bd.check(orc_meadows_mat_single, case, ic, function='load_rdms')
    bd.done()
    bds.append(bd)

    bd = Bounded(run, 'C20/meadows-mat-multi', 'C20/load_rdms/oracle/meadows-mat-multi',
                 f'savemat files, 1..3 participants (alphabetical and other order), 3..{nmax} stimuli, 4 variable layouts (+ 2 where the rdmutv_* variables are stored in another participant order than the stimuli_* variables), '
                 'sort False / True / default; same stimulus order for all participants, and a class with a different order per '
                 'participant', function='load_rdms')
    part_sets = [['able-fly'], ['clean-koi', 'able-fly'], ['able-fly', 'clean-koi', 'cuddly-bunny'], ['wise-ox', 'sure-cat', 'able-fly']]
    for n in range(3, nmax + 1):
        for parts in part_sets:
            for li, layout in enumerate(('interleaved', 'stimuli-first', 'rdm-first', 'rdm-stim')):
                if not thorough and (li + n + len(parts)) % 2:
                    continue
                for sort in (0, 1, 'default'):
                    for kind in ('equal-length', 'ragged'):
                        case = dict(seed=n + li, n_stim=n, names=kind, sort=sort, exp='twoMa', version=2, participants=parts,
                                    task_name='arrangement', layout=layout)
                        bd.check(orc_meadows_mat_multi, case, 'single-participant-in-multi-file' if len(parts) == 1 else
                                 'same-stimulus-order', function='load_rdms_comps_mat')
    for n in (3, 5):
        for parts in part_sets[1:]:
            for layout in ('rdm-reversed', 'rdm-rotated'):
                for sort in (0, 1):
                    case = dict(seed=n, n_stim=n, names='equal-length', sort=sort, exp='twoMa', version=2, participants=parts,
                                task_name='arrangement', layout=layout)
                    bd.check(orc_meadows_mat_multi, case, 'value-variables-in-another-participant-order', function='load_rdms_comps_mat')
    for n in (3, 4):
        for parts in part_sets[1:3]:
            for sort in (0, 1):
                case = dict(seed=n, n_stim=n, names='equal-length', sort=sort, exp='twoMa', version=2, participants=parts,
                            task_name='arrangement', layout='interleaved', order_differs=True)
                bd.check(orc_meadows_mat_multi, case, 'stimulus-order-differs-between-participants', function='load_rdms_comps_mat')
    # sweep: typed values / units / numeric-string names / extensions of different length / more participants and stimuli, with
    # the same and with a different stimulus order per participant (there the loader permutes the vectors itself)
    five = ['wise-ox', 'sure-cat', 'able-fly', 'clean-koi', 'cuddly-bunny']
    sweep_multi = [('typed-values', dict(values='int')), ('typed-values', dict(values='int16')), ('typed-values', dict(values='float32')),
                   ('extreme-units', dict(scale=1e-12)), ('extreme-units', dict(scale=1e9)),
                   ('numeric-string-names', dict(names='numeric-strings')), ('numeric-string-names', dict(names='numeric-strings', stim_ext='')),
                   ('extensions-of-different-length', dict(names='ragged', stim_ext='mixed'))]
    for n in (3, 5):
        for parts in (part_sets[1], part_sets[3], five):
            for ic, extra in sweep_multi:
                for differs in (False, True):
                    for sort in (0, 1):
                        case = dict(dict(seed=n + 2, n_stim=n, names='equal-length', sort=sort, exp='twoMa', version=2,
                                         participants=parts, task_name='arrangement', layout='stimuli-first', order_differs=differs),
                                    **extra)
                        bd.check(orc_meadows_mat_multi, case, ic, function='load_rdms_comps_mat')
    for n in ((12, 20) if thorough else (12,)):
        for differs in (False, True):
            case = dict(seed=n, n_stim=n, names='many', sort=1, exp='twoMa', version=2, participants=five, task_name='arrangement',
                        layout='rdm-rotated', order_differs=differs)
            bd.check(orc_meadows_mat_multi, case, 'many-stimuli', function='load_rdms_comps_mat')
    if True:   # repaired in /repo fe233573 (was pending triage): two-stimuli-multi-participant
        for parts in part_sets[:3]:
            for sort in (0, 1):
                case = dict(seed=2, n_stim=2, names='equal-length', sort=sort, exp='twoMa', version=2, participants=parts,
                            task_name='arrangement', layout='interleaved')
                bd.check(orc_meadows_mat_multi, case, 'two-stimuli-multi-participant', function='load_rdms_comps_mat')
    bd.done()
    bds.append(bd)

    bd = Bounded(run, 'C20/meadows-json', 'C20/load_rdms/oracle/meadows-json',
                 f'json.dump files, 3..{nmax} stimuli, 7 task lists (info / other task types / entries without task meta / 1-3 '
                 'multiarrange tasks / one with other stimuli), sort False / True / default', function='load_rdms')
    task_lists = [['ma'], ['info', 'ma'], ['info', 'ma', 'ma'], ['ma', 'other', 'ma', 'info', 'ma'], ['nometa', 'ma', 'ma'],
                  ['info', 'ma', 'ma-other-stimuli', 'ma'], ['other', 'info', 'ma', 'ma']]
    for n in range(3, nmax + 1):
        for tl in task_lists:
            for sort in (0, 1, 'default'):
                for kind in ('equal-length', 'ragged'):
                    case = dict(seed=n, n_stim=n, names=kind, stim_ext='.png' if n % 2 else '', sort=sort, exp='twoMaTasks', version=1,
                                participant='informed-mole', tasks=tl)
                    bd.check(orc_meadows_json, case, 'with-mismatching-task' if 'ma-other-stimuli' in tl else
                             ('one-ma-task' if tl.count('ma') == 1 else 'several-ma-tasks'), function='load_rdms_comps_json')
    # sweep: whole-number values (a json writer stores 3, not 3.0), other units, key order inside the json objects, numeric-string
    # names, extensions of different length, two stimuli
    sweep_json = [('typed-values', dict(values='int')), ('typed-values', dict(values='float32')), ('extreme-units', dict(scale=1e-12)),
                  ('extreme-units', dict(scale=1e9)), ('json-key-order', dict(key_order='reversed')),
                  ('numeric-string-names', dict(names='numeric-strings')), ('numeric-string-names', dict(names='numeric-strings', stim_ext='')),
                  ('extensions-of-different-length', dict(stim_ext='mixed')), ('two-stimuli', dict(n_stim=2, names='equal-length'))]
    for n in (3, 5):
        for tl in (task_lists[0], task_lists[3], task_lists[5]):
            for ic, extra in sweep_json:
                for sort in (0, 1):
                    case = dict(dict(seed=n + 1, n_stim=n, names='ragged', stim_ext='.png', sort=sort, exp='twoMaTasks', version=1,
                                     participant='informed-mole', tasks=tl), **extra)
                    bd.check(orc_meadows_json, case, ic, function='load_rdms_comps_json')
    bd.done()
    bds.append(bd)

    bd = Bounded(run, 'C20/meadows-sequence', 'C20/load_rdms/oracle/meadows-sequence',
                 'call sequences: two files of the same name and shape with different content in two directories (single-participant '
                 'mat, multi-participant mat, json) loaded alternately, sorted / unsorted / default; 3..5 stimuli x 3 kinds of names',
                 function='load_rdms')
    for kind in ('mat-single', 'mat-multi', 'json'):
        for n in (3, 4, 5):
            for names in ('equal-length', 'ragged', 'numeric-strings'):
                bd.check(orc_meadows_sequence, dict(kind=kind, seed=n, n_stim=n, names=names), 'call-sequence', function='load_rdms')
    bd.done()
    bds.append(bd)

    bd = Bounded(run, 'C20/meadows-unsupported', 'C20/load_rdms/oracle/meadows-unsupported',
                 '6 kinds of files the loader documents as unsupported', exhaustive=True, function='load_rdms')
    for kind in ('multi-participant-json', 'single-task-json', 'json-without-task-list', 'csv', 'mat-missing-rdmutv',
                 'mat-missing-stimuli'):
        bd.check(orc_meadows_unsupported, dict(kind=kind), kind, function='load_rdms')
    bd.done()
    bds.append(bd)

    # ---------------- design matrix ----------------
    trs = [0.8, 1.0, 1.5, 2.0, 2.5] if thorough else [1.0, 1.5, 2.0]
    durs = [0.5, 1.0, 3.0, 10.0] if thorough else [1.0, 3.0]
    bd = Bounded(run, 'C20/design-matrix', 'C20/make_design_matrix/oracle/design-matrix',
                 f'seeded event tables: 1..4 conditions x 2-3 repetitions, TR in {trs}, block duration in {durs}, interleaved / blocked '
                 '/ random order, string / int labels, confounds none / 0..5 columns of which 0..3 contain n/a in the first volume, '
                 'extra volumes after the design; 26 sweep variants (integer / float32 tables, 0/1 outlier columns, confounds scaled by '
                 '1e-26..1e12, TR int, unbalanced, single events, 6-10 conditions, single confound, n/a in other volumes, other row '
                 'labels / columns), each with the call repeated', function='make_design_matrix')
    cf_specs = [(None, []), (0, []), (2, []), (3, [1]), (5, [0, 2, 4]), (2, [0, 1])]
    seed = 0
    for tr in trs:
        for dur in durs:
            for n_cond in (1, 2, 3, 4):
                for ci, (n_cf, nan_cols) in enumerate(cf_specs):
                    if not thorough and (n_cond + ci + seed) % 2:
                        seed += 1
                        continue
                    seed += 1
                    order = ('interleaved', 'blocked', 'random')[seed % 3]
                    case = dict(seed=seed, n_cond=n_cond, n_rep=2 + seed % 2, tr=tr, dur=dur, order=order,
                                labels='int' if seed % 4 == 0 else 'str', n_cf=n_cf, nan_cols=nan_cols,
                                extra_vols=(0, 7)[seed % 2], sort_by_onset=bool(seed % 5))
                    ic = 'no-confounds' if n_cf is None else ('confounds-with-na-columns' if nan_cols else 'complete-confounds')
                    bd.check(orc_design_matrix, case, ic, function='make_design_matrix')
    for seed in range(3):
        case = dict(seed=900 + seed, n_cond=3, n_rep=3, tr=2.0, dur=1.0, order='random', labels='str', n_cf=3, nan_cols=[2],
                    mixed_durations=True)
        bd.check(orc_design_matrix, case, 'mixed-durations', function='make_design_matrix')
    # sweep: typed tables (integer onsets / durations, float32 / integer confounds, 0/1 outlier columns), confounds in other units,
    # TR as int / volumes as numpy integer, unbalanced designs, a single event per condition, 6-10 conditions, a single confound,
    # n/a in the last / a middle volume, other row labels, further columns, the same call twice
    base = dict(n_cond=3, n_rep=2, tr=2.0, dur=1.0, order='random', labels='str', n_cf=3, nan_cols=[1], twice=True)
    sweep_design = [
        ('typed-tables', dict(int_times=True)), ('typed-tables', dict(int_times=True, int_args=True, dur=3.0, labels='int')),
        ('typed-tables', dict(cf_dtype='float32')), ('typed-tables', dict(cf_dtype='int64', nan_cols=[])),
        ('typed-tables', dict(cf_dtype='int16', nan_cols=[], spikes=2)), ('typed-tables', dict(spikes=3, n_cf=0, nan_cols=[])),
        ('typed-tables', dict(int_args=True, tr=1.0)),
        ('confounds-in-extreme-units', dict(cf_scale=1e-15)), ('confounds-in-extreme-units', dict(cf_scale=1e-26, n_cf=5, nan_cols=[0])),
        ('confounds-in-extreme-units', dict(cf_scale=1e12)), ('confounds-in-extreme-units', dict(cf_scale=1e6, cf_dtype='float32')),
        ('unbalanced-design', dict(reps=[1, 4, 2])), ('unbalanced-design', dict(reps=[3, 1, 1, 2], n_cond=4, order='blocked')),
        ('unbalanced-design', dict(reps=[1, 1], n_cond=2, n_cf=None)), ('single-event-per-condition', dict(n_rep=1, n_cond=4)),
        ('single-event-per-condition', dict(n_rep=1, n_cond=1, n_cf=1, nan_cols=[])),
        ('many-conditions', dict(n_cond=6, n_rep=2)), ('many-conditions', dict(n_cond=10, n_rep=1, labels='int', order='interleaved')),
        ('many-conditions', dict(n_cond=8, reps=[2, 1, 3, 1, 2, 2, 1, 1])),
        ('single-confound', dict(n_cf=1, nan_cols=[])), ('single-confound', dict(n_cf=1, nan_cols=[0])),
        ('na-in-other-volumes', dict(n_cf=4, nan_cols=[0, 2], nan_pos='last')), ('na-in-other-volumes', dict(n_cf=3, nan_cols=[1], nan_pos='middle')),
        ('other-row-labels-and-columns', dict(index='shuffled')), ('other-row-labels-and-columns', dict(extra_cols=True)),
        ('other-row-labels-and-columns', dict(index='shuffled', extra_cols=True, sort_by_onset=False, n_cf=None)),
    ]
    for k, (ic, extra) in enumerate(sweep_design):
        for rep in range(3 if thorough else 1):
            case = dict(dict(base, seed=2000 + 10 * k + rep), **extra)
            if rep == 1:
                case.update(tr=1.5, extra_vols=5)
            if rep == 2:
                case.update(tr=0.8, dur=3.0)
            if case.get('int_args'):
                case['tr'] = float(max(1, int(case['tr'])))
            bd.check(orc_design_matrix, case, ic, function='make_design_matrix')
    if True:   # repaired in /repo 598bac6b (was pending triage): impulse-events-duration-0
        for dur in (0.0, 0.05):
            for seed in range(2):
                case = dict(seed=2500 + seed, n_cond=2, n_rep=2, tr=2.0, dur=dur, order='random', labels='str', n_cf=None, nan_cols=[])
                bd.check(orc_design_matrix, case, 'impulse-events-duration-0', function='make_design_matrix')
    bd.done()
    bds.append(bd)

    bd = Bounded(run, 'C20/design-noninterference', 'C20/make_design_matrix/oracle/design-noninterference',
                 f'2..4 conditions, TR in {trs}, shifting the onsets of the other conditions by 2.5 s and adding 2 confounds',
                 function='make_design_matrix')
    seed = 0
    for tr in trs:
        for n_cond in (2, 3, 4):
            seed += 1
            bd.check(orc_design_noninterference, dict(seed=seed, n_cond=n_cond, n_rep=2, tr=tr, dur=1.0, n_cf=2, nan_cols=[]),
                     'generic', function='make_design_matrix')
    bd.done()
    bds.append(bd)

    # ---------------- SPM ----------------
    run_structs = [([3], [1]), ([4], [2]), ([3, 4], [1, 2]), ([5, 5], [2, 2]), ([4, 6, 5], [1, 3, 2]), ([6, 3], [2, 0])]
    if thorough:
        run_structs += [([8, 8, 8, 8], [3, 3, 3, 3]), ([2, 7], [1, 4]), ([10], [5]), ([5, 4, 3, 6], [0, 2, 1, 3])]
    bd = Bounded(run, 'C20/spm-filter', 'C20/SpmGlm.spm_filter/oracle/spm-filter',
                 f'{len(run_structs)} run structures (1..4 runs of 2..10 scans), orthonormal filter bases with 0..5 columns, '
                 '1..3 voxels, seeds 0..%d; generic data, data already orthogonal to the filters, runs without filter columns'
                 % (2 if thorough else 1), function='SpmGlm.spm_filter')
    for seed in range(3 if thorough else 2):
        for nscans, ks in run_structs:
            for P in (1, 3):
                bd.check(orc_spm_filter, dict(seed=seed, nscans=nscans, ks=ks, P=P, mode='generic'), 'nonzero-filter',
                         function='SpmGlm.spm_filter')
                bd.check(orc_spm_filter, dict(seed=seed, nscans=nscans, ks=ks, P=P, mode='data-orthogonal-to-filter'),
                         'data-orthogonal-to-filter', function='SpmGlm.spm_filter')
                bd.check(orc_spm_filter, dict(seed=seed, nscans=nscans, ks=[0] * len(ks), P=P, mode='generic'),
                         'no-filter-regressors', function='SpmGlm.spm_filter')
    # sweep: data in other units (compared RELATIVE to the size of the data), float32 data, memory layouts, call sequences
    # (another GLM object of the same directory and run structure with other bases, the same call twice, held results)
    sweep_spm = [('extreme-units', dict(scale=1e-12)), ('extreme-units', dict(scale=1e-26)), ('extreme-units', dict(scale=1e6)),
                 ('extreme-units', dict(scale=1e12)), ('typed-data', dict(dtype='float32')), ('typed-data', dict(dtype='float32', scale=1e-9)),
                 ('memory-layout', dict(layout='F')), ('memory-layout', dict(layout='strided')), ('call-sequence', dict(sequence=True))]
    for nscans, ks in run_structs[2:6] + (run_structs[6:] if thorough else []):
        for ic, extra in sweep_spm:
            for mode in ('generic', 'data-orthogonal-to-filter'):
                bd.check(orc_spm_filter, dict(dict(seed=5, nscans=nscans, ks=ks, P=3, mode=mode, sequence=True), **extra), ic,
                         function='SpmGlm.spm_filter')
    if True:   # repaired in /repo 45fbf0df (was pending triage): integer-typed-data
        for nscans, ks in run_structs[2:5]:
            for dt in ('int16', 'int32', 'uint8'):
                bd.check(orc_spm_filter, dict(seed=5, nscans=nscans, ks=ks, P=3, mode='generic', dtype=dt), 'integer-typed-data',
                         function='SpmGlm.spm_filter')
    bd.done()
    bds.append(bd)

    bd = Bounded(run, 'C20/spm-residuals', 'C20/SpmGlm.get_residuals/oracle/spm-residuals',
                 'fake nitools; run structures of 2-3 runs of 6..9 scans, 1-2 regressors per run + constants, 2 voxels, weight '
                 'identity / random; generic data and data already orthogonal to the filters', function='SpmGlm.get_residuals')
    for seed in range(3 if thorough else 2):
        for nscans, ks in (([6, 7], [2, 2]), ([8, 6, 9], [1, 2, 3])):
            for nreg in (1, 2):
                for weight in ('identity', 'random'):
                    bd.check(orc_spm_residuals, dict(seed=seed, nscans=nscans, ks=ks, P=2, nreg=nreg, weight=weight, mode='generic'),
                             'nonzero-filter', function='SpmGlm.get_residuals')
                bd.check(orc_spm_residuals, dict(seed=seed, nscans=nscans, ks=ks, P=2, nreg=nreg, weight='identity',
                                                 mode='data-orthogonal-to-filter'), 'data-orthogonal-to-filter',
                         function='SpmGlm.get_residuals')
    # sweep: raw data as the scanner / nibabel deliver them (int16, float32) and in other units; equal-length runs with different bases
    for nscans, ks in (([6, 7], [2, 2]), ([7, 7, 7], [1, 2, 3])):
        for ic, extra in (('typed-data', dict(dtype='int16')), ('typed-data', dict(dtype='float32')), ('typed-data', dict(dtype='uint8')),
                          ('extreme-units', dict(scale=1e-12)), ('extreme-units', dict(scale=1e9))):
            for weight in ('identity', 'random'):
                bd.check(orc_spm_residuals, dict(dict(seed=7, nscans=nscans, ks=ks, P=2, nreg=2, weight=weight, mode='generic'), **extra),
                         ic, function='SpmGlm.get_residuals')
    bd.done()
    bds.append(bd)

    bd = Bounded(run, 'C20/spm-mat-file', 'C20/SpmGlm.get_info_from_spm_mat/oracle/spm-mat-file',
                 'SPM.mat written with savemat: 2-3 runs of 4..7 scans, filter bases with 2-3 columns, 1-3 conditions, posix / windows '
                 'raw data paths', function='SpmGlm.get_info_from_spm_mat')
    for seed in range(2):
        for nscans, ks in (([5, 6], [2, 2]), ([4, 7, 5], [2, 3, 2])):
            for conds in (['A'], ['face', 'house'], ['c1', 'c2', 'c3']):
                for win in (False, True):
                    bd.check(orc_spm_mat_file, dict(seed=seed, nscans=nscans, ks=ks, P=2, conds=conds, windows=win),
                             'windows-paths' if win else 'posix-paths', function='SpmGlm.get_info_from_spm_mat')
    # sweep: ten and more runs (two-digit run numbers in 'Sn(12) ...'), equal-length runs, condition names that look like other parts
    for nr in (10, 12):
        for conds in (['A'], ['Sn', 'bf', 'constantx']):
            bd.check(orc_spm_mat_file, dict(seed=nr, nscans=[4] * nr, ks=[2] * nr, P=2, conds=conds, windows=False),
                     'ten-or-more-runs', function='SpmGlm.get_info_from_spm_mat')
    if False:  # NOT a C20 clause (dropped after triage: get_info_from_spm_mat is not among the functions the statement covers): single-run-spm-mat
        for conds in (['A'], ['face', 'house']):
            bd.check(orc_spm_mat_file, dict(seed=1, nscans=[6], ks=[2], P=2, conds=conds, windows=False), 'single-run-spm-mat',
                     function='SpmGlm.get_info_from_spm_mat')
    if False:  # NOT a C20 clause (dropped after triage: regressor names of get_info_from_spm_mat are outside the statement): condition-name-with-space
        bd.check(orc_spm_mat_file, dict(seed=1, nscans=[5, 6], ks=[2, 2], P=2, conds=['left hand', 'b'], windows=False),
                 'condition-name-with-space', function='SpmGlm.get_info_from_spm_mat')
    bd.done()
    bds.append(bd)

    bd = Bounded(run, 'C20/spm-relocate', 'C20/SpmGlm.relocate_file/oracle/spm-relocate',
                 '3 GLM directories x 3 old project roots (posix, windows, with spaces) x 2 tails x 2 volume indices',
                 exhaustive=True, function='SpmGlm.relocate_file')
    for glm_dir in ('/path/glm_firstlevel', '/home/user/my proj/glm', '/a/b'):
        for old_root, win in (('/Users/jdoe/DoeLab Dropbox/the_proj', False), ('c:\\bla\\dip', True), ('/bla/dip', False)):
            for tail in (['func', 'abc.nii'], ['func', 'sub-01', 'uas01_run01.nii']):
                for index in (',1  ', ',212  '):
                    bd.check(orc_spm_relocate, dict(glm_dir=glm_dir, old_root=old_root, windows=win, tail=tail, index=index),
                             'windows' if win else 'posix', function='SpmGlm.relocate_file')
    # sweep: 'func' again further down the path (file names such as func_run1.nii, a func directory inside func)
    for tail in (['func', 'func_run1.nii'], ['func', 'sub-01', 'func', 'sub-01_task-func_bold.nii']):
        for old_root, win in (('/bla/dip', False), ('c:\\bla\\dip', True)):
            bd.check(orc_spm_relocate, dict(glm_dir='/path/glm_firstlevel', old_root=old_root, windows=win, tail=tail, index=',3  '),
                     'func-repeated-in-tail', function='SpmGlm.relocate_file')
    if False:  # NOT a C20 clause (dropped after triage: relocate_file is outside the statement): old-root-contains-func
        for old_root, win in (('/data/functional/proj', False), ('d:\\func_lab\\proj', True)):
            bd.check(orc_spm_relocate, dict(glm_dir='/path/glm_firstlevel', old_root=old_root, windows=win, tail=['func', 'abc.nii'],
                                            index=',1  '), 'old-root-contains-func', function='SpmGlm.relocate_file')
    bd.done()
    bds.append(bd)

    # ---------------- environment ----------------
    hashseeds = [1, 2, 3, 99, 4242] if thorough else [1, 4242]
    vals = BIDS_FAMILIES['own-key-letters']
    full = dict(vals, ext='nii.gz')
    jobs = [
        ['C20/bids-lookups', dict(ents=full, sibs=BIDS_SIBS)],
        ['C20/bids-lookups', dict(ents=dict(BIDS_FAMILIES['value-is-other-key'], ext='nii', ses=None, space=None), sibs=BIDS_SIBS)],
        ['C20/bids-sequence', dict(ents=full, other=dict(BIDS_FAMILIES['camel'], ext='nii.gz'), sibs=BIDS_SIBS[:2])],
        ['C20/bids-files', dict(files=[dict(full, derivative='fmriprep', suffix='bold', desc='preproc'),
                                       dict(full, derivative='fmriprep', suffix='bold', desc='preproc', task='rest'),
                                       dict(full, derivative='fmriprep', suffix='bold', desc='preproc', sub='bobx'),
                                       dict(full, derivative='fmriprep', suffix='bold', desc='other', sub='bobx')],
                                desc='preproc', tasks=['rest', vals['task']])],
        ['C20/mne-bids-filename', dict(pairs=[[k, vals[k]] for k in ('desc', 'run', 'task', 'ses', 'sub')], suffix='epo.fif')],
        ['C20/mne-read-epochs', dict(seed=3, n_epochs=3, n_channels=2, n_times=3, pairs=[[k, vals[k]] for k in ('sub', 'run', 'task')],
                                     dir='/data/meg/sub-x')],
        ['C20/mne-epochs', dict(seed=5, n_epochs=4, n_channels=3, n_times=2, descriptors=dict(sub='01', filename='x_epo.fif', task='t'),
                                pass_descriptors=True, sequence=True)],
        ['C20/meadows-filename', dict(shape='multi-participant-single-task', exp='myExp', version=12, structure='1D', ext='mat',
                                      dir='/data/my.study/v1_downloads', task_name='arrangement')],
        ['C20/meadows-filename', dict(shape='single-participant-multi-task', exp='myExp', version=1, structure='tree', ext='json', dir='',
                                      participant=PETS[1])],
        ['C20/meadows-mat-single', dict(seed=9, n_stim=6, names='ragged', stim_ext='.png', sort=1, exp='myExp', version=1,
                                        participant=PETS[0], task_index=3)],
        ['C20/meadows-mat-multi', dict(seed=4, n_stim=5, names='ragged', sort=0, exp='twoMa', version=2,
                                       participants=['wise-ox', 'sure-cat', 'able-fly', 'clean-koi', 'cuddly-bunny'],
                                       task_name='arrangement', layout='rdm-rotated', order_differs=True)],
        ['C20/meadows-mat-multi', dict(seed=5, n_stim=4, names='numeric-strings', sort=1, exp='twoMa', version=2,
                                       participants=['wise-ox', 'sure-cat', 'able-fly'], task_name='arrangement', layout='stimuli-first')],
        ['C20/meadows-json', dict(seed=5, n_stim=5, names='ragged', stim_ext='.png', sort=1, exp='twoMaTasks', version=1,
                                  participant='informed-mole', tasks=['ma', 'other', 'ma', 'info', 'ma-other-stimuli', 'ma'])],
        ['C20/meadows-sequence', dict(kind='mat-multi', seed=4, n_stim=4, names='ragged')],
        ['C20/design-matrix', dict(seed=77, n_cond=5, n_rep=2, tr=2.0, dur=1.0, order='random', labels='str', n_cf=4, nan_cols=[1, 3])],
        ['C20/design-matrix', dict(seed=78, n_cond=8, reps=[2, 1, 3, 1, 2, 2, 1, 1], n_rep=1, tr=1.5, dur=3.0, order='random', labels='str',
                                   n_cf=None, nan_cols=[], sort_by_onset=False)],
        ['C20/spm-mat-file', dict(seed=1, nscans=[4, 7, 5], ks=[2, 3, 2], P=2, conds=['face', 'house', 'zebra', 'b2'], windows=False)],
        ['C20/spm-filter', dict(seed=2, nscans=[5, 5], ks=[2, 2], P=2, mode='generic')],
    ]
    bd = Bounded(run, 'C20/fresh-interpreter', 'C20/io/oracle/fresh-interpreter',
                 'new interpreters started with PYTHONHASHSEED in %s (this process runs under %s), each running %d cases of the '
                 'BIDS / MNE / Meadows / design-matrix / SPM oracles with string labels' %
                 (hashseeds, os.environ.get('PYTHONHASHSEED', 'unset'), len(jobs)), function='load_rdms')
    bd.check(orc_fresh_interpreter, dict(hashseeds=hashseeds, jobs=jobs), 'other-hash-seeds', function='load_rdms')
    bd.done()
    bds.append(bd)
    return bds
