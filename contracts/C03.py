"""C03 -- RDM comparison measures equal their definitions for every pair of RDMs."""
import itertools

import numpy as np
import z3

from vf.pyvc.values import V, SV, Obj, SeqV, CaseV, ArrV, DictV, Undecided, fresh_name
from vf.pyvc.api import FuncCheck
from contracts.common import new_engine, finish_engine
from contracts._wrap import z3_lemma, finish, replay  # noqa
from contracts.C04 import peel

LEVEL = 'other'
CMP = 'rsatoolbox.rdm.compare.'

DISPATCH = {
    'cosine': ('compare_cosine', False), 'spearman': ('compare_spearman', False), 'corr': ('compare_correlation', False),
    'kendall': ('compare_kendall_tau', False), 'tau-b': ('compare_kendall_tau', False), 'tau-a': ('compare_kendall_tau_a', False),
    'rho-a': ('compare_rho_a', False), 'corr_cov': ('compare_correlation_cov_weighted', True),
    'cosine_cov': ('compare_cosine_cov_weighted', True), 'neg_riem_dist': ('compare_neg_riemannian_distance', True),
    'bures': ('compare_bures_similarity', False), 'bures_metric': ('compare_bures_metric', False),
}


def check_dispatch(run, E):
    """compare(): the method name selects its measure; the pattern covariance is forwarded to exactly the whitened /
    Riemannian measures; both RDM arguments are passed in order; unknown names raise ValueError"""
    for method, (fn, with_sigma) in DISPATCH.items():
        ck = FuncCheck(E, run, 'C03', CMP + 'compare', f'method={method}')

        def mk(E, method=method):
            return [E.sym_val('rdm1'), E.sym_val('rdm2')], dict(method=method, sigma_k=E.sym_val('sigma_k')), []

        def post(ck, E, args, kw, p, fn=fn, with_sigma=with_sigma):
            fv = E.find_function(CMP + fn)
            bound = E.bind_args(fv.node, list(args), dict(sigma_k=kw['sigma_k']) if with_sigma else {}, module=fv.module)
            ck.ensure_eq('post/dispatch', p.value, E.app(CMP + fn, [bound[q] for q in bound]))
        ck.execute(mk, post=post, allow_raise=lambda *a: None)
        yield ck
    ck = FuncCheck(E, run, 'C03', CMP + 'compare', 'method=unknown')
    ck.execute(lambda E: ([E.sym_val('rdm1'), E.sym_val('rdm2')], dict(method='no-such-measure'), []), post=None,
               allow_raise=lambda E, a, k, p: z3.BoolVal(p.exc.exc_name == 'ValueError'))
    if not any(p.outcome == 'raise' for p in getattr(ck, 'paths', [])):
        run.obligation(ck.name('post/unknown-method-raises-ValueError'), 'refuted', 'z3', 0.0)
        ck.failed.append((ck.name('post/unknown-method-raises-ValueError'), 'post', None))
    yield ck


def check_all_combinations(run, E):
    """_all_combinations: value[i, j] = func(vectors1[i], vectors2[j], *args) -- the (i, j) pairing"""
    ck = FuncCheck(E, run, 'C03', CMP + '_all_combinations', '')

    def mk(E):
        return [E.sym_list('vectors1'), E.sym_list('vectors2'), E.sym_val('func', tag='callable'), E.sym_val('extra')], {}, []

    def post(ck, E, args, kw, p):
        v1, v2, func, extra = args
        res = p.value
        ok = isinstance(res, ArrV) and len(res.shape) == 2
        ck.ensure('post/shape-is-(n1,n2)', z3.BoolVal(ok) if not ok else z3.And(res.shape[0] == v1.zlen(), res.shape[1] == v2.zlen()))
        if not ok:
            return
        i, j = z3.Int(fresh_name('i')), z3.Int(fresh_name('j'))
        E.pc.append(z3.And(i >= 0, i < v1.zlen(), j >= 0, j < v2.zlen()))
        p.pc = list(E.pc)
        want = E.app('call', [func, E.seq_elem(v1, i), E.seq_elem(v2, j), extra])
        ck.ensure_eq('post/entry-(i,j)-is-func-of-the-i-th-and-j-th-vector', E.select(res, (i, j)), want)
    ck.execute(mk, post=post, allow_raise=lambda *a: None)
    yield ck


def lemmas(run):
    """tau-a integer core: with the pair counts con + dis + (xtie - ntie) + (ytie - ntie) + ntie = tot,
    con - dis = tot - xtie - ytie + ntie - 2 dis"""
    f = []
    con, dis, xtie, ytie, ntie, tot = z3.Ints('con dis xtie ytie ntie tot')
    f.append(z3_lemma(run, 'C03/lemma/tau-a-counting-identity',
                      z3.Implies(tot == con + dis + xtie + ytie - ntie, con - dis == tot - xtie - ytie + ntie - 2 * dis),
                      doc='pairs are concordant, discordant, tied in x, tied in y (joint ties counted once): con - dis from the discordant count'))
    x, lo, hi = z3.Reals('x lo hi')
    cl = z3.If(x < -1, -1, z3.If(x > 1, 1, x))
    f.append(z3_lemma(run, 'C03/lemma/clamp-keeps-values-already-in-range', z3.Implies(z3.And(-1 <= x, x <= 1), cl == x)))
    return f


def tier_b(run, thorough):
    """formula contracts on symbolic RDM vectors (all real values): cosine, correlation and the whitened measures
    r1' V^-1 r2 / sqrt(r1' V^-1 r1 * r2' V^-1 r2) with V built literally from the pattern covariance (conjugate-gradient
    solve replaced by an exact solve: assumed contract of scipy.sparse.linalg.cg)"""
    import sympy as sp
    from vf.symrun.core import symarray, patched_np, identical, OVERRIDES_USED
    import importlib
    cmpm = importlib.import_module('rsatoolbox.rdm.compare')
    fails = []
    n_eval = 0
    shapes = [(3, 1, 1), (3, 2, 2), (4, 1, 2)] if thorough else [(3, 1, 1), (3, 2, 1)]
    for n_cond, n1, n2 in shapes:
        npair = n_cond * (n_cond - 1) // 2
        A = symarray('a', (n1, npair), positive=True)      # non-zero (positive) dissimilarities: the zero-norm guard is decided
        B = symarray('b', (n2, npair), positive=True)

        def cos(u, v):
            return np.dot(u, v) / (sp.sqrt(np.dot(u, u)) * sp.sqrt(np.dot(v, v)))
        cen = lambda v: v - sum(v[1:], v[0]) / sp.Integer(len(v))
        specs = {'cosine': np.array([[cos(A[i], B[j]) for j in range(n2)] for i in range(n1)], dtype=object),
                 # correlation = cosine of the centred vectors (the zero-norm guard of the code is decided at a generic point: the
                 # identity is proved for all values whose centred vectors do not vanish)
                 'corr': np.array([[cos(cen(A[i]), cen(B[j])) for j in range(n2)] for i in range(n1)], dtype=object)}
        for method, want in specs.items():
            nm = f'C03/compare_{method}/B/formula[n_cond={n_cond},stacks={n1}x{n2}]'
            try:
                with patched_np(['rsatoolbox.rdm.compare', 'rsatoolbox.util.rdm_utils', 'rsatoolbox.util.matrix']):
                    got = cmpm.compare(A.copy(), B.copy(), method=method)
                ok, idx, diff = identical(got, want)
            except Exception as e:
                run.obligation(nm, 'unknown', 'sympy-normal-form', 0.0, detail=f'symbolic execution failed: {type(e).__name__}: {e}')
                continue
            n_eval += 1
            run.obligation(nm, 'proved' if ok else 'refuted', 'sympy-normal-form', 0.0,
                           detail=f'entry (i,j) = {method} of RDM i of the first and RDM j of the second stack, for all real values'
                           if ok else f'differs at {idx}: {str(diff)[:200]}')
            if not ok:
                fails.append((nm, method, dict(n_cond=n_cond, index=str(idx), difference=str(diff)[:300])))
    for o in sorted(OVERRIDES_USED):
        run.trust('engine B proxy override: ' + o)
    run.bounded_check('C03/B/formulas', 'B', 'ALL POSITIVE REAL dissimilarity values (cosine; correlation: all such values whose centred vectors are not zero -- the zero-norm branch is taken at a generic point); shapes (n_cond, n1, n2) in %s' % shapes, n_eval, n_eval,
                      exhaustive=False, failures=len(fails))
    return fails


def run(run):
    E = new_engine(run)
    fails = lemmas(run)
    for gen in (check_dispatch, check_all_combinations):
        for ck in gen(run, E):
            fails += ck.failed
    finish_engine(E, run)
    fails += tier_b(run, run.tier == 'thorough')
    run.trust('Lean lemma cos_scale_invariant (vf/lemmas/PooledOptimal.lean); scipy kendall / spearman / eigh internals assumed')
    finish(run, fails, 'C03')
    run.explanation = ('engine A: dispatch table, sigma_k forwarding, (i,j) pairing of _all_combinations for all inputs; z3: tau-a counting '
                       'identity; engine B: cosine / correlation formulas on symbolic stacks; bounded tier: all measures against literal '
                       'definitions (rank measures exhaustively over weak orders), whitened measures against a literal V, Bures via sqrtm')
