"""C13 -- missing dissimilarities are ignored consistently or rejected, never misaligned."""
import z3

from vf.pyvc.values import V, SV, Obj, SeqV, CaseV, ArrV, DictV, Undecided, fresh_name
from vf.pyvc.api import FuncCheck
from vf.pyvc.core import ufunc
from contracts.common import new_engine, finish_engine
from contracts._wrap import z3_lemma, finish, replay  # noqa

LEVEL = 'other'


def nd2(E, name):
    v = E.sym_val(name, tag='ndarray')
    v.shape = (z3.Int(f'n_{name}'), z3.Int(f'p_{name}'))
    return v


def truthy(E, v):
    return E.truth(v)


def check_parsers(run, E):
    """both NaN parsers: a normal return implies that EVERY row of BOTH inputs is missing exactly where row 0 of the
    first input is; the compacted outputs select by that mask; otherwise ValueError"""
    for qual, kind in (('rsatoolbox.util.rdm_utils._parse_nan_vectors', 'arrays'),
                       ('rsatoolbox.rdm.compare._parse_input_rdms', 'arrays'),
                       ('rsatoolbox.rdm.compare._parse_input_rdms', 'rdms')):
        ck = FuncCheck(E, run, 'C13', qual, kind)

        def mk(E, kind=kind):
            if kind == 'arrays':
                a, b = nd2(E, 'v1'), nd2(E, 'v2')
            else:
                a, b = E.sym_obj('rdm1', 'RDMs'), E.sym_obj('rdm2', 'RDMs')
            return [a, b], {}, []

        def vec(E, x):
            if isinstance(x, Obj):
                fv = E.find_method('RDMs', 'get_vectors')
                return E.app(fv.name, [x])
            return x

        def post(ck, E, args, kw, p):
            v1, v2 = vec(E, args[0]), vec(E, args[1])
            mask = E.app('invert', [E.app('numpy.isnan', [v1])])
            row0 = E.getitem(mask, 0)
            same1 = E.app('numpy.all', [E.app('cmp==', [mask, row0])])
            same2 = E.app('numpy.all', [E.app('cmp==', [E.app('invert', [E.app('numpy.isnan', [v2])]), row0])])
            # top-level clause of the property: returning normally => all rows of both inputs share the mask of row 0
            ck.ensure('post/returns-only-if-every-row-of-both-inputs-has-the-mask-of-row-0',
                      z3.And(E.truth(same1), E.truth(same2)))
            out1, out2, m = p.value
            a1 = getattr(out1, 'app', None)
            ck.ensure('post/first-output-is-compaction-by-the-mask', z3.BoolVal(a1 is not None and a1[0] == 'ndarray.reshape'))
            if a1 is not None and a1[0] == 'ndarray.reshape':
                ck.ensure_eq('post/first-output-selected-by-mask', a1[1][0], E.getitem(v1, mask))
        def allow(E, a, k, p):
            return z3.BoolVal(True) if p.exc.exc_name == 'ValueError' else None
        ck.execute(mk, post=post, allow_raise=allow)
        yield ck


def lemmas(run):
    """_mean contract: with weights w_r >= 0 restricted to the RDMs that have a value, the result lies between the
    smallest and largest available value (2-RDM instance over the reals)"""
    f = []
    x1, x2, w1, w2 = z3.Reals('x1 x2 w1 w2')
    m = (w1 * x1 + w2 * x2) / (w1 + w2)
    f.append(z3_lemma(run, 'C13/lemma/weighted-mean-lies-between-available-values',
                      z3.Implies(z3.And(w1 > 0, w2 > 0, x1 <= x2), z3.And(x1 <= m, m <= x2)),
                      doc='weighted NaN-aware mean (weights of missing entries removed) is a convex combination of the available values'))
    return f


def tier_b(run, thorough):
    """engine B: the real RDMs.mean / combine._mean on symbolic dissimilarities and symbolic positive weights with EVERY pattern
    of missing entries (the concrete float NaN marks a missing entry): for all real values the mean of pair j is
    sum_{r has a value} w_rj x_rj / sum_{r has a value} w_rj, NaN exactly where no RDM has a value; unweighted, one weight
    per RDM (array and rdm-descriptor name), one weight per entry; the caller's weights stay untouched"""
    import itertools
    import numpy as np
    import sympy as sp
    from vf.symrun.core import symarray, patched_np, identical, OVERRIDES_USED, guard
    from rsatoolbox.rdm import RDMs
    fails = []
    n_eval = 0
    nan = float('nan')
    shapes = [(2, 3), (3, 3)] + ([(4, 3)] if thorough else [])
    for (R, P) in shapes:
        X = symarray('x', (R, P))
        # column j of the stack gets the j-th family of missing-patterns; all subsets of RDMs occur over the columns/variants
        subsets = [set(c) for k in range(R + 1) for c in itertools.combinations(range(R), k)]
        variants = [subsets[i:i + P] for i in range(0, len(subsets), P)]
        for vi, cols in enumerate(variants):
            cols = cols + [set()] * (P - len(cols))
            D = X.copy()
            for j, miss in enumerate(cols):
                for r in miss:
                    D[r, j] = nan
            for wkind in ('none', 'per-rdm', 'per-rdm-descriptor', 'per-entry'):
                nm = f'C13/RDMs.mean/B/weighted-mean-over-the-available-entries[{R}x{P},missing-variant={vi},weights={wkind}]'
                with guard(run, nm):
                    if wkind == 'none':
                        W, arg = np.full((R, P), sp.Integer(1), dtype=object), None
                    elif wkind.startswith('per-rdm'):
                        w = symarray('w', R, positive=True)
                        W = np.repeat(w[:, None], P, axis=1)
                        arg = w.copy() if wkind == 'per-rdm' else 'wt'
                    else:
                        W = symarray('w', (R, P), positive=True)
                        arg = W.copy()
                    keep = None if arg is None or isinstance(arg, str) else arg.copy()
                    rd = RDMs.__new__(RDMs)
                    rd.dissimilarities = D.copy()
                    rd.n_rdm, rd.n_cond = R, 3
                    rd.descriptors, rd.dissimilarity_measure = {}, 'x'
                    rd.rdm_descriptors = {'index': list(range(R)), 'wt': symarray('w', R, positive=True)}
                    rd.pattern_descriptors = {'index': [0, 1, 2]}
                    with patched_np(['rsatoolbox.rdm.combine', 'rsatoolbox.rdm.rdms']):
                        from rsatoolbox.rdm.combine import _mean
                        got = _mean(rd.dissimilarities, rd.rdm_descriptors['wt'] if isinstance(arg, str) else arg)
                    want = []
                    for j in range(P):
                        have = [r for r in range(R) if r not in cols[j]]
                        want.append(nan if not have else sum(W[r, j] * X[r, j] for r in have) / sum(W[r, j] for r in have))
                    ok, idx, diff = identical(np.asarray(got, dtype=object), np.array(want, dtype=object))
                    bad = None if ok else f'differs at pair {idx}: {str(diff)[:200]}'
                    if bad is None and keep is not None:
                        ok2, idx2, _ = identical(arg, keep)
                        if not ok2:
                            bad = f'the weights array of the caller was modified at {idx2}'
                    n_eval += 1
                    run.obligation(nm, 'proved' if bad is None else 'refuted', 'sympy-normal-form', 0.0, detail=bad or
                                   'mean_j = sum over available r of w_rj x_rj / sum over available r of w_rj; NaN iff none available')
                    if bad:
                        fails.append((nm, '_mean', dict(case=nm, what=bad)))
    for o in sorted(OVERRIDES_USED):
        run.trust('engine B proxy override: ' + o)
    run.bounded_check('C13/B/weighted-mean', 'B', 'ALL REAL dissimilarities and ALL POSITIVE weights; stacks %s; every subset of RDMs '
                      'missing for some pair; 4 weight forms' % (shapes,), n_eval, n_eval, exhaustive=False, failures=len(fails))
    return fails


def tier_b_compare(run, thorough):
    """engine B: the real compare() on symbolic RDM vectors in which the SAME entries are missing (concrete float NaN) in every
    RDM of both stacks: for all positive real values of the other entries the result is the measure of the ENTRY-DELETED
    vectors -- cosine, and correlation (cosine of the vectors centred over the available entries; zero-norm branch decided at
    a generic point).  The central clause of the property, for all values at small shapes; the whitened measures (conjugate
    gradient) and larger shapes stay with the bounded tier."""
    import importlib
    import numpy as np
    import sympy as sp
    from vf.symrun.core import symarray, patched_np, identical, OVERRIDES_USED, guard
    cmpm = importlib.import_module('rsatoolbox.rdm.compare')
    fails = []
    n_eval = 0
    nan = float('nan')
    shapes = [(1, 1, 6, [2]), (2, 1, 6, [0, 4]), (1, 2, 6, [5])] + ([(2, 2, 6, [1, 2, 3]), (1, 1, 10, [0, 9]), (2, 1, 3, [1])] if thorough else [])

    def cos(u, v):
        return np.dot(u, v) / (sp.sqrt(np.dot(u, u)) * sp.sqrt(np.dot(v, v)))
    cen = lambda v: v - sum(v[1:], v[0]) / sp.Integer(len(v))
    for (n1, n2, P, miss) in shapes:
        A = symarray('a', (n1, P), positive=True)
        B = symarray('b', (n2, P), positive=True)
        A2, B2 = A.copy(), B.copy()
        for j in miss:
            A2[:, j] = nan
            B2[:, j] = nan
        keep = [j for j in range(P) if j not in miss]
        for method in ('cosine', 'corr'):
            nm = f'C13/compare/B/same-mask-equals-entry-deleted[{method},{n1}x{n2},entries={P},missing={miss}]'
            with guard(run, nm):
                with patched_np(['rsatoolbox.rdm.compare', 'rsatoolbox.util.rdm_utils', 'rsatoolbox.util.matrix']):
                    got = cmpm.compare(A2.copy(), B2.copy(), method=method)
                f = (lambda v: v) if method == 'cosine' else cen
                want = np.array([[cos(f(A[i][keep]), f(B[j][keep])) for j in range(n2)] for i in range(n1)], dtype=object)
                ok, idx, diff = identical(got, want)
                n_eval += 1
                run.obligation(nm, 'proved' if ok else 'refuted', 'sympy-normal-form', 0.0,
                               detail='compare of NaN-bearing stacks == measure of the entry-deleted vectors, all positive real values'
                               if ok else f'differs at {idx}: {str(diff)[:200]}')
                if not ok:
                    fails.append((nm, 'compare', dict(case=nm, what=f'differs at {idx}: {str(diff)[:200]}')))
    for o in sorted(OVERRIDES_USED):
        run.trust('engine B proxy override: ' + o)
    run.bounded_check('C13/B/compare-same-mask', 'B', 'ALL POSITIVE REAL dissimilarities; (stack sizes, entries, missing positions) in %s; '
                      'cosine and correlation' % (shapes,), n_eval, n_eval, exhaustive=False, failures=len(fails))
    return fails


def run(run):
    E = new_engine(run)
    fails = lemmas(run)
    for ck in check_parsers(run, E):
        fails += ck.failed
    finish_engine(E, run)
    for nm, fn, detail in tier_b(run, run.tier == 'thorough') + tier_b_compare(run, run.tier == 'thorough'):
        run.violation(nm, 'all-real-values', dict(obligation=nm, detail=detail), found_input=False,
                      what='engine-B identity refuted: ' + str(detail.get('what'))[:200])
    finish(run, fails, 'C13')
    run.explanation = ('engine A: both NaN parsers return only when all rows of both inputs share one mask (else ValueError), for all '
                       'inputs; bounded tier: entry-deleted equality for every measure / sigma_k, pooling, regression, mean, rescale')
