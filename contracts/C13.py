"""C13 -- missing dissimilarities are ignored consistently or rejected, never misaligned."""
import z3

from vf.pyvc.values import V, SV, Obj, SeqV, CaseV, ArrV, DictV, Undecided, fresh_name
from vf.pyvc.api import FuncCheck
from vf.pyvc.core import ufunc
from contracts.common import new_engine, finish_engine
from contracts._wrap import z3_lemma, finish, replay  # noqa

LEVEL = 'other'


def nd2(E, name):
    v = E.sym_val(name, tag='ndarray')
    v.shape = (z3.Int(f'n_{name}'), z3.Int(f'p_{name}'))
    return v


def truthy(E, v):
    return E.truth(v)


def check_parsers(run, E):
    """both NaN parsers: a normal return implies that EVERY row of BOTH inputs is missing exactly where row 0 of the
    first input is; the compacted outputs select by that mask; otherwise ValueError"""
    for qual, kind in (('rsatoolbox.util.rdm_utils._parse_nan_vectors', 'arrays'),
                       ('rsatoolbox.rdm.compare._parse_input_rdms', 'arrays'),
                       ('rsatoolbox.rdm.compare._parse_input_rdms', 'rdms')):
        ck = FuncCheck(E, run, 'C13', qual, kind)

        def mk(E, kind=kind):
            if kind == 'arrays':
                a, b = nd2(E, 'v1'), nd2(E, 'v2')
            else:
                a, b = E.sym_obj('rdm1', 'RDMs'), E.sym_obj('rdm2', 'RDMs')
            return [a, b], {}, []

        def vec(E, x):
            if isinstance(x, Obj):
                fv = E.find_method('RDMs', 'get_vectors')
                return E.app(fv.name, [x])
            return x

        def post(ck, E, args, kw, p):
            v1, v2 = vec(E, args[0]), vec(E, args[1])
            mask = E.app('invert', [E.app('numpy.isnan', [v1])])
            row0 = E.getitem(mask, 0)
            same1 = E.app('numpy.all', [E.app('cmp==', [mask, row0])])
            same2 = E.app('numpy.all', [E.app('cmp==', [E.app('invert', [E.app('numpy.isnan', [v2])]), row0])])
            # top-level clause of the property: returning normally => all rows of both inputs share the mask of row 0
            ck.ensure('post/returns-only-if-every-row-of-both-inputs-has-the-mask-of-row-0',
                      z3.And(E.truth(same1), E.truth(same2)))
            out1, out2, m = p.value
            a1 = getattr(out1, 'app', None)
            ck.ensure('post/first-output-is-compaction-by-the-mask', z3.BoolVal(a1 is not None and a1[0] == 'ndarray.reshape'))
            if a1 is not None and a1[0] == 'ndarray.reshape':
                ck.ensure_eq('post/first-output-selected-by-mask', a1[1][0], E.getitem(v1, mask))
        def allow(E, a, k, p):
            return z3.BoolVal(True) if p.exc.exc_name == 'ValueError' else None
        ck.execute(mk, post=post, allow_raise=allow)
        yield ck


def lemmas(run):
    """_mean contract: with weights w_r >= 0 restricted to the RDMs that have a value, the result lies between the
    smallest and largest available value (2-RDM instance over the reals)"""
    f = []
    x1, x2, w1, w2 = z3.Reals('x1 x2 w1 w2')
    m = (w1 * x1 + w2 * x2) / (w1 + w2)
    f.append(z3_lemma(run, 'C13/lemma/weighted-mean-lies-between-available-values',
                      z3.Implies(z3.And(w1 > 0, w2 > 0, x1 <= x2), z3.And(x1 <= m, m <= x2)),
                      doc='weighted NaN-aware mean (weights of missing entries removed) is a convex combination of the available values'))
    return f


def run(run):
    E = new_engine(run)
    fails = lemmas(run)
    for ck in check_parsers(run, E):
        fails += ck.failed
    finish_engine(E, run)
    finish(run, fails, 'C13')
    run.explanation = ('engine A: both NaN parsers return only when all rows of both inputs share one mask (else ValueError), for all '
                       'inputs; bounded tier: entry-deleted equality for every measure / sigma_k, pooling, regression, mean, rescale')
