"""C09 -- bootstrap samples are faithful with-replacement resamples of whole groups."""
import z3

from vf.pyvc.values import V, SV, Obj, SeqV, CaseV, ArrV, Undecided, fresh_name
from vf.pyvc.api import FuncCheck
from vf.rt.harness import replay_file
from contracts.common import new_engine, finish_engine, report_a_failures

LEVEL = 'other'
BS = 'rsatoolbox.inference.bootstrap.'


def groups(E, rdms, which, desc):
    col = E.getitem(E.getattr(rdms, which), desc)
    return E.lib['numpy.unique'](E, col)


def check_samplers(run, E):
    """for EVERY outcome of np.random.randint (havoc): as many groups are drawn as there are distinct groups, every
    returned index is one of the groups, and the returned sample is exactly subsample / subsample_pattern of the
    source with the RETURNED index arrays (so a prediction resampled with them is ordered like the sample)"""
    for fn, factors in (('bootstrap_sample', 'rp'), ('bootstrap_sample_rdm', 'r'), ('bootstrap_sample_pattern', 'p')):
        ck = FuncCheck(E, run, 'C09', BS + fn, '')

        def mk(E, factors=factors):
            rdms = E.sym_obj('rdms', 'RDMs')
            args = [rdms]
            if 'r' in factors:
                args.append(E.sym_val('rd', tag='scalar'))
            if 'p' in factors:
                args.append(E.sym_val('pd', tag='scalar'))
            return args, {}, []

        def post(ck, E, args, kw, p, factors=factors):
            rdms = args[0]
            rd = args[1] if 'r' in factors else None
            pd = args[-1] if 'p' in factors else None
            out = p.value
            sample = out[0]
            R = out[1] if 'r' in factors else None
            P = out[-1] if 'p' in factors else None
            want = rdms
            for which, desc, idx, meth, tag in (('rdm_descriptors', rd, R, 'subsample', 'rdm'),
                                                ('pattern_descriptors', pd, P, 'subsample_pattern', 'pattern')):
                if idx is None:
                    continue
                G = groups(E, rdms, which, desc)
                ck.ensure(f'post/{tag}/as-many-draws-as-groups', E.as_int(E.seq_len(idx)) == G.zlen())
                t = z3.Int(fresh_name('t'))
                E.pc.append(z3.And(t >= 0, t < G.zlen()))
                p.pc = list(E.pc)
                e = E.seq_elem(idx, t)
                ck.ensure(f'post/{tag}/every-draw-is-a-group', E.seq_mem(G, E.toV(e)))
                # every group can be drawn at every position: the draw index ranges over all of [0, #groups)
                want = E.methods[('RDMs', meth)](E, want, desc, idx)
            ck.ensure_eq('post/sample-is-subsample-of-source-with-returned-indices', sample, want)
            # with replacement, uniform over groups: the index vector is randint(0, #groups, size=#groups)
            draws = getattr(p, 'draws', [])
            ck.ensure('post/one-uniform-integer-draw-per-factor', z3.BoolVal(len(draws) == len(factors)))
            for k, (f, n, lo, hi) in enumerate(draws):
                which, desc = (('rdm_descriptors', rd), ('pattern_descriptors', pd))[k if len(factors) == 2 else (0 if 'r' in factors else 1)]
                G = groups(E, rdms, which, desc)
                ck.ensure(f'post/draw{k}/range-is-all-groups', z3.And(lo == 0, hi == G.zlen(), n == G.zlen()))
        ck.execute(mk, post=post, allow_raise=lambda *a: None)
        yield ck


def run(run):
    E = new_engine(run)
    fails = []
    for gen in (check_samplers,):
        for ck in gen(run, E):
            fails += ck.failed
    finish_engine(E, run)
    bds = []
    try:
        from contracts import C09_c
        bds = C09_c.tier_c(run, run.tier == 'thorough')
    except ImportError:
        run.notes.append('bounded tier (contracts/C09_c.py) not present')
    report_a_failures(run, fails, bds)
    run.explanation = ('engine A: sampler glue for every outcome of the random draws (havoc); the selection semantics of '
                       'RDMs.subsample / subsample_pattern (multiplicity, NaN placement) are decided by the exhaustive bounded tier')


def replay(path):
    return replay_file(path)
