"""C09 -- bootstrap samples are faithful with-replacement resamples of whole groups."""
import z3

from vf.pyvc.values import V, SV, Obj, SeqV, CaseV, ArrV, Undecided, fresh_name
from vf.pyvc.api import FuncCheck
from vf.rt.harness import replay_file
from contracts.common import new_engine, finish_engine, report_a_failures

LEVEL = 'other'
BS = 'rsatoolbox.inference.bootstrap.'


def groups(E, rdms, which, desc):
    col = E.getitem(E.getattr(rdms, which), desc)
    return E.lib['numpy.unique'](E, col)


def check_samplers(run, E):
    """for EVERY outcome of np.random.randint (havoc): as many groups are drawn as there are distinct groups, every
    returned index is one of the groups, and the returned sample is exactly subsample / subsample_pattern of the
    source with the RETURNED index arrays (so a prediction resampled with them is ordered like the sample)"""
    for fn, factors in (('bootstrap_sample', 'rp'), ('bootstrap_sample_rdm', 'r'), ('bootstrap_sample_pattern', 'p')):
        ck = FuncCheck(E, run, 'C09', BS + fn, '')

        def mk(E, factors=factors):
            rdms = E.sym_obj('rdms', 'RDMs')
            args = [rdms]
            if 'r' in factors:
                args.append(E.sym_val('rd', tag='scalar'))
            if 'p' in factors:
                args.append(E.sym_val('pd', tag='scalar'))
            return args, {}, []

        def post(ck, E, args, kw, p, factors=factors):
            rdms = args[0]
            rd = args[1] if 'r' in factors else None
            pd = args[-1] if 'p' in factors else None
            out = p.value
            sample = out[0]
            R = out[1] if 'r' in factors else None
            P = out[-1] if 'p' in factors else None
            want = rdms
            for which, desc, idx, meth, tag in (('rdm_descriptors', rd, R, 'subsample', 'rdm'),
                                                ('pattern_descriptors', pd, P, 'subsample_pattern', 'pattern')):
                if idx is None:
                    continue
                G = groups(E, rdms, which, desc)
                ck.ensure(f'post/{tag}/as-many-draws-as-groups', E.as_int(E.seq_len(idx)) == G.zlen())
                t = z3.Int(fresh_name('t'))
                E.pc.append(z3.And(t >= 0, t < G.zlen()))
                p.pc = list(E.pc)
                e = E.seq_elem(idx, t)
                ck.ensure(f'post/{tag}/every-draw-is-a-group', E.seq_mem(G, E.toV(e)))
                # every group can be drawn at every position: the draw index ranges over all of [0, #groups)
                want = E.methods[('RDMs', meth)](E, want, desc, idx)
            ck.ensure_eq('post/sample-is-subsample-of-source-with-returned-indices', sample, want)
            # with replacement, uniform over groups: the index vector is randint(0, #groups, size=#groups)
            draws = getattr(p, 'draws', [])
            ck.ensure('post/one-uniform-integer-draw-per-factor', z3.BoolVal(len(draws) == len(factors)))
            for k, (f, n, lo, hi) in enumerate(draws):
                which, desc = (('rdm_descriptors', rd), ('pattern_descriptors', pd))[k if len(factors) == 2 else (0 if 'r' in factors else 1)]
                G = groups(E, rdms, which, desc)
                ck.ensure(f'post/draw{k}/range-is-all-groups', z3.And(lo == 0, hi == G.zlen(), n == G.zlen()))
        ck.execute(mk, post=post, allow_raise=lambda *a: None)
        yield ck


def _self_rdms(E):
    """a symbolic RDMs object whose rdm_descriptors hold two generic columns ('index' and 'k'); the body of subsample /
    extract_dict treats every key alike (the key only selects the column), so 'k' stands for any descriptor name"""
    from vf.pyvc.values import DictV
    desc = E.sym_list('desc', etag='scalar')
    idx = E.sym_list('index', etag='scalar')
    fields = dict(rdm_descriptors=DictV({'index': idx, 'k': desc}), dissimilarities=E.sym_val('diss', tag='ndarray'),
                  descriptors=E.sym_val('descriptors'), pattern_descriptors=E.sym_val('pdesc'),
                  dissimilarity_measure=E.sym_val('measure', tag='scalar'), n_rdm=SV(desc.length, 'int'))
    return Obj(z3.Const('self', V), 'RDMs', fields=fields), desc, idx


def check_subsample(run, E, pid='C09'):
    """RDMs.subsample(by, value): the real nested loops are summarised as a concatenation of filters.  For ALL descriptor
    columns and ALL value lists.  Property level: every sampled RDM carries a drawn value; every RDM of a drawn group is
    present; dissimilarity rows and EVERY rdm descriptor are gathered by the same index sequence; all other fields are the
    source's.  Structural (the order is not part of the property, so these are `structure` obligations): one block per drawn
    value in draw order, block i holding the RDMs with descriptor value[i] each once in source order -- together with the
    property-level clauses this gives the exact multiplicity (each RDM once per draw of its group, groups kept together)."""
    E.inline.add('rsatoolbox.util.data_utils.extract_dict')
    for case in ('list', 'scalar'):
        ck = FuncCheck(E, run, pid, 'rsatoolbox.rdm.rdms.RDMs.subsample', f'value={case}')
        hold = {}

        def mk(E, case=case):
            self_, desc, idx = _self_rdms(E)
            value = E.sym_list('value', etag='scalar') if case == 'list' else E.sym_val('value', tag='scalar')
            hold.update(desc=desc, idx=idx, value=value)
            return [self_, 'k', value], {}, [idx.length == desc.length]

        def post(ck, E, args, kw, p, case=case):
            self_, _, value = args
            desc, idx = hold['desc'], hold['idx']
            n = desc.length
            res = p.value
            d = res.fields.get('dissimilarities') if isinstance(res, Obj) else None
            ok = (isinstance(d, SV) and d.app is not None and d.app[0] == 'getitem' and d.app[1][0] is self_.fields['dissimilarities']
                  and isinstance(d.app[1][1], tuple) and len(d.app[1][1]) == 2 and isinstance(d.app[1][1][0], SeqV)
                  and d.app[1][1][1] == slice(None, None, None))
            ck.ensure('post/dissimilarities-are-rows-of-the-source-selected-by-an-index-sequence', z3.BoolVal(bool(ok)), structure=True,
                      note=f'dissimilarities: {d!r}')
            if not ok:
                return
            sel = d.app[1][1][0]
            L = sel.zlen()
            t = z3.Int(fresh_name('t'))
            in_t = z3.And(t >= 0, t < L)
            st = E.as_int(E.seq_elem(sel, t))
            dt = E.toV(E.seq_elem(desc, st))
            ck.ensure('post/every-index-is-a-source-rdm', z3.Implies(in_t, z3.And(st >= 0, st < n)))
            if case == 'scalar':
                vz = E.toV(value)
                ck.ensure('post/every-sampled-rdm-carries-the-requested-value', z3.Implies(in_t, dt == vz))
                j = z3.Int(fresh_name('j'))
                pj = sel.inv(j) if sel.inv is not None else None
                ck.ensure('post/every-rdm-with-the-requested-value-is-present', z3.BoolVal(False) if pj is None else z3.Implies(
                    z3.And(j >= 0, j < n, E.toV(E.seq_elem(desc, j)) == vz),
                    z3.And(pj >= 0, pj < L, E.as_int(E.seq_elem(sel, pj)) == j)))
                t2 = z3.Int(fresh_name('t'))
                s2 = E.as_int(E.seq_elem(sel, t2))
                ck.ensure('post/each-once-in-source-order', z3.Implies(z3.And(in_t, t2 > t, t2 < L), s2 > st))
            else:
                bl = getattr(sel, 'blocks', None)
                ck.ensure('post/sample-is-one-block-per-drawn-value', z3.BoolVal(bl is not None), structure=True)
                if bl is None:
                    return
                m = value.length
                ck.ensure('post/one-block-per-draw', bl['n'] == z3.If(m > 0, m, 0), structure=True)
                # soundness: position t lies in some block q and carries value[q]
                q = z3.Int(fresh_name('q'))
                oq = bl['off'](q)
                lq = bl['blen'](q)
                in_block = z3.And(in_t, q >= 0, q < m, oq <= t, t < oq + lq)
                ck.ensure('post/every-position-lies-in-a-block', z3.Implies(in_t, z3.Exists([q], in_block)), structure=True)
                ck.ensure('post/every-sampled-rdm-carries-the-value-drawn-for-its-block',
                          z3.Implies(in_block, dt == E.toV(E.seq_elem(value, q))))
                # completeness: every RDM j of the group drawn at position i of `value` sits in block i
                i_, j = z3.Int(fresh_name('i')), z3.Int(fresh_name('j'))
                blocks_i = bl['block'](i_)
                oi = bl['off'](i_)
                goal = []
                for g, b in blocks_i:
                    pj = b.inv(j) if b.inv is not None else None
                    if pj is None:
                        goal.append(z3.BoolVal(False))
                        continue
                    pos = oi + pj
                    goal.append(z3.Implies(g, z3.And(pj >= 0, pj < b.zlen(), pos < L,
                                                     E.as_int(E.seq_elem(sel, pos)) == j)))
                ck.ensure('post/every-rdm-of-a-drawn-group-is-in-the-block-of-that-draw',
                          z3.Implies(z3.And(i_ >= 0, i_ < m, j >= 0, j < n,
                                            E.toV(E.seq_elem(desc, j)) == E.toV(E.seq_elem(value, i_))), z3.And(goal)))
                # blocks follow the draw order and members keep the source order, each once
                t2 = z3.Int(fresh_name('t'))
                s2 = E.as_int(E.seq_elem(sel, t2))
                ck.ensure('post/within-a-block-each-rdm-once-in-source-order',
                          z3.Implies(z3.And(in_block, t2 > t, t2 < oq + lq), s2 > st), structure=True)
                q2 = z3.Int(fresh_name('q'))
                ck.ensure('post/blocks-follow-the-draw-order',
                          z3.Implies(z3.And(q >= 0, q < q2, q2 < m), bl['off'](q) + bl['blen'](q) <= bl['off'](q2)), structure=True)
            # every rdm descriptor is gathered by the SAME index sequence
            rd = res.fields.get('rdm_descriptors')
            from vf.pyvc.values import DictV
            okd = isinstance(rd, DictV) and set(rd.d) == {'index', 'k'}
            ck.ensure('post/all-descriptor-keys-are-kept', z3.BoolVal(bool(okd)))
            if okd:
                for key, src in (('index', idx), ('k', desc)):
                    col = rd.d[key]
                    ck.ensure(f'post/descriptor-{key}-has-one-entry-per-sampled-rdm', E.as_int(E.seq_len(col)) == L)
                    ck.ensure(f'post/descriptor-{key}-is-gathered-by-the-same-indices',
                              z3.Implies(in_t, E.veq(E.seq_elem(E.as_seq(col), t), E.seq_elem(src, st))))
            for f in ('descriptors', 'pattern_descriptors', 'dissimilarity_measure'):
                ck.ensure_eq(f'post/{f}-are-the-sources', res.fields.get(f), self_.fields[f])
        ck.execute(mk, post=post, allow_raise=lambda *a: None)
        yield ck


def run(run):
    E = new_engine(run)
    fails = []
    for gen in (check_samplers, check_subsample):
        for ck in gen(run, E):
            fails += ck.failed
    finish_engine(E, run)
    # callee contracts: RDMs.subsample gathers every descriptor with extract_dict (contract generated by C10, discharged here too)
    from contracts import C10
    E10 = new_engine(run)
    for ck in C10.check_selection_helpers(run, E10, pid='C09', fns=(), gathers=True):
        fails += ck.failed
    finish_engine(E10, run)
    bds = []
    try:
        from contracts import C09_c
        bds = C09_c.tier_c(run, run.tier == 'thorough')
    except ImportError:
        run.notes.append('bounded tier (contracts/C09_c.py) not present')
    report_a_failures(run, fails, bds)
    run.explanation = ('engine A: sampler glue for every outcome of the random draws (havoc); the selection semantics of '
                       'RDMs.subsample / subsample_pattern (multiplicity, NaN placement) are decided by the exhaustive bounded tier')


def replay(path):
    return replay_file(path)
