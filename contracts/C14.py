"""C14 -- noise covariance is the pooled residual covariance; precision is its inverse."""
import itertools

import numpy as np
import z3

from vf.pyvc.values import V, SV, Obj, SeqV, CaseV, ArrV, Undecided, fresh_name
from vf.pyvc.api import FuncCheck
from vf.rt.harness import oracle, Bounded, replay_file, close
from contracts.common import new_engine, finish_engine, report_a_failures

LEVEL = 'other'
NZ = 'rsatoolbox.data.noise.'


# =====================================================================================================
# engine A: degrees of freedom, list / dof plumbing, inverse plumbing  (all inputs)
# =====================================================================================================
def nd(E, name, shape):
    v = E.sym_val(name, tag='ndarray')
    v.shape = tuple(shape)
    return v


def check_demean(run, E):
    for rank in (2, 3):
        ck = FuncCheck(E, run, 'C14', NZ + '_check_demean', f'{rank}-D')

        def mk(E, rank=rank):
            dims = [z3.Int(n) for n in ('d0', 'd1', 'd2')[:rank]]
            m = nd(E, 'matrix', dims)
            return [m], {}, [d >= 1 for d in dims]

        def post(ck, E, args, kw, p, rank=rank):
            m = args[0]
            out, dof = p.value
            if rank == 2:
                n = m.shape[0]
                # top-level clause (property): dof = observations - 1 (one mean removed per channel)
                ck.ensure('post/dof', E.as_int(dof) == n - 1)
                ck.ensure('post/shape', z3.BoolVal(out.shape is not None and len(out.shape) == 2 and z3.eq(out.shape[0], n)))
            else:
                C, P, R = m.shape
                # tensor (conditions x channels x repetitions): residuals around the per-condition means;
                # top-level clause (property): dof = observations - conditions = C*R - C
                ck.ensure('post/dof', E.as_int(dof) == C * R - C)
                sh = out.shape
                ck.ensure('post/shape', z3.And(sh[0] == C * R, sh[1] == P) if sh is not None and len(sh) == 2 else z3.BoolVal(False))
        ck.execute(mk, post=post, allow_raise=lambda *a: None)
        yield ck


def check_cov_list(run, E):
    """list branches: element i of the result is the single-input estimate of element i with its own dof"""
    for fn, callee, extra in (('cov_from_residuals', 'cov_from_residuals', []),
                              ('cov_from_measurements', 'cov_from_unbalanced', ['obs_desc']),
                              ('cov_from_unbalanced', 'cov_from_unbalanced', ['obs_desc'])):
        for dofcase in ('none', 'scalar', 'list'):
            ck = FuncCheck(E, run, 'C14', NZ + fn, f'list,dof={dofcase}')

            def mk(E, dofcase=dofcase, extra=extra):
                data = E.sym_val('inputs', tag='list')
                dof = None if dofcase == 'none' else (E.sym_int('dof') if dofcase == 'scalar' else E.sym_val('dofs', tag='list'))
                method = E.sym_val('method', tag='scalar')
                args = [data] + [E.sym_val('obs_desc', tag='scalar')] * len(extra)
                return args, dict(dof=dof, method=method), []

            def post(ck, E, args, kw, p, dofcase=dofcase, callee=callee, extra=extra):
                data = args[0]
                res = p.value
                ck.ensure('post/is-list', z3.BoolVal(isinstance(res, SeqV)))
                if not isinstance(res, SeqV):
                    return
                n = E.as_int(E.seq_len(data))
                ck.ensure('post/length', res.zlen() == n)
                i = z3.Int(fresh_name('li'))
                E.pc.append(z3.And(i >= 0, i < n))
                p.pc = list(E.pc)
                got = E.seq_elem(res, i)
                elem = E.app('getitem', [data, SV(i, 'int')])
                dof_i = None if dofcase == 'none' else (kw['dof'] if dofcase == 'scalar'
                                                       else E.app('getitem', [kw['dof'], SV(i, 'int')]))
                fv = E.find_function(NZ + callee)
                cargs = [elem] + list(args[1:])
                bound = E.bind_args(fv.node, cargs, dict(dof=dof_i, method=kw['method']), module=fv.module)
                want = E.app(NZ + callee, [bound[q] for q in bound])
                ck.ensure_eq('post/element-is-single-estimate-with-own-dof', got, want)
            ck.execute(mk, post=post, allow_raise=lambda *a: None)
            yield ck


def check_prec(run, E):
    """prec_from_*: every returned precision is inv(corresponding covariance)"""
    for fn, covfn, extra in (('prec_from_residuals', 'cov_from_residuals', []),
                             ('prec_from_measurements', 'cov_from_measurements', ['obs_desc']),
                             ('prec_from_unbalanced', 'cov_from_unbalanced', ['obs_desc'])):
        for cov_kind in ('list', '3d', '2d'):
            ck = FuncCheck(E, run, 'C14', NZ + fn, f'cov={cov_kind}')
            holder = {}

            def cov_define(E, cov_kind=cov_kind, covfn=covfn, holder=holder, **bound):
                r = E.app(NZ + covfn, [bound[q] for q in bound], tag='list' if cov_kind == 'list' else 'ndarray')
                if cov_kind == '3d':
                    r.shape = (z3.Int('n_cov'), z3.Int('p'), z3.Int('p'))
                    E.pc.append(r.shape[0] >= 0)
                elif cov_kind == '2d':
                    r.shape = (z3.Int('p'), z3.Int('p'))
                holder['cov'] = r
                return r
            from vf.pyvc.core import Contract
            E.contracts[NZ + covfn] = Contract(NZ + covfn, define=cov_define,
                                               doc='assumed here: result kind (list / 3-D / 2-D) by type case; value uninterpreted')

            def mk(E, extra=extra):
                data = E.sym_val('inputs')
                args = [data] + [E.sym_val('obs_desc', tag='scalar')] * len(extra)
                return args, dict(dof=E.sym_val('dof'), method=E.sym_val('method', tag='scalar')), []

            def post(ck, E, args, kw, p, cov_kind=cov_kind, holder=holder):
                cov = holder['cov']
                res = p.value
                if cov_kind == '2d':
                    ck.ensure_eq('post/inverse', res, E.app('numpy.linalg.inv', [cov]))
                    return
                n = E.as_int(E.seq_len(cov))
                i = z3.Int(fresh_name('pi'))
                E.pc.append(z3.And(i >= 0, i < n))
                p.pc = list(E.pc)
                want = E.app('numpy.linalg.inv', [E.app('getitem', [cov, SV(i, 'int')])])
                if cov_kind == 'list':
                    ck.ensure('post/is-list', z3.BoolVal(isinstance(res, SeqV)))
                    if isinstance(res, SeqV):
                        ck.ensure('post/length', res.zlen() == n)
                        ck.ensure_eq('post/inverse', E.seq_elem(res, i), want)
                else:
                    ck.ensure('post/is-array', z3.BoolVal(isinstance(res, ArrV)))
                    if isinstance(res, ArrV):
                        ck.ensure('post/shape', z3.And(*[a == b for a, b in zip(res.shape, cov.shape)]))
                        ck.ensure_eq('post/inverse', E.select(res, (i, None, None)), want)
            ck.execute(mk, post=post, allow_raise=lambda *a: None)
            del E.contracts[NZ + covfn]
            yield ck


def check_unbalanced_dof(run, E):
    """cov_from_unbalanced (single dataset): residuals around per-condition means; dof = n_obs - #conditions"""
    for dofcase in ('none', 'given'):
        ck = FuncCheck(E, run, 'C14', NZ + 'cov_from_unbalanced', f'single,dof={dofcase}')

        def mk(E, dofcase=dofcase):
            ds = E.sym_obj('dataset', 'Dataset')
            dof = None if dofcase == 'none' else E.sym_int('dof')
            return [ds, E.sym_val('obs_desc', tag='scalar')], dict(dof=dof, method=E.sym_val('method', tag='scalar')), []

        def post(ck, E, args, kw, p, dofcase=dofcase):
            ds, od = args
            app = getattr(p.value, 'app', None)
            ok = app is not None and app[0] == NZ + '_estimate_covariance'
            ck.ensure('post/delegates-to-estimator', z3.BoolVal(ok), structure=True)
            if not ok:
                return
            matrix, dof, method = app[1]
            n_obs = E.getattr(ds, 'measurements').shape[0]
            col = E.getitem(E.getattr(ds, 'obs_descriptors'), od)
            n_cond = E.lib['numpy.unique'](E, col).zlen()
            if dofcase == 'none':
                ck.ensure('post/dof-is-obs-minus-conditions', E.as_int(dof) == n_obs - n_cond)
            else:
                ck.ensure_eq('post/dof-forwarded', dof, kw['dof'])
            ck.ensure_eq('post/method-forwarded', method, kw['method'])
            # residual row t = row t - mean of its condition: measurements.copy() - means[inverse]
            from contracts.common import unique_inverse_model
            means = E.app('getitem', [E.app('rsatoolbox.data.computations.average_dataset_by', [ds, od]), 0])
            values, inverse = unique_inverse_model(E, col)
            want = E.binop('-', E.lib['ndarray.copy'](E, E.getattr(ds, 'measurements')), E.getitem(means, inverse))
            ck.ensure_eq('post/residuals-around-condition-means', matrix, want)
        ck.execute(mk, post=post, allow_raise=lambda E, a, k, p: z3.BoolVal(True) if p.exc.exc_name == 'AssertionError' else None)
        yield ck


# =====================================================================================================
# engine B: estimator formulas on symbolic residuals (all real values, bounded shapes)
# =====================================================================================================
def tier_b(run, thorough):
    import sympy as sp
    from vf.symrun.core import symarray, patched_np, identical, OVERRIDES_USED, witness, guard
    import rsatoolbox.data.noise as noise
    shapes = [(2, 2), (3, 2), (4, 3)] if thorough else [(2, 2), (3, 2)]
    n_eval = 0
    distinct = set()
    fails = []
    for (n, pch) in shapes:
        with guard(run, f'C14/B/symbolic-execution[{n}x{pch}]'):
            X = symarray('x', (n, pch))
            dof = sp.Symbol('dof', positive=True)
            with patched_np(['rsatoolbox.data.noise']):
                full = noise.cov_from_residuals(X.copy(), dof=dof, method='full')
                diag = noise.cov_from_residuals(X.copy(), dof=dof, method='diag')
                full_nat = noise.cov_from_residuals(X.copy(), method='full')
            Xc = X - np.mean(X, axis=0, keepdims=True)
            spec_full = np.dot(Xc.T, Xc) / dof
            spec_nat = np.dot(Xc.T, Xc) / sp.Integer(n - 1)
            for name, got, want in (('full', full, spec_full), ('diag', diag, np.diag(np.diag(spec_full))),
                                    ('full-natural-dof', full_nat, spec_nat)):
                ok, idx, diff = identical(got, want)
                n_eval += 1
                distinct.add((name, n, pch))
                nm = f'C14/_estimate_covariance/B/{name}[{n}x{pch}]'
                run.obligation(nm, 'proved' if ok else 'refuted', 'sympy-normal-form', 0.0,
                               detail=f'{name} == Xc^T Xc / dof on symbolic {n}x{pch} residuals' if ok else f'differs at {idx}: {diff}')
                if not ok:
                    fails.append((nm, name, dict(shape=[n, pch], index=str(idx), difference=str(diff))))
            # symmetry of every estimator output that is symbolic
            ok, idx, diff = identical(full, full.T)
            run.obligation(f'C14/_covariance_full/B/symmetric[{n}x{pch}]', 'proved' if ok else 'refuted', 'sympy-normal-form')
    # measurement-based vs unbalanced estimator on balanced designs (value identity given equal dof)
    from rsatoolbox.data import Dataset
    designs = [(2, 2, 2), (2, 3, 2), (3, 2, 2)] if thorough else [(2, 2, 2), (2, 3, 2)]
    for (C, R, P) in designs:
        with guard(run, f'C14/B/symbolic-execution[{C}x{R}x{P}]'):
            X = symarray('m', (C * R, P))
            labels = np.repeat(np.arange(C), R)
            ds = Dataset.__new__(Dataset)
            ds.measurements = X
            ds.n_obs, ds.n_channel = X.shape
            ds.obs_descriptors = {'cond': labels}
            ds.descriptors, ds.channel_descriptors = {}, {'index': np.arange(P)}
            dof = sp.Symbol('dof', positive=True)
            with patched_np(['rsatoolbox.data.noise', 'rsatoolbox.data.computations', 'rsatoolbox.data.dataset']):
                a = noise.cov_from_measurements(ds, 'cond', dof=dof, method='full')
                b = noise.cov_from_unbalanced(ds, 'cond', dof=dof, method='full')
            ok, idx, diff = identical(a, b)
            n_eval += 1
            distinct.add(('agree', C, R, P))
            nm = f'C14/cov_from_measurements/B/agrees-with-unbalanced-given-dof[{C}x{R}x{P}]'
            run.obligation(nm, 'proved' if ok else 'refuted', 'sympy-normal-form', 0.0,
                           detail='measurement-based == unbalanced (method full, same dof) on a symbolic balanced design')
            if not ok:
                fails.append((nm, 'agree', dict(design=[C, R, P], index=str(idx), difference=str(diff))))
    for o in sorted(OVERRIDES_USED):
        run.trust('engine B proxy override: ' + o)
    run.bounded_check('C14/B/formulas', 'B', 'all real residual values; shapes %s; balanced designs %s' % (shapes, designs),
                      n_eval, len(distinct), exhaustive=False, failures=len(fails))
    return fails


# =====================================================================================================
# tier C: numeric oracles (shrinkage, PSD, inverse, list plumbing, dof, agreement)
#
# dimension sweeps (keys of the case dicts; absent key = the plain float64 / unit-scale / list-container case):
#   dtype        residuals / measurements typed int64, int32, int16, uint8, float32: the estimate is the one of the same values as
#                float64 (the statement's covariance is a real-valued quantity; integer data must not truncate means / residuals)
#   scale        uniform positive unit change (1e-26 .. 1e+12): every estimate scales by scale**2 (full / diag by the statement;
#                the shrinkage estimates must stay convex combinations with intensity in [0,1], and -- unit invariance -- the same
#                ones as in unit scale: an absolute threshold on a variance-like quantity is what this guards against)
#   chscale      channels in different units (full / diag / shrinkage_diag rescale entry-wise; shrinkage_eye is judged in the scaled
#                domain relative to its largest entry)
#   const_channel / dup_channel / n == 1   zero-variance and perfectly correlated channels, a single residual row
#   labels, container, extra, dof          label types (str, non-contiguous / negative ints, floats, bool), descriptor containers
#                (list / ndarray / tuple), further descriptors present, dof passed in -- for the dataset based estimators
#   container / dofcontainer / dofscalar   list / tuple / 3-D array of inputs, dof as list / tuple / ndarray, numpy / float scalars
#   call sequences (C14/sequence), environment (C14/hashseed)
# =====================================================================================================
_INT_DTYPES = ('int64', 'int32', 'int16', 'uint8')
METHODS = ('full', 'diag', 'shrinkage_eye', 'shrinkage_diag')


def _typed_units(X, case):
    """(Xin, Xu, norm, ne, Xe, tm) for the unit-scale float64 matrix X and the `dtype` / `scale` / `chscale` keys of the case:
    Xin   what is handed to the library (X in the case's dtype and units)
    Xu    EXACTLY the values of Xin as float64, in unit scale (the statement's covariance is computed from these)
    norm  p x p: covariance(Xin) == norm * covariance(Xu) entry-wise
    Xe,ne shrinkage_eye is not equivariant under per-channel units: it is judged on Xe = Xin / (largest unit), its estimate
          divided by the scalar ne (without chscale Xe == Xu and ne == scale**2)
    tm    tolerance multiplier (float32 input: the library may compute full / diag in float32)"""
    dt = case.get('dtype')
    scale = float(case.get('scale', 1.0))
    p = X.shape[1]
    ch = np.ones(p)
    if case.get('chscale') is not None:
        ch = np.array([case['chscale'][j % len(case['chscale'])] for j in range(p)], dtype=float)
    if dt in _INT_DTYPES:
        X = np.round(4 * X)
        if dt == 'uint8':
            X = np.clip(X + 100, 0, 255)
        if case.get('const_channel') is None and X.shape[0] > 1:
            X[0, np.ptp(X, axis=0) == 0] += 1         # rounding must not create a channel without variance (a class of its own)
        Xin = X.astype(dt)
        Xu = Xin.astype(np.float64)
        return Xin, Xu, np.ones((p, p)), 1.0, Xu, 1.0
    Xin = (X * scale * ch).astype(dt or 'float64')
    Xu = Xin.astype(np.float64) / scale / ch
    return Xin, Xu, scale ** 2 * np.outer(ch, ch), (scale * ch.max()) ** 2, Xu * (ch / ch.max()), (1e4 if dt == 'float32' else 1.0)


def _relabel(idx, kind, C):
    """condition indices 0..C-1 -> labels of the given kind (first-appearance order generally differs from sorted order)"""
    if kind in (None, 'int'):
        names = list(range(C))
    elif kind == 'str':
        names = ['b', 'c', 'a', 'cond10', 'cond9', 'B', '', 'zz'][:C]
    elif kind == 'gap':
        names = [10, -3, 7, 1000, 0, -1, 5, 2][:C]
    elif kind == 'float':
        names = [0.5, 1.5, -2.0, 0.25, 1e3, -0.125, 3.0, 7.5][:C]
    elif kind == 'bool':
        names = [True, False][:C]
    else:
        names = list(kind)
    if kind in ('str', 'gap', 'float'):
        names = names + [{'str': 'n%d' % i, 'gap': 2000 - 3 * i, 'float': 10.5 + i / 4}[kind] for i in range(max(0, C - len(names)))]
    assert len(names) >= C and len(set(names)) == len(names)
    return [names[i] for i in idx]


def _contain(lab, container):
    if container in (None, 'list'):
        return list(lab)
    if container == 'tuple':
        return tuple(lab)
    if container == 'ndarray':
        return np.array(lab)
    raise ValueError(container)


def _balanced_ds(rs, C, R, P, order='sorted'):
    from rsatoolbox.data import Dataset
    labels = np.repeat(np.arange(C), R)
    if order == 'shuffled':
        labels = labels[rs.permutation(C * R)]
    elif order == 'interleaved':
        labels = np.tile(np.arange(C)[::-1], R)
    X = rs.randn(C * R, P) + 3 * rs.randn(C, P)[labels]
    return Dataset(X, obs_descriptors={'cond': labels.tolist()}), X, labels


def _spec_cov(resid, dof):
    return resid.T @ resid / dof


def _sym_psd(name, Mx, tol=1.0):
    if not np.all(np.isfinite(Mx)):
        return f'{name}: estimate is not finite'
    if not close(Mx, Mx.T, 1e-10 * tol):
        return f'{name}: not symmetric'
    ev = np.linalg.eigvalsh((Mx + Mx.T) / 2)
    if ev.min() < -1e-8 * tol * max(1.0, ev.max()):
        return f'{name}: not positive semi-definite (min eigenvalue {ev.min()})'
    return None


def _judge(est, res, d, m, tol=1.0):
    """est (unit scale, float64) against the statement for method m, residual matrix res (already around its means), dof d"""
    n, p = res.shape
    S = _spec_cov(res, d)
    if m == 'full':
        return None if close(est, S, 1e-9 * tol) else f'full: not the residual covariance with dof={d}'
    if m == 'diag':
        return None if close(est, np.diag(np.diag(S)), 1e-9 * tol) else 'diag: not the diagonal of the residual covariance'
    r = _sym_psd(m, est, tol)
    if r:
        return r
    if m == 'shrinkage_eye':
        Sn = S * d / n
        mI = np.trace(Sn) / p * np.eye(p)
        A = est * d / n
        if not close(np.trace(A), np.trace(Sn), 1e-8 * tol):
            return 'shrinkage_eye: trace differs from the trace of the sample covariance (the target has equal trace)'
        den = np.sum((Sn - mI) ** 2)
        if den > 1e-12:
            lam = np.sum((Sn - A) * (Sn - mI)) / den
            if not (-1e-9 * tol <= lam <= 1 + 1e-9 * tol):
                return f'shrinkage_eye: shrinkage intensity {lam} outside [0,1]'
            if not close(A, lam * mI + (1 - lam) * Sn, 1e-8 * tol):
                return 'shrinkage_eye: not a convex combination of the sample covariance and the scaled identity'
        return None
    if not close(np.diag(est), np.diag(S), 1e-9 * tol):
        return 'shrinkage_diag: diagonal differs from the sample variances'
    off = ~np.eye(p, dtype=bool)
    den = np.sum(S[off] ** 2)
    if den > 1e-12:
        lam = 1 - np.sum(est[off] * S[off]) / den
        if not (-1e-9 * tol <= lam <= 1 + 1e-9 * tol):
            return f'shrinkage_diag: shrinkage intensity {lam} outside [0,1]'
        if not close(est[off], (1 - lam) * S[off], 1e-8 * tol):
            return 'shrinkage_diag: off-diagonals are not a common multiple (1-lambda) of the sample covariances'
    return None


@oracle('C14/estimators')
def orc_estimators(case):
    import rsatoolbox.data.noise as noise
    rs = np.random.RandomState(case['seed'])
    n, p = case['n'], case['p']
    X = rs.randn(n, p) @ (np.eye(p) + 0.5 * rs.randn(p, p))
    if case.get('squarewave'):
        X = np.sign(rs.randn(n, 1)) * np.ones((1, p)) + 1e-3 * rs.randn(n, p)
    if case.get('const_channel') is not None:
        X[:, case['const_channel']] = 2.0
    if case.get('dup_channel') is not None:
        X[:, case['dup_channel'][1]] = X[:, case['dup_channel'][0]]
    X, Xu, norm, ne, Xe, tm = _typed_units(X, case)
    keep = X.copy()
    dof = case.get('dof')
    Xc = Xu - Xu.mean(0, keepdims=True)
    d = (n - 1) if dof is None else dof
    S = _spec_cov(Xc, d)
    raw = {}
    for m in METHODS:
        raw[m] = noise.cov_from_residuals(X, dof=dof, method=m)
        if not (np.array_equal(X, keep) and X.dtype == keep.dtype):
            return f'{m}: input array was modified'
        if not (isinstance(raw[m], np.ndarray) and raw[m].shape == (p, p)):
            return f'{m}: estimate is not a {p}x{p} array'
    held = {m: raw[m].copy() for m in METHODS}
    out = {m: np.asarray(raw[m], dtype=np.float64) / (ne if m == 'shrinkage_eye' else norm) for m in METHODS}
    if not close(out['full'], S, 1e-9 * tm):
        return f'full: not the residual covariance with dof={d}'
    if not close(out['diag'], np.diag(np.diag(S)), 1e-9 * tm):
        return 'diag: not the diagonal of the full estimate'
    # shrinkage_eye: convex combination of S_n (scaled) with m*I ; shrinkage_diag: off-diagonals scaled by (1-lambda)
    Xec = Xe - Xe.mean(0, keepdims=True)
    Sn = Xec.T @ Xec / n
    mI = np.trace(Sn) / p * np.eye(p)
    A = out['shrinkage_eye'] * d / n
    den = np.sum((Sn - mI) ** 2)
    lam_eye = lam_diag = None
    if den > 1e-12:
        lam = lam_eye = np.sum((Sn - A) * (Sn - mI)) / den
        if not (-1e-9 * tm <= lam <= 1 + 1e-9 * tm):
            return f'shrinkage_eye: shrinkage intensity {lam} outside [0,1]'
        if not close(A, lam * mI + (1 - lam) * Sn, 1e-8 * tm):
            return 'shrinkage_eye: not a convex combination of the sample covariance and the scaled identity'
    elif not close(A, Sn, 1e-5):
        return 'shrinkage_eye: the sample covariance equals its target (scaled identity of equal trace) but the estimate differs from it'
    B = out['shrinkage_diag']
    if not close(np.diag(B), np.diag(S), 1e-9 * tm):
        return 'shrinkage_diag: diagonal differs from the sample variances'
    off = ~np.eye(p, dtype=bool)
    den = np.sum(S[off] ** 2)
    if den > 1e-12:
        lam = lam_diag = 1 - np.sum(B[off] * S[off]) / den
        if not (-1e-9 * tm <= lam <= 1 + 1e-9 * tm):
            return f'shrinkage_diag: shrinkage intensity {lam} outside [0,1]'
        if not close(B[off], (1 - lam) * S[off], 1e-8 * tm):
            return 'shrinkage_diag: off-diagonals are not a common multiple (1-lambda) of the sample covariances'
    elif not close(B[off], 0 * S[off], 1e-5):
        return 'shrinkage_diag: the sample covariance is diagonal but the estimate has off-diagonal entries'
    for m, Mx in out.items():
        r = _sym_psd(m, Mx, tm)
        if r:
            return r
        # positive definite whenever shrinkage is active: min eigenvalue >= lambda * (smallest eigenvalue of the target)
        lam, floor = (lam_eye, np.trace(Sn) / p * n / d) if m == 'shrinkage_eye' else (lam_diag, np.diag(S).min())
        if m.startswith('shrinkage') and lam is not None and lam > 1e-6 and floor > 0:
            ev = np.linalg.eigvalsh((Mx + Mx.T) / 2)
            if ev.min() < lam * floor * (1 - 1e-6) - 1e-12 * ev.max():
                return (f'{m}: shrinkage is active (intensity {lam:.4g}) but the smallest eigenvalue {ev.min():.4g} is below '
                        f'intensity * smallest target eigenvalue {lam * floor:.4g}')
        if m.startswith('shrinkage') or n - 1 >= p:
            cond = np.linalg.cond(raw[m])
            if cond < 1e12:
                pr = noise.prec_from_residuals(X, dof=dof, method=m)
                if not np.array_equal(X, keep):
                    return f'{m}: prec_from_residuals modified its input'
                # float32 estimates are inverted in float32: the residual of the product grows with the condition number
                if not close(pr @ raw[m].astype(np.float64), np.eye(p), 1e-6 if tm == 1.0 else max(1e-4, 2e-6 * cond)):
                    return f'{m}: precision is not the inverse of the covariance'
    # unit / dtype invariance: the estimate for typed or re-scaled data is the one for the same values as float64 in unit scale
    if case.get('dtype') or case.get('scale') is not None:
        for m in METHODS:
            if m == 'shrinkage_eye' and case.get('chscale') is not None:
                continue
            ref = noise.cov_from_residuals(Xu.copy(), dof=dof, method=m)
            if not close(out[m], ref, 1e-7 * tm):
                dev = float(np.max(np.abs(out[m] - ref)) / max(np.max(np.abs(ref)), 1e-300))
                return (f'{m}: estimate for dtype={case.get("dtype") or "float64"} data in units of {case.get("scale", 1.0):g} is not '
                        f'scale**2 times the estimate for the same values as float64 in unit scale (relative deviation {dev:.3g})')
    # call sequence: the same call again gives the identical result, and results already handed out are unchanged
    for m in METHODS:
        again = noise.cov_from_residuals(X, dof=dof, method=m)
        if not np.array_equal(again, held[m]):
            return f'{m}: the same call a second time gave a different estimate'
        if not np.array_equal(raw[m], held[m]):
            return f'{m}: an estimate handed out earlier changed when the library was called again'
    return None


def _typed_dataset(X, lab, case):
    """Dataset for the unit-scale float64 measurements X with labels lab under the dtype / scale / container / extra keys of the
    case; returns (dataset, Xu: exactly its measurement values as float64 in unit scale, norm, tm)"""
    from rsatoolbox.data import Dataset
    Xin, Xu, norm, _, _, tm = _typed_units(X, {k: case.get(k) for k in ('dtype', 'scale') if case.get(k) is not None})
    obs = {'cond': _contain(lab, case.get('container'))}
    kw = {}
    if case.get('extra'):
        nobs, P = X.shape
        obs = {'run': [i % 2 for i in range(nobs)], 'cond': obs['cond'], 'trial': list(range(nobs))[::-1]}
        kw = dict(descriptors={'subj': 's01', 'session': 1}, channel_descriptors={'roi': ['v%d' % (j % 2) for j in range(P)]})
    return Dataset(Xin, obs_descriptors=obs, **kw), Xu, norm, tm


def _desc_snapshot(ds):
    import copy
    return copy.deepcopy((ds.descriptors, ds.obs_descriptors, ds.channel_descriptors))


def _desc_same(a, b):
    if type(a) is not type(b):
        return False
    if isinstance(a, (tuple, list)):
        return len(a) == len(b) and all(_desc_same(x, y) for x, y in zip(a, b))
    if isinstance(a, dict):
        return list(a.keys()) == list(b.keys()) and all(_desc_same(a[k], b[k]) for k in a)
    if isinstance(a, np.ndarray):
        return a.dtype == b.dtype and a.shape == b.shape and np.array_equal(a, b)
    return a == b


@oracle('C14/dataset-estimators')
def orc_dataset(case):
    import rsatoolbox.data.noise as noise
    rs = np.random.RandomState(case['seed'])
    C, R, P = case['C'], case['R'], case['P']
    ds, X, labels = _balanced_ds(rs, C, R, P, case.get('order', 'sorted'))
    norm, tm = np.ones((P, P)), 1.0
    if any(case.get(k) is not None for k in ('dtype', 'scale', 'labels', 'container', 'extra')):
        ds, X, norm, tm = _typed_dataset(X, _relabel(labels, case.get('labels'), C), case)
    keep = ds.measurements.copy()
    snap = _desc_snapshot(ds)
    resid = X - np.array([X[labels == c].mean(0) for c in range(C)])[labels]
    dof = case.get('dof')
    want_dof = C * R - C if dof is None else dof

    def untouched(what):
        if not (np.array_equal(ds.measurements, keep) and ds.measurements.dtype == keep.dtype):
            return f'{what}: dataset measurements were modified'
        if not _desc_same(_desc_snapshot(ds), snap):
            return f'{what}: dataset descriptors were modified'
        return None
    for m in METHODS:
        a_raw = noise.cov_from_measurements(ds, 'cond', dof=dof, method=m)
        b_raw = noise.cov_from_unbalanced(ds, 'cond', dof=dof, method=m)
        r = untouched(m)
        if r:
            return r
        a, b = np.asarray(a_raw, dtype=np.float64) / norm, np.asarray(b_raw, dtype=np.float64) / norm
        if m == 'full':
            if not close(b, _spec_cov(resid, want_dof), 1e-9 * tm):
                return f'unbalanced full: not the pooled residual covariance with dof = observations - conditions = {want_dof}'
            if not close(a, _spec_cov(resid, want_dof), 1e-9 * tm):
                ratio = float(np.trace(a) / np.trace(_spec_cov(resid, want_dof)))
                return (f'measurement-based full: not the pooled residual covariance with dof = observations - conditions = '
                        f'{want_dof} (trace ratio {ratio:.4f})')
        if m == 'diag' and not close(a, np.diag(np.diag(_spec_cov(resid, want_dof))), 1e-9 * tm):
            return 'measurement-based diag: not the diagonal of the pooled residual covariance'
        if not close(a, b, 1e-8 * tm):
            return f'{m}: measurement-based and unbalanced estimators disagree on a balanced design'
        for nm, Mx in (('measurement-based ' + m, a), ('unbalanced ' + m, b)):
            r = _sym_psd(nm, Mx, tm)
            if r:
                return r
        if np.linalg.cond(a_raw) < 1e10:
            pa = noise.prec_from_measurements(ds, 'cond', dof=dof, method=m)
            if not close(pa @ np.asarray(a_raw, dtype=np.float64), np.eye(P), 1e-6 * max(1.0, tm / 100)):
                return f'{m}: prec_from_measurements is not the inverse'
            pb = noise.prec_from_unbalanced(ds, 'cond', dof=dof, method=m)
            if not close(pb @ np.asarray(b_raw, dtype=np.float64), np.eye(P), 1e-6 * max(1.0, tm / 100)):
                return f'{m}: prec_from_unbalanced is not the inverse'
            r = untouched('prec ' + m)
            if r:
                return r
        # call sequence: same call again -> identical estimate; the estimate handed out before is unchanged
        ha, hb = a_raw.copy(), b_raw.copy()
        a2 = noise.cov_from_measurements(ds, 'cond', dof=dof, method=m)
        b2 = noise.cov_from_unbalanced(ds, 'cond', dof=dof, method=m)
        if not (np.array_equal(a2, ha) and np.array_equal(b2, hb)):
            return f'{m}: the same call a second time gave a different estimate'
        if not (np.array_equal(a_raw, ha) and np.array_equal(b_raw, hb)):
            return f'{m}: an estimate handed out earlier changed when the library was called again'
    return None


@oracle('C14/unbalanced')
def orc_unbalanced(case):
    import rsatoolbox.data.noise as noise
    from rsatoolbox.data import Dataset
    rs = np.random.RandomState(case['seed'])
    labels = np.array(case['labels'])
    P = case['P']
    names = case.get('names')
    lab = labels if names is None else np.array([names[i] for i in labels])
    X = rs.randn(len(labels), P) + 3 * rs.randn(labels.max() + 1, P)[labels]
    norm, tm = np.ones((P, P)), 1.0
    if any(case.get(k) is not None for k in ('dtype', 'scale', 'container', 'extra')):
        ds, X, norm, tm = _typed_dataset(X, lab.tolist(), case)
    else:
        ds = Dataset(X.copy(), obs_descriptors={'cond': lab.tolist()})
    keep, snap = ds.measurements.copy(), _desc_snapshot(ds)
    resid = X - np.array([X[labels == c].mean(0) for c in range(labels.max() + 1)])[labels]
    dof = len(labels) - len(set(labels.tolist()))
    got = noise.cov_from_unbalanced(ds, 'cond', method='full') / norm
    if not close(got, _spec_cov(resid, dof), 1e-9 * tm):
        return 'unbalanced full estimate is not the covariance of the residuals around their own condition means'
    gd = noise.cov_from_unbalanced(ds, 'cond', method='diag') / norm
    if not close(gd, np.diag(np.diag(_spec_cov(resid, dof))), 1e-9 * tm):
        return 'unbalanced diag estimate is not the diagonal of the full one'
    for m in ('shrinkage_eye', 'shrinkage_diag'):
        v = _judge(np.asarray(noise.cov_from_unbalanced(ds, 'cond', method=m), dtype=np.float64) / norm, resid, dof, m, tol=tm)
        if v:
            return 'unbalanced ' + v
    cv = noise.cov_from_unbalanced(ds, 'cond', method='shrinkage_diag')
    if np.all(np.isfinite(cv)) and np.linalg.cond(cv) < 1e10:
        pr = noise.prec_from_unbalanced(ds, 'cond', method='shrinkage_diag')
        if not close(pr @ np.asarray(cv, dtype=np.float64), np.eye(P), 1e-6 * max(1.0, tm / 100)):
            return 'prec_from_unbalanced is not the inverse of cov_from_unbalanced'
    if case.get('dofs') is not None:
        for k in case['dofs']:
            gk = noise.cov_from_unbalanced(ds, 'cond', dof=k, method='full') / norm
            if not close(gk, _spec_cov(resid, k), 1e-9 * tm):
                return f'unbalanced full estimate with dof={k!r} passed in is not the residual cross-product divided by that dof'
    if not (np.array_equal(ds.measurements, keep) and ds.measurements.dtype == keep.dtype):
        return 'dataset measurements were modified'
    if not _desc_same(_desc_snapshot(ds), snap):
        return 'dataset descriptors were modified'
    return None


def _dof_arg(case, dofs):
    """the dof argument in the container / scalar type the case asks for, and the dof that element i must be estimated with"""
    mode = case['dofmode']
    if mode == 'none':
        return None, (lambda i: None)
    if mode == 'scalar':
        k = {'int': int, 'npint': np.int64, 'float': float, 'npfloat': np.float64}[case.get('dofscalar', 'int')](dofs[0])
        return k, (lambda i: dofs[0])
    cont = case.get('dofcontainer', 'list')
    arg = list(dofs) if cont == 'list' else (tuple(dofs) if cont == 'tuple' else np.array(dofs))
    return arg, (lambda i: dofs[i])


@oracle('C14/lists')
def orc_lists(case):
    import rsatoolbox.data.noise as noise
    rs = np.random.RandomState(case['seed'])
    P = case['P']
    mats = [rs.randn(n, P) for n in case['ns']]
    dofs = case['dofs']
    m = case['method']
    cont = case.get('container', 'list')
    dof_arg, dof_of = _dof_arg(case, dofs)
    keeps = [X.copy() for X in mats]
    if case['kind'] == 'residuals':
        arg = mats if cont == 'list' else (tuple(mats) if cont == 'tuple' else np.stack(mats))
        got = noise.cov_from_residuals(arg, dof=dof_arg, method=m)
        if not isinstance(got, list) or len(got) != len(mats):
            return f'list input did not yield one estimate per element (got {type(got).__name__} of length {len(got)})'
        for i, X in enumerate(mats):
            d = dof_of(i)
            want = noise.cov_from_residuals(X, dof=d, method=m)
            if not (isinstance(got[i], np.ndarray) and got[i].shape == want.shape and close(got[i], want, 1e-9)):
                return f'element {i} of the list result is not the estimate of element {i} with its own dof ({d})'
            if m == 'full':
                Xc = keeps[i] - keeps[i].mean(0, keepdims=True)
                if not close(got[i], _spec_cov(Xc, X.shape[0] - 1 if d is None else d), 1e-9):
                    return f'element {i} of the list result is not the residual covariance of element {i} with dof {d}'
        if all(np.linalg.cond(g) < 1e10 for g in got):
            pr = noise.prec_from_residuals(arg, dof=dof_arg, method=m)
            if len(pr) != len(mats):
                return f'{len(pr)} precisions for {len(mats)} inputs'
            for i in range(len(mats)):
                if not close(pr[i] @ got[i], np.eye(P), 1e-6):
                    return f'precision {i} is not the inverse of covariance {i}'
        held = [g.copy() for g in got]
        again = noise.cov_from_residuals(arg, dof=dof_arg, method=m)
        if not all(np.array_equal(x, y) for x, y in zip(again, held)):
            return 'the same call a second time gave different estimates'
        if not all(np.array_equal(x, y) for x, y in zip(got, held)):
            return 'estimates handed out earlier changed when the library was called again'
    else:
        from rsatoolbox.data import Dataset
        dss = []
        for X in mats:
            lab = [i % 2 for i in range(X.shape[0])]
            dss.append(Dataset(X, obs_descriptors={'cond': lab}))
        arg = dss if cont == 'list' else tuple(dss)
        fn = noise.cov_from_unbalanced if case['kind'] == 'unbalanced' else noise.cov_from_measurements
        got = fn(arg, 'cond', dof=dof_arg, method=m)
        if not isinstance(got, list) or len(got) != len(dss):
            return 'list of datasets did not yield one estimate per element'
        for i, d_ in enumerate(dss):
            d = dof_of(i)
            want = noise.cov_from_unbalanced(d_, 'cond', dof=d, method=m)
            if not close(got[i], want, 1e-9):
                return f'element {i} of the list result is not the estimate of dataset {i} with its own dof ({d})'
            if m == 'full':
                X = keeps[i]
                lab = np.arange(X.shape[0]) % 2
                resid = X - np.array([X[lab == c].mean(0) for c in (0, 1)])[lab]
                if not close(got[i], _spec_cov(resid, X.shape[0] - 2 if d is None else d), 1e-9):
                    return f'element {i} of the list result is not the pooled residual covariance of dataset {i} with dof {d}'
        if all(np.linalg.cond(g) < 1e10 for g in got):
            pfn = noise.prec_from_unbalanced if case['kind'] == 'unbalanced' else noise.prec_from_measurements
            pr = pfn(arg, 'cond', dof=dof_arg, method=m)
            if not isinstance(pr, list) or len(pr) != len(dss):
                return 'list of datasets did not yield one precision per element'
            for i in range(len(dss)):
                if not close(pr[i] @ got[i], np.eye(P), 1e-6):
                    return f'precision {i} is not the inverse of covariance {i}'
        if any(not np.array_equal(d_.measurements, k) for d_, k in zip(dss, keeps)):
            return 'measurements of a dataset in the list were modified'
    if any(not np.array_equal(X, k) for X, k in zip(mats, keeps)):
        return 'an element of the input list was modified'
    return None


def _seq_call(kind, prec, X, lab, method, dof):
    import rsatoolbox.data.noise as noise
    from rsatoolbox.data import Dataset
    if kind == 'residuals':
        return (noise.prec_from_residuals if prec else noise.cov_from_residuals)(X, dof=dof, method=method)
    fn = {('measurements', False): noise.cov_from_measurements, ('measurements', True): noise.prec_from_measurements,
          ('unbalanced', False): noise.cov_from_unbalanced, ('unbalanced', True): noise.prec_from_unbalanced}[(kind, prec)]
    return fn(Dataset(X, obs_descriptors={'cond': list(lab)}), 'cond', dof=dof, method=method)


@oracle('C14/sequence')
def orc_sequence(case):
    """call sequences: estimate(A); estimate(B) with B of the SAME shape / labels but other content; estimate(A) again.
    The estimate of B must be the estimate B gets in isolation from its own spec (a cache keyed by shape / labels would return A's),
    A's estimate held by the caller must not change, and -- after the caller scribbles over its copy -- a new call for A must return
    the original values again (no shared buffer / memoised object)."""
    rs = np.random.RandomState(case['seed'])
    C, R, P = case['C'], case['R'], case['P']
    kind, prec, m, dof = case['kind'], case['prec'], case['method'], case.get('dof')
    lab = np.repeat(np.arange(C), R)
    A = rs.randn(C * R, P) + 2 * rs.randn(C, P)[lab]
    B = 3 * rs.randn(C * R, P) + 1
    if case.get('same_moments'):
        # B = A with channels 0 and 1 exchanged: same shape, same sum, same labels -- only a content-exact key tells them apart
        B = A.copy()
        B[:, [0, 1]] = B[:, [1, 0]]

    def judge(r, X, who):
        if kind == 'residuals':
            res, d = X - X.mean(0, keepdims=True), (C * R - 1 if dof is None else dof)
        else:
            res, d = X - np.array([X[lab == c].mean(0) for c in range(C)])[lab], (C * R - C if dof is None else dof)
        est = np.linalg.inv(r) if prec else r
        v = _judge(est, res, d, m, tol=100.0)
        return None if v is None else f'{who}: {v}'
    rA = _seq_call(kind, prec, A.copy(), lab, m, dof)
    hA = rA.copy()
    rB = _seq_call(kind, prec, B.copy(), lab, m, dof)
    if not np.array_equal(rA, hA):
        return 'the estimate for A held by the caller changed when B was estimated'
    v = judge(rA, A, 'first estimate (A)') or judge(rB, B, 'estimate for B (same shape and labels as A, other content)')
    if v:
        return v
    rA[...] = -7.0
    rA2 = _seq_call(kind, prec, A.copy(), lab, m, dof)
    if not np.array_equal(rA2, hA):
        return 'estimating A again (after the caller overwrote its copy of the first result, and after B) did not reproduce the first estimate'
    if np.shares_memory(rA2, rA) or np.shares_memory(rA2, rB):
        return 'two calls returned arrays that share memory'
    return None


_HASHSEED_SCRIPT = r'''
import json, sys
from contracts import C14
probs = []
for name, case in json.loads(sys.stdin.read()):
    r = C14.ORACLES_C[name](case)
    if r is not None:
        probs.append('%s %s: %s' % (name, json.dumps(case), r))
print('C14-HASHSEED-RESULT ' + json.dumps(probs))
'''


def _hashseed_cases(thorough):
    cases = []
    for kind in ('str', 'gap', 'float'):
        for order in ('shuffled', 'interleaved'):
            cases.append(('C14/dataset-estimators', dict(seed=3, C=3, R=2, P=3, order=order, labels=kind)))
            if thorough:
                cases.append(('C14/dataset-estimators', dict(seed=4, C=4, R=3, P=2, order=order, labels=kind, container='ndarray')))
    for labels in ([2, 0, 0, 1, 2, 2], [1, 1, 0, 2, 0, 0, 0], [0, 1, 2, 3, 3, 2, 4, 0]):
        for names in (['b', 'c', 'a', 'cond10', 'cond9'], [10, -3, 7, 1000, 0]):
            cases.append(('C14/unbalanced', dict(seed=5, labels=labels, P=2, names=names)))
    return cases


@oracle('C14/hashseed')
def orc_hashseed(case):
    """environment: a NEW interpreter started with another PYTHONHASHSEED (str / int / float labels go through sets / dicts /
    np.unique in the library) judges the same dataset cases by the oracles above -- every clause must hold there too"""
    import json
    import os
    import subprocess
    import sys
    import rsatoolbox
    root = os.path.dirname(os.path.dirname(os.path.abspath(__file__)))
    lib = os.path.dirname(os.path.dirname(os.path.abspath(rsatoolbox.__file__)))      # the tree under test in THIS interpreter
    env = dict(os.environ, PYTHONHASHSEED=str(case['hashseed']), MPLBACKEND='Agg', PYTHONDONTWRITEBYTECODE='1',
               PYTHONPATH=os.pathsep.join([lib, root] + [p for p in os.environ.get('PYTHONPATH', '').split(os.pathsep) if p]))
    pr = subprocess.run([sys.executable, '-W', 'ignore', '-c', _HASHSEED_SCRIPT], input=json.dumps(_hashseed_cases(case['thorough'])),
                        capture_output=True, text=True, env=env, cwd=root, timeout=300)
    lines = [ln for ln in pr.stdout.splitlines() if ln.startswith('C14-HASHSEED-RESULT ')]
    if pr.returncode != 0 or not lines:
        return f'interpreter with PYTHONHASHSEED={case["hashseed"]} failed (rc {pr.returncode}): {pr.stderr[-400:]}'
    probs = json.loads(lines[-1][len('C14-HASHSEED-RESULT '):])
    if probs:
        return f'under PYTHONHASHSEED={case["hashseed"]}: {probs[0]} ({len(probs)} failures)'
    return None


ORACLES_C = {o.oracle_name: o for o in (orc_estimators, orc_dataset, orc_unbalanced, orc_lists, orc_sequence)}


def tier_c(run, thorough):
    bds = []
    bd = Bounded(run, 'C14/estimators', 'C14/cov_from_residuals/oracle/estimators',
                 'seeded residual matrices n in 2..%d x p in 1..%d incl. more channels than samples and 2-row / square-wave inputs; '
                 'dof None / given; 4 methods; sweeps: int64/int32/int16/uint8/float32 data, units 1e-26..1e+12 (float64) and '
                 '1e-6..1e+6 (float32), per-channel units, duplicated channel%s; every case: same call twice, held results unchanged'
                 % ((12, 8, ', sizes up to 200x3 / 60x24 / 4x30') if thorough else (8, 5, '')), function='_estimate_covariance')
    for seed in range(4 if thorough else 2):
        for n in ([2, 3, 4, 6, 12] if thorough else [2, 3, 5, 8]):
            for p in ([1, 2, 3, 5, 8] if thorough else [1, 2, 3, 5]):
                for dof in (None, n + 2):
                    bd.check(orc_estimators, dict(seed=seed, n=n, p=p, dof=dof),
                             'single-channel' if p == 1 else ('two-rows' if n == 2 else 'generic'), function='_covariance_')
        for n in (4, 6):
            bd.check(orc_estimators, dict(seed=seed, n=n, p=3, dof=None, squarewave=True), 'squarewave', function='_covariance_diag')
    shapes = [(5, 3), (8, 2), (3, 5)] + ([(2, 4), (12, 1), (20, 6)] if thorough else [])
    for seed in range(3 if thorough else 1):
        # typed data: the estimate for integer / float32 data is the one for the same values as float64
        for dt in _INT_DTYPES + ('float32',):
            for (n, p) in shapes:
                for dof in (None, n + 2):
                    bd.check(orc_estimators, dict(seed=10 + seed, n=n, p=p, dof=dof, dtype=dt), 'typed:' + dt, function='_check_demean')
        # units: uniform positive scale (every estimate scales with scale**2, intensities stay in [0,1] and the same)
        for sc in (1e-26, 1e-12, 1e-6, 1e6, 1e12):
            for (n, p) in shapes:
                bd.check(orc_estimators, dict(seed=20 + seed, n=n, p=p, dof=None, scale=sc), 'units:float64', function='_covariance_')
            bd.check(orc_estimators, dict(seed=20 + seed, n=6, p=3, dof=8, scale=sc, squarewave=True), 'units:float64,squarewave',
                     function='_covariance_diag')
        for sc in (1e-6, 1e-3, 1e3, 1e6):
            for (n, p) in shapes[:2]:
                bd.check(orc_estimators, dict(seed=30 + seed, n=n, p=p, dof=None, scale=sc, dtype='float32'), 'units:float32,moderate',
                         function='_covariance_')
        if True:   # repaired in /repo add66a9b (was pending triage): typed:float32,units:extreme
            # float32 residuals in units of 1e-12 / 1e+12 (e.g. MEG data in tesla): the fourth powers xt_x ** 2 of the shrinkage
            # estimators are taken in float32 and under- / overflow: shrinkage_eye leaves [0,1], shrinkage_diag does not shrink
            for sc in (1e-12, 1e12):
                for (n, p) in shapes[:2]:
                    bd.check(orc_estimators, dict(seed=30 + seed, n=n, p=p, dof=None, scale=sc, dtype='float32'),
                             'typed:float32,units:extreme', function='_covariance_')
        for chs in ([1e-3, 1.0, 1e3], [1e-9, 1.0, 1e9], [1e6, 1e-6], [1e-12, 1e-12, 1.0]):
            for (n, p) in shapes:
                if p > 1:
                    bd.check(orc_estimators, dict(seed=40 + seed, n=n, p=p, dof=None, chscale=chs), 'units:per-channel',
                             function='_covariance_diag')
        # repeated values: a channel that duplicates another (correlation exactly 1); a channel without variance; a single row
        for (n, p) in ((6, 3), (4, 5)):
            bd.check(orc_estimators, dict(seed=50 + seed, n=n, p=p, dof=None, dup_channel=[0, p - 1]), 'duplicate-channel',
                     function='_covariance_diag')
        if True:   # repaired in /repo f1914bdf (was pending triage): zero-variance-channel
            # one constant channel (or a single residual row with dof passed in: all channels): shrinkage_diag divides by the
            # standard deviations, lambda becomes NaN and the WHOLE estimate (diagonal included) is NaN
            for (n, p) in ((6, 3), (4, 5)):
                bd.check(orc_estimators, dict(seed=50 + seed, n=n, p=p, dof=None, const_channel=1), 'zero-variance-channel',
                         function='_covariance_diag')
            bd.check(orc_estimators, dict(seed=50 + seed, n=1, p=3, dof=2), 'zero-variance-channel', function='_covariance_diag')
    if thorough:
        for seed in range(2):
            for (n, p) in ((200, 3), (60, 24), (4, 30), (2, 12), (37, 7)):
                for extra in (dict(), dict(dtype='int16'), dict(scale=1e-12), dict(dtype='float32')):
                    bd.check(orc_estimators, dict(seed=60 + seed, n=n, p=p, dof=None, **extra), 'sizes', function='_covariance_')
    bd.done()
    bds.append(bd)
    bd = Bounded(run, 'C14/dataset-estimators', 'C14/cov_from_measurements/oracle/balanced-agreement',
                 'balanced designs C in 2..4, R in 2..4, P in 2..4, sorted / shuffled / interleaved row order, 4 methods; sweeps: '
                 'str / non-contiguous int / float / bool labels as list / ndarray / tuple, further descriptors present, C = 1, P = 1, '
                 'dof passed in (int, float), float32 measurements, units 1e-26..1e+12%s; every case: descriptors and measurements '
                 'unchanged, same call twice' % (', designs up to 10x10x5 and 8x2x12' if thorough else ''),
                 function='cov_from_measurements')
    for seed in range(2 if thorough else 1):
        for C in (2, 3, 4):
            for R in (2, 3, 4):
                for P in ((2, 4) if thorough else (3,)):
                    for order in ('sorted', 'shuffled', 'interleaved'):
                        bd.check(orc_dataset, dict(seed=seed, C=C, R=R, P=P, order=order),
                                 'C==R' if C == R else 'C!=R', function='_check_demean' if C != R else 'cov_from_measurements')
    designs = [(3, 2, 3), (2, 3, 2)] + ([(4, 3, 2), (5, 2, 4)] if thorough else [])
    for seed in range(2 if thorough else 1):
        for (C, R, P) in designs:
            for order in ('shuffled', 'interleaved'):
                for kind in ('str', 'gap', 'float') + (('bool',) if C == 2 else ()):
                    for cont in ('list', 'ndarray', 'tuple'):
                        bd.check(orc_dataset, dict(seed=10 + seed, C=C, R=R, P=P, order=order, labels=kind, container=cont),
                                 f'labels:{kind},{cont}', function='cov_from_measurements')
                bd.check(orc_dataset, dict(seed=10 + seed, C=C, R=R, P=P, order=order, labels='str', extra=True), 'further-descriptors',
                         function='cov_from_measurements')
                for dof in (5, 2.5, 1):
                    bd.check(orc_dataset, dict(seed=10 + seed, C=C, R=R, P=P, order=order, dof=dof), 'dof-given',
                             function='cov_from_measurements')
                bd.check(orc_dataset, dict(seed=10 + seed, C=C, R=R, P=P, order=order, dtype='float32'), 'typed:float32',
                         function='cov_from_measurements')
                for sc in (1e-26, 1e-12, 1e6, 1e12):
                    bd.check(orc_dataset, dict(seed=10 + seed, C=C, R=R, P=P, order=order, scale=sc), 'units:float64',
                             function='cov_from_measurements')
                if True:   # repaired in /repo add66a9b (was pending triage): typed:integer-dataset
                    # a Dataset keeps integer measurements as they are; cov_from_unbalanced (matrix -= means[inverse]) and
                    # cov_from_measurements (_check_demean: matrix -= np.mean(...)) subtract float means IN PLACE -> UFuncTypeError
                    for dt in _INT_DTYPES:
                        bd.check(orc_dataset, dict(seed=10 + seed, C=C, R=R, P=P, order=order, dtype=dt), 'typed:integer-dataset',
                                 function='cov_from_unbalanced')
        for (C, R, P) in ((1, 4, 2), (1, 2, 3)):
            for order in ('sorted',):
                bd.check(orc_dataset, dict(seed=20 + seed, C=C, R=R, P=P, order=order), 'single-condition', function='_check_demean')
        for (C, R, P) in ((3, 2, 1), (2, 2, 1), (1, 3, 1)):
            for order in ('sorted', 'shuffled'):
                bd.check(orc_dataset, dict(seed=20 + seed, C=C, R=R, P=P, order=order), 'single-channel', function='_check_demean')
    if thorough:
        for seed in range(2):
            for (C, R, P) in ((10, 10, 5), (6, 5, 8), (8, 2, 12), (2, 9, 3), (7, 3, 3)):
                for order in ('sorted', 'shuffled', 'interleaved'):
                    bd.check(orc_dataset, dict(seed=30 + seed, C=C, R=R, P=P, order=order, labels='str' if seed else 'int'), 'sizes',
                             function='_check_demean')
    bd.done()
    bds.append(bd)
    bd = Bounded(run, 'C14/unbalanced', 'C14/cov_from_unbalanced/oracle/residual-covariance',
                 'all label sequences of length <= %d over <= 3 conditions (each used), int and string labels, P=2; for length <= 4 also '
                 'non-contiguous int / float labels, ndarray / tuple descriptors, dof passed in, float32 measurements, units 1e-12 / 1e+12'
                 % (6 if thorough else 5), exhaustive=True, function='cov_from_unbalanced')
    for L in range(3, (7 if thorough else 6)):
        for labels in itertools.product(range(3), repeat=L):
            k = max(labels) + 1
            if set(labels) != set(range(k)) or L - k < 1:
                continue
            bd.check(orc_unbalanced, dict(seed=L, labels=list(labels), P=2), 'int-labels', function='cov_from_unbalanced')
            if L <= 4:
                bd.check(orc_unbalanced, dict(seed=L, labels=list(labels), P=2, names=['b', 'c', 'a']), 'str-labels',
                         function='cov_from_unbalanced')
                bd.check(orc_unbalanced, dict(seed=L, labels=list(labels), P=2, names=[10, -3, 7]), 'gap-int-labels',
                         function='cov_from_unbalanced')
                bd.check(orc_unbalanced, dict(seed=L, labels=list(labels), P=2, names=[0.5, 1.5, -2.0]), 'float-labels',
                         function='cov_from_unbalanced')
                bd.check(orc_unbalanced, dict(seed=L, labels=list(labels), P=2, names=['cond10', 'cond9', 'c'], container='ndarray'),
                         'str-labels,ndarray', function='cov_from_unbalanced')
                bd.check(orc_unbalanced, dict(seed=L, labels=list(labels), P=2, names=[10, -3, 7], container='tuple', extra=True),
                         'gap-int-labels,tuple', function='cov_from_unbalanced')
                bd.check(orc_unbalanced, dict(seed=L, labels=list(labels), P=2, dofs=[1, 3, 2.5]), 'dof-given',
                         function='cov_from_unbalanced')
                bd.check(orc_unbalanced, dict(seed=L, labels=list(labels), P=2, dtype='float32'), 'typed:float32',
                         function='cov_from_unbalanced')
                for sc in (1e-12, 1e12):
                    bd.check(orc_unbalanced, dict(seed=L, labels=list(labels), P=2, scale=sc), 'units:float64',
                             function='cov_from_unbalanced')
                if True:   # repaired in /repo add66a9b (was pending triage): typed:integer-dataset
                    bd.check(orc_unbalanced, dict(seed=L, labels=list(labels), P=2, dtype='int16'), 'typed:integer-dataset',
                             function='cov_from_unbalanced')
    bd.done()
    bds.append(bd)
    if thorough:
        bd = Bounded(run, 'C14/unbalanced-sizes', 'C14/cov_from_unbalanced/oracle/residual-covariance',
                     '40 seeded unbalanced designs: 2..6 conditions, group sizes 1..9 (at least one group of 2), interleaved rows, '
                     'P in 1..6, int / str / float labels', function='cov_from_unbalanced')
        for seed in range(40):
            rs = np.random.RandomState(1000 + seed)
            k = int(rs.randint(2, 7))
            sizes = rs.randint(1, 10, size=k)
            sizes[rs.randint(k)] += 1
            labels = np.repeat(np.arange(k), sizes)[rs.permutation(int(sizes.sum()))]
            # condition indices in first-appearance order (the oracle's names list is indexed by them)
            first = {}
            for v in labels.tolist():
                first.setdefault(v, len(first))
            labels = [first[v] for v in labels.tolist()]
            names = [None, ['b', 'c', 'a', 'cond10', 'cond9', 'B'], [0.5, 1.5, -2.0, 0.25, 1e3, -0.125]][seed % 3]
            case = dict(seed=seed, labels=labels, P=int(rs.randint(1, 7)))
            if names is not None:
                case['names'] = names
            bd.check(orc_unbalanced, case, 'sizes', function='cov_from_unbalanced')
        bd.done()
        bds.append(bd)
    bd = Bounded(run, 'C14/lists', 'C14/cov_from_residuals/oracle/list-plumbing',
                 'lists of 1-5 inputs of different or equal sizes as list / tuple / 3-D array; dof None / scalar (int, numpy int, float) '
                 '/ list, tuple, ndarray; residuals, measurements, unbalanced; 4 methods',
                 function='cov_from_residuals')
    for kind in ('residuals', 'measurements', 'unbalanced'):
        for dofmode in ('none', 'scalar', 'list'):
            for m in METHODS:
                for ns in ([6, 8], [5, 7, 9]):
                    bd.check(orc_lists, dict(seed=1, P=3, ns=ns, dofs=[n - 2 for n in ns], kind=kind, dofmode=dofmode, method=m),
                             f'{kind},dof={dofmode}', function='cov_from_' + kind)
                # sizes: one element; five elements; equal shapes with different content (and dofs in non-monotone order)
                for ns, dofs in (([7], [4]), ([6, 6, 6], [5, 3, 4]), ([9, 5, 8, 6, 7], [3, 9, 4, 8, 5])):
                    for cont in ('list', 'tuple') + (('array3d',) if kind == 'residuals' and len(set(ns)) == 1 else ()):
                        variants = [dict()]
                        if dofmode == 'list':
                            variants = [dict(dofcontainer=c) for c in ('list', 'tuple', 'ndarray')]
                        elif dofmode == 'scalar':
                            variants = [dict(dofscalar=c) for c in ('npint', 'float')]
                        if not thorough and m in ('diag', 'shrinkage_eye'):
                            variants = variants[:1]
                        for v in variants:
                            bd.check(orc_lists, dict(seed=2, P=3, ns=ns, dofs=dofs, kind=kind, dofmode=dofmode, method=m,
                                                     container=cont, **v),
                                     f'{kind},dof={dofmode}' + ''.join(':' + x for x in v.values()) + f',{cont}', function='cov_from_' + kind)
    bd.done()
    bds.append(bd)
    bd = Bounded(run, 'C14/sequence', 'C14/cov_from_residuals/oracle/call-sequence',
                 'estimate(A), estimate(B), estimate(A) with B of the shape and labels of A (other content / two channels exchanged); '
                 '3x3x3 designs; cov_ and prec_ of residuals, measurements, unbalanced; 4 methods; dof None / given',
                 function='cov_from_residuals')
    for kind in ('residuals', 'measurements', 'unbalanced'):
        for prec in (False, True):
            for m in METHODS:
                for same in (False, True):
                    for dof in ((None, 7) if thorough else (None,)):
                        bd.check(orc_sequence, dict(seed=7, C=3, R=3, P=3, kind=kind, prec=prec, method=m, same_moments=same, dof=dof),
                                 'call-sequence', function=('prec_from_' if prec else 'cov_from_') + kind)
    bd.done()
    bds.append(bd)
    seeds = (1, 2, 12345, 4294967295) if thorough else (1,)
    bd = Bounded(run, 'C14/hashseed', 'C14/cov_from_unbalanced/oracle/hashseed',
                 'the dataset / unbalanced oracles on %d str / int / float labelled designs in a new interpreter started with '
                 'PYTHONHASHSEED = %s' % (len(_hashseed_cases(thorough)), ', '.join(map(str, seeds))), function='cov_from_unbalanced')
    for hs in seeds:
        bd.check(orc_hashseed, dict(hashseed=hs, thorough=bool(thorough)), 'other-hash-seed', function='cov_from_unbalanced')
    bd.done()
    bds.append(bd)
    return bds


def check_shrinkage_diag(run, E):
    """_covariance_diag: the estimate is the sample covariance s times (identity + f * off-diagonal mask) with ONE factor f for
    all off-diagonal entries and 0 <= f <= 1 for ALL inputs (f = 1 - lambda, lambda clamped to [0,1]): the diagonal is the
    sample variance, off-diagonals are shrunk towards 0 and never flipped or inflated"""
    ck = FuncCheck(E, run, 'C14', 'rsatoolbox.data.noise._covariance_diag', '')

    def mk(E):
        m = E.sym_val('matrix', tag='ndarray')
        m.shape = (z3.Int('n'), z3.Int('p'))
        return [m, E.sym_int('dof')], {}, [z3.Int('n') >= 2, z3.Int('p') >= 1, z3.Int('dof') >= 1]

    def post(ck, E, args, kw, p):
        res = p.value

        def app_of(v, name, n):
            a = getattr(v, 'app', None)
            return a[1] if a is not None and a[0] == name and len(a[1]) == n else None
        top = app_of(res, 'op*', 2)
        sc = app_of(top[1], 'op+', 2) if top else None
        off = app_of(sc[1], 'op*', 2) if sc else None
        ok = off is not None and getattr(sc[0], 'app', None) and sc[0].app[0] == 'numpy.eye' \
            and getattr(off[1], 'app', None) and off[1].app[0] == 'invert'
        ck.ensure('post/estimate-is-s-times-(identity+factor*offdiagonal-mask)', z3.BoolVal(bool(ok)), structure=True,
                  note=f'result: {getattr(res, "app", None) and res.app[0]}')
        if not ok:
            return
        f = off[0]
        fz = E.as_real(f) if E.is_numeric(f) else None
        ck.ensure('post/off-diagonal-shrinkage-factor-lies-in-[0,1]', z3.BoolVal(False) if fz is None else z3.And(fz >= 0, fz <= 1))
        s_ = app_of(top[0], 'op/', 2)
        ck.ensure('post/shrunk-matrix-is-the-dof-scaled-sample-covariance', z3.BoolVal(s_ is not None) if s_ is None else
                  E.veq(s_[1], args[1]), structure=True)
    ck.execute(mk, post=post, allow_raise=lambda *a: None)
    yield ck


def check_shrinkage_eye(run, E):
    """_covariance_eye (Ledoit-Wolf): either the sample covariance s itself (it equals its target: d2 == 0), or
    (w1 * (m * I) + w2 * s) * n / dof with the target m * I of EQUAL TRACE (m = trace(s) / p), w1 + w2 = 1 and 0 <= w1 <= 1 for
    ALL inputs -- a convex combination, shrinkage intensity w1 = min(d2, b2) / d2.  Non-negativity uses two facts about real
    numbers that are proved in Lean (vf/lemmas/MeanSq.lean) and linked to the code structurally: d2 is a sum of squares, and
    b2 is 1/n times a sum of (mean of squares - square of the mean) of the same outer products."""
    ck = FuncCheck(E, run, 'C14', 'rsatoolbox.data.noise._covariance_eye', '')

    def mk(E):
        m = E.sym_val('matrix', tag='ndarray')
        m.shape = (z3.Int('n'), z3.Int('p'))
        return [m, E.sym_int('dof')], {}, [z3.Int('n') >= 2, z3.Int('p') >= 1, z3.Int('dof') >= 1]

    def app_of(v, name, n):
        a = getattr(v, 'app', None)
        return a[1] if a is not None and a[0] == name and len(a[1]) == n else None

    seen = {'shrunk': 0, 'plain': 0}

    def post(ck, E, args, kw, p):
        res = p.value
        top = app_of(res, 'op/', 2)
        inner = app_of(top[0], 'op*', 2) if top else None
        ok = inner is not None
        ck.ensure('post/estimate-is-rescaled-by-n-over-dof', z3.BoolVal(bool(ok)) if not ok else
                  z3.And(E.veq(top[1], args[1]), E.as_int(inner[1]) == z3.Int('n')), structure=True)
        if not ok:
            return
        comb = app_of(inner[0], 'op+', 2)
        if comb is None:
            # d2 == 0: the sample covariance is returned as it is
            seen['plain'] += 1
            s_ = app_of(inner[0], 'op/', 2)
            ck.ensure('post/without-shrinkage-the-estimate-is-the-sample-covariance', z3.BoolVal(s_ is not None), structure=True)
            return
        seen['shrunk'] += 1
        t1, t2 = app_of(comb[0], 'op*', 2), app_of(comb[1], 'op*', 2)       # (w1 * m) * eye  +  w2 * s
        t11 = app_of(t1[0], 'op*', 2) if t1 else None
        ok = t1 is not None and t2 is not None and t11 is not None and getattr(t1[1], 'app', None) and t1[1].app[0] == 'numpy.eye'
        ck.ensure('post/estimate-is-w1-times-scaled-identity-plus-w2-times-s', z3.BoolVal(bool(ok)), structure=True)
        if not ok:
            return
        w1, mval, w2, s_ = t11[0], t11[1], t2[0], t2[1]
        # target of equal trace: m = sum(diag(s)) / s.shape[0]
        mm = app_of(mval, 'op/', 2)
        tr = app_of(mm[0], 'numpy.sum', 1) if mm else None
        dg = app_of(tr[0], 'numpy.diag', 1) if tr else None
        ck.ensure('post/target-is-the-identity-scaled-to-equal-trace', z3.BoolVal(dg is not None) if dg is None else
                  E.veq(dg[0], s_), structure=True)
        a1, a2 = app_of(w1, 'op/', 2), app_of(w2, 'op/', 2)
        num2 = app_of(a2[0], 'op-', 2) if a2 else None
        ok = a1 is not None and num2 is not None
        ck.ensure('post/weights-are-b2-over-d2-and-(d2-b2)-over-d2', z3.BoolVal(bool(ok)), structure=True)
        if not ok:
            return
        b2, d2 = a1[0], a1[1]
        same = z3.And(E.veq(a2[1], d2), E.veq(num2[0], d2), E.veq(num2[1], b2))
        ck.ensure('post/both-weights-use-the-same-b2-and-d2', same, structure=True)
        mn = app_of(b2, 'min', 2)
        ok = mn is not None
        ck.ensure('post/b2-is-capped-by-d2', z3.BoolVal(bool(ok)) if not ok else z3.Or(E.veq(mn[0], d2), E.veq(mn[1], d2)), structure=True)
        if not ok:
            return
        braw = mn[1] if E.veq(mn[0], d2) is not None and z3.is_true(z3.simplify(E.veq(mn[0], d2))) else mn[0]
        # structural links to the Lean lemmas
        sq = app_of(d2, 'numpy.sum', 1)
        sq2 = app_of(sq[0], 'op**', 2) if sq else None
        ck.ensure('post/d2-is-a-sum-of-squares', z3.BoolVal(sq2 is not None and E.is_numeric(sq2[1]) and
                                                         z3.is_true(z3.simplify(E.as_real(sq2[1]) == 2))), structure=True)
        br = app_of(braw, 'op/', 2)
        bs = app_of(br[0], 'numpy.sum', 1) if br else None
        bd_ = app_of(bs[0], 'op-', 2) if bs else None
        msq = app_of(bd_[0], 'op/', 2) if bd_ else None          # s2_sum / n
        sqm = app_of(bd_[1], 'op*', 2) if bd_ else None          # s * s
        ok = msq is not None and sqm is not None
        link = z3.BoolVal(False)
        if ok:
            link = z3.And(E.veq(sqm[0], sqm[1]), E.veq(sqm[0], s_))
        ck.ensure('post/b2-is-the-summed-(mean-of-squared-products-minus-squared-mean-product)-over-n', link, structure=True)
        # arithmetic over the numeric values of the opaque scalars (the structural obligations above tie the code's terms to
        # these definitions): b2 = min(d2, braw), w1 = b2 / d2, w2 = (d2 - b2) / d2, on the branch d2 != 0
        from vf.pyvc.core import ufunc
        R = lambda v: E.as_real(v) if E.is_numeric(v) else ufunc('real_of', 1, 'real')(v.z)
        d2r, brr = R(d2), R(braw)
        b2r = z3.If(brr < d2r, brr, d2r)
        w1r, w2r = b2r / d2r, (d2r - b2r) / d2r
        lemma = z3.And(d2r >= 0, brr >= 0, d2r != 0)   # Lean: sum_sq_nonneg, var_of_products_nonneg; d2 != 0 is this branch
        ck.ensure('post/weights-sum-to-one', z3.Implies(lemma, w1r + w2r == 1))
        ck.ensure('post/shrinkage-intensity-lies-in-[0,1]', z3.Implies(lemma, z3.And(w1r >= 0, w1r <= 1)))
    ck.execute(mk, post=post, allow_raise=lambda *a: None)
    ck.ensure_paths = seen
    if not (seen['shrunk'] and seen['plain']):
        run.obligation(ck.name('post/both-branches-reachable'), 'refuted', 'z3', 0.0, detail=str(seen))
        ck.failed.append((ck.name('post/both-branches-reachable'), 'structure', None))
    yield ck


def lean_lemmas(run):
    """Lean 4 + Mathlib: mean of squares >= square of the mean; sums of squares are non-negative (used by check_shrinkage_eye)"""
    import os, subprocess, time
    root = os.path.dirname(os.path.dirname(os.path.abspath(__file__)))
    src = os.path.join(root, 'vf', 'lemmas', 'MeanSq.lean')
    okf = os.path.join(root, '.lean_out', 'MeanSq.ok')
    if not os.path.exists(src):
        run.notes.append('Lean lemma MeanSq.lean not present')
        return
    t0 = time.time()
    if not os.path.exists(okf) or os.path.getmtime(okf) < os.path.getmtime(src) or run.tier == 'thorough':
        r = subprocess.run(['lake', 'env', 'lean', src], cwd='/opt/veriftools/mathlib4', capture_output=True, text=True, timeout=900)
        ok = r.returncode == 0 and 'error' not in r.stdout and 'sorry' not in r.stdout
        detail = (r.stdout + r.stderr)[-400:]
        if ok:
            os.makedirs(os.path.dirname(okf), exist_ok=True)
            open(okf, 'w').write('ok')
    else:
        ok, detail = True, 'compiled by setup.sh (cached)'
    txt = open(src).read()
    if 'sorry' in txt or 'axiom ' in txt:
        ok, detail = False, 'lemma file contains sorry/axiom'
    for name in ('mean_sq_ge_sq_mean', 'var_of_products_nonneg', 'sum_sq_nonneg'):
        if f'theorem {name}' in txt:
            run.obligation(f'C14/lemma/{name}', 'proved' if ok else 'unknown', 'lean4+mathlib', time.time() - t0, detail=detail)
    run.trust('Lean 4.33 kernel + Mathlib for the two real-number facts behind the non-negativity of b2 and d2 in _covariance_eye; '
              'they are linked to the code by structural obligations (d2 is np.sum(x ** 2); b2 sums s2_sum / n - s * s), the '
              'fold identity s2_sum = sum of squared outer products is the loop summary of engine A')


def run(run):
    E = new_engine(run)
    from contracts.common import install_dataset
    install_dataset(E)
    fails = []
    lean_lemmas(run)
    for gen in (check_demean, check_cov_list, check_prec, check_unbalanced_dof, check_shrinkage_diag, check_shrinkage_eye):
        for ck in gen(run, E):
            fails += ck.failed
    finish_engine(E, run)
    # callee contract of cov_from_unbalanced (residuals around the mean of the observation's own condition)
    from contracts.common import discharge_unique_inverse
    fails += discharge_unique_inverse(run, 'C14')
    bfails = tier_b(run, run.tier == 'thorough')
    bds = tier_c(run, run.tier == 'thorough')
    report_a_failures(run, fails + bfails, bds)
    run.explanation = ('engine A: dof formulas, list/dof plumbing, inverse plumbing for all inputs; engine B: full/diag formulas and '
                       'measurement-vs-unbalanced identity for all real values at small shapes; tier C: shrinkage convexity, '
                       'PSD, inverse, agreement numerically on bounded domains')


def replay(path):
    return replay_file(path)
