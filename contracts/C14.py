"""C14 -- noise covariance is the pooled residual covariance; precision is its inverse."""
import itertools

import numpy as np
import z3

from vf.pyvc.values import V, SV, Obj, SeqV, CaseV, ArrV, Undecided, fresh_name
from vf.pyvc.api import FuncCheck
from vf.rt.harness import oracle, Bounded, replay_file, close
from contracts.common import new_engine, finish_engine, report_a_failures

LEVEL = 'other'
NZ = 'rsatoolbox.data.noise.'


# =====================================================================================================
# engine A: degrees of freedom, list / dof plumbing, inverse plumbing  (all inputs)
# =====================================================================================================
def nd(E, name, shape):
    v = E.sym_val(name, tag='ndarray')
    v.shape = tuple(shape)
    return v


def check_demean(run, E):
    for rank in (2, 3):
        ck = FuncCheck(E, run, 'C14', NZ + '_check_demean', f'{rank}-D')

        def mk(E, rank=rank):
            dims = [z3.Int(n) for n in ('d0', 'd1', 'd2')[:rank]]
            m = nd(E, 'matrix', dims)
            return [m], {}, [d >= 1 for d in dims]

        def post(ck, E, args, kw, p, rank=rank):
            m = args[0]
            out, dof = p.value
            if rank == 2:
                n = m.shape[0]
                # top-level clause (property): dof = observations - 1 (one mean removed per channel)
                ck.ensure('post/dof', E.as_int(dof) == n - 1)
                ck.ensure('post/shape', z3.BoolVal(out.shape is not None and len(out.shape) == 2 and z3.eq(out.shape[0], n)))
            else:
                C, P, R = m.shape
                # tensor (conditions x channels x repetitions): residuals around the per-condition means;
                # top-level clause (property): dof = observations - conditions = C*R - C
                ck.ensure('post/dof', E.as_int(dof) == C * R - C)
                sh = out.shape
                ck.ensure('post/shape', z3.And(sh[0] == C * R, sh[1] == P) if sh is not None and len(sh) == 2 else z3.BoolVal(False))
        ck.execute(mk, post=post, allow_raise=lambda *a: None)
        yield ck


def check_cov_list(run, E):
    """list branches: element i of the result is the single-input estimate of element i with its own dof"""
    for fn, callee, extra in (('cov_from_residuals', 'cov_from_residuals', []),
                              ('cov_from_measurements', 'cov_from_unbalanced', ['obs_desc']),
                              ('cov_from_unbalanced', 'cov_from_unbalanced', ['obs_desc'])):
        for dofcase in ('none', 'scalar', 'list'):
            ck = FuncCheck(E, run, 'C14', NZ + fn, f'list,dof={dofcase}')

            def mk(E, dofcase=dofcase, extra=extra):
                data = E.sym_val('inputs', tag='list')
                dof = None if dofcase == 'none' else (E.sym_int('dof') if dofcase == 'scalar' else E.sym_val('dofs', tag='list'))
                method = E.sym_val('method', tag='scalar')
                args = [data] + [E.sym_val('obs_desc', tag='scalar')] * len(extra)
                return args, dict(dof=dof, method=method), []

            def post(ck, E, args, kw, p, dofcase=dofcase, callee=callee, extra=extra):
                data = args[0]
                res = p.value
                ck.ensure('post/is-list', z3.BoolVal(isinstance(res, SeqV)))
                if not isinstance(res, SeqV):
                    return
                n = E.as_int(E.seq_len(data))
                ck.ensure('post/length', res.zlen() == n)
                i = z3.Int(fresh_name('li'))
                E.pc.append(z3.And(i >= 0, i < n))
                p.pc = list(E.pc)
                got = E.seq_elem(res, i)
                elem = E.app('getitem', [data, SV(i, 'int')])
                dof_i = None if dofcase == 'none' else (kw['dof'] if dofcase == 'scalar'
                                                       else E.app('getitem', [kw['dof'], SV(i, 'int')]))
                fv = E.find_function(NZ + callee)
                cargs = [elem] + list(args[1:])
                bound = E.bind_args(fv.node, cargs, dict(dof=dof_i, method=kw['method']), module=fv.module)
                want = E.app(NZ + callee, [bound[q] for q in bound])
                ck.ensure_eq('post/element-is-single-estimate-with-own-dof', got, want)
            ck.execute(mk, post=post, allow_raise=lambda *a: None)
            yield ck


def check_prec(run, E):
    """prec_from_*: every returned precision is inv(corresponding covariance)"""
    for fn, covfn, extra in (('prec_from_residuals', 'cov_from_residuals', []),
                             ('prec_from_measurements', 'cov_from_measurements', ['obs_desc']),
                             ('prec_from_unbalanced', 'cov_from_unbalanced', ['obs_desc'])):
        for cov_kind in ('list', '3d', '2d'):
            ck = FuncCheck(E, run, 'C14', NZ + fn, f'cov={cov_kind}')
            holder = {}

            def cov_define(E, cov_kind=cov_kind, covfn=covfn, holder=holder, **bound):
                r = E.app(NZ + covfn, [bound[q] for q in bound], tag='list' if cov_kind == 'list' else 'ndarray')
                if cov_kind == '3d':
                    r.shape = (z3.Int('n_cov'), z3.Int('p'), z3.Int('p'))
                    E.pc.append(r.shape[0] >= 0)
                elif cov_kind == '2d':
                    r.shape = (z3.Int('p'), z3.Int('p'))
                holder['cov'] = r
                return r
            from vf.pyvc.core import Contract
            E.contracts[NZ + covfn] = Contract(NZ + covfn, define=cov_define,
                                               doc='assumed here: result kind (list / 3-D / 2-D) by type case; value uninterpreted')

            def mk(E, extra=extra):
                data = E.sym_val('inputs')
                args = [data] + [E.sym_val('obs_desc', tag='scalar')] * len(extra)
                return args, dict(dof=E.sym_val('dof'), method=E.sym_val('method', tag='scalar')), []

            def post(ck, E, args, kw, p, cov_kind=cov_kind, holder=holder):
                cov = holder['cov']
                res = p.value
                if cov_kind == '2d':
                    ck.ensure_eq('post/inverse', res, E.app('numpy.linalg.inv', [cov]))
                    return
                n = E.as_int(E.seq_len(cov))
                i = z3.Int(fresh_name('pi'))
                E.pc.append(z3.And(i >= 0, i < n))
                p.pc = list(E.pc)
                want = E.app('numpy.linalg.inv', [E.app('getitem', [cov, SV(i, 'int')])])
                if cov_kind == 'list':
                    ck.ensure('post/is-list', z3.BoolVal(isinstance(res, SeqV)))
                    if isinstance(res, SeqV):
                        ck.ensure('post/length', res.zlen() == n)
                        ck.ensure_eq('post/inverse', E.seq_elem(res, i), want)
                else:
                    ck.ensure('post/is-array', z3.BoolVal(isinstance(res, ArrV)))
                    if isinstance(res, ArrV):
                        ck.ensure('post/shape', z3.And(*[a == b for a, b in zip(res.shape, cov.shape)]))
                        ck.ensure_eq('post/inverse', E.select(res, (i, None, None)), want)
            ck.execute(mk, post=post, allow_raise=lambda *a: None)
            del E.contracts[NZ + covfn]
            yield ck


def check_unbalanced_dof(run, E):
    """cov_from_unbalanced (single dataset): residuals around per-condition means; dof = n_obs - #conditions"""
    for dofcase in ('none', 'given'):
        ck = FuncCheck(E, run, 'C14', NZ + 'cov_from_unbalanced', f'single,dof={dofcase}')

        def mk(E, dofcase=dofcase):
            ds = E.sym_obj('dataset', 'Dataset')
            dof = None if dofcase == 'none' else E.sym_int('dof')
            return [ds, E.sym_val('obs_desc', tag='scalar')], dict(dof=dof, method=E.sym_val('method', tag='scalar')), []

        def post(ck, E, args, kw, p, dofcase=dofcase):
            ds, od = args
            app = getattr(p.value, 'app', None)
            ok = app is not None and app[0] == NZ + '_estimate_covariance'
            ck.ensure('post/delegates-to-estimator', z3.BoolVal(ok), structure=True)
            if not ok:
                return
            matrix, dof, method = app[1]
            n_obs = E.getattr(ds, 'measurements').shape[0]
            col = E.getitem(E.getattr(ds, 'obs_descriptors'), od)
            n_cond = E.lib['numpy.unique'](E, col).zlen()
            if dofcase == 'none':
                ck.ensure('post/dof-is-obs-minus-conditions', E.as_int(dof) == n_obs - n_cond)
            else:
                ck.ensure_eq('post/dof-forwarded', dof, kw['dof'])
            ck.ensure_eq('post/method-forwarded', method, kw['method'])
            # residual row t = row t - mean of its condition: measurements.copy() - means[inverse]
            from contracts.common import unique_inverse_model
            means = E.app('getitem', [E.app('rsatoolbox.data.computations.average_dataset_by', [ds, od]), 0])
            values, inverse = unique_inverse_model(E, col)
            want = E.binop('-', E.lib['ndarray.copy'](E, E.getattr(ds, 'measurements')), E.getitem(means, inverse))
            ck.ensure_eq('post/residuals-around-condition-means', matrix, want)
        ck.execute(mk, post=post, allow_raise=lambda E, a, k, p: z3.BoolVal(True) if p.exc.exc_name == 'AssertionError' else None)
        yield ck


# =====================================================================================================
# engine B: estimator formulas on symbolic residuals (all real values, bounded shapes)
# =====================================================================================================
def tier_b(run, thorough):
    import sympy as sp
    from vf.symrun.core import symarray, patched_np, identical, OVERRIDES_USED, witness, guard
    import rsatoolbox.data.noise as noise
    shapes = [(2, 2), (3, 2), (4, 3)] if thorough else [(2, 2), (3, 2)]
    n_eval = 0
    distinct = set()
    fails = []
    for (n, pch) in shapes:
        with guard(run, f'C14/B/symbolic-execution[{n}x{pch}]'):
            X = symarray('x', (n, pch))
            dof = sp.Symbol('dof', positive=True)
            with patched_np(['rsatoolbox.data.noise']):
                full = noise.cov_from_residuals(X.copy(), dof=dof, method='full')
                diag = noise.cov_from_residuals(X.copy(), dof=dof, method='diag')
                full_nat = noise.cov_from_residuals(X.copy(), method='full')
            Xc = X - np.mean(X, axis=0, keepdims=True)
            spec_full = np.dot(Xc.T, Xc) / dof
            spec_nat = np.dot(Xc.T, Xc) / sp.Integer(n - 1)
            for name, got, want in (('full', full, spec_full), ('diag', diag, np.diag(np.diag(spec_full))),
                                    ('full-natural-dof', full_nat, spec_nat)):
                ok, idx, diff = identical(got, want)
                n_eval += 1
                distinct.add((name, n, pch))
                nm = f'C14/_estimate_covariance/B/{name}[{n}x{pch}]'
                run.obligation(nm, 'proved' if ok else 'refuted', 'sympy-normal-form', 0.0,
                               detail=f'{name} == Xc^T Xc / dof on symbolic {n}x{pch} residuals' if ok else f'differs at {idx}: {diff}')
                if not ok:
                    fails.append((nm, name, dict(shape=[n, pch], index=str(idx), difference=str(diff))))
            # symmetry of every estimator output that is symbolic
            ok, idx, diff = identical(full, full.T)
            run.obligation(f'C14/_covariance_full/B/symmetric[{n}x{pch}]', 'proved' if ok else 'refuted', 'sympy-normal-form')
    # measurement-based vs unbalanced estimator on balanced designs (value identity given equal dof)
    from rsatoolbox.data import Dataset
    designs = [(2, 2, 2), (2, 3, 2), (3, 2, 2)] if thorough else [(2, 2, 2), (2, 3, 2)]
    for (C, R, P) in designs:
        with guard(run, f'C14/B/symbolic-execution[{C}x{R}x{P}]'):
            X = symarray('m', (C * R, P))
            labels = np.repeat(np.arange(C), R)
            ds = Dataset.__new__(Dataset)
            ds.measurements = X
            ds.n_obs, ds.n_channel = X.shape
            ds.obs_descriptors = {'cond': labels}
            ds.descriptors, ds.channel_descriptors = {}, {'index': np.arange(P)}
            dof = sp.Symbol('dof', positive=True)
            with patched_np(['rsatoolbox.data.noise', 'rsatoolbox.data.computations', 'rsatoolbox.data.dataset']):
                a = noise.cov_from_measurements(ds, 'cond', dof=dof, method='full')
                b = noise.cov_from_unbalanced(ds, 'cond', dof=dof, method='full')
            ok, idx, diff = identical(a, b)
            n_eval += 1
            distinct.add(('agree', C, R, P))
            nm = f'C14/cov_from_measurements/B/agrees-with-unbalanced-given-dof[{C}x{R}x{P}]'
            run.obligation(nm, 'proved' if ok else 'refuted', 'sympy-normal-form', 0.0,
                           detail='measurement-based == unbalanced (method full, same dof) on a symbolic balanced design')
            if not ok:
                fails.append((nm, 'agree', dict(design=[C, R, P], index=str(idx), difference=str(diff))))
    for o in sorted(OVERRIDES_USED):
        run.trust('engine B proxy override: ' + o)
    run.bounded_check('C14/B/formulas', 'B', 'all real residual values; shapes %s; balanced designs %s' % (shapes, designs),
                      n_eval, len(distinct), exhaustive=False, failures=len(fails))
    return fails


# =====================================================================================================
# tier C: numeric oracles (shrinkage, PSD, inverse, list plumbing, dof, agreement)
# =====================================================================================================
def _balanced_ds(rs, C, R, P, order='sorted'):
    from rsatoolbox.data import Dataset
    labels = np.repeat(np.arange(C), R)
    if order == 'shuffled':
        labels = labels[rs.permutation(C * R)]
    elif order == 'interleaved':
        labels = np.tile(np.arange(C)[::-1], R)
    X = rs.randn(C * R, P) + 3 * rs.randn(C, P)[labels]
    return Dataset(X, obs_descriptors={'cond': labels.tolist()}), X, labels


def _spec_cov(resid, dof):
    return resid.T @ resid / dof


@oracle('C14/estimators')
def orc_estimators(case):
    import rsatoolbox.data.noise as noise
    rs = np.random.RandomState(case['seed'])
    n, p = case['n'], case['p']
    X = rs.randn(n, p) @ (np.eye(p) + 0.5 * rs.randn(p, p))
    if case.get('squarewave'):
        X = np.sign(rs.randn(n, 1)) * np.ones((1, p)) + 1e-3 * rs.randn(n, p)
    keep = X.copy()
    dof = case.get('dof')
    Xc = X - X.mean(0, keepdims=True)
    d = (n - 1) if dof is None else dof
    S = _spec_cov(Xc, d)
    out = {}
    for m in ('full', 'diag', 'shrinkage_eye', 'shrinkage_diag'):
        out[m] = noise.cov_from_residuals(X, dof=dof, method=m)
        if not np.array_equal(X, keep):
            return f'{m}: input array was modified'
    if not close(out['full'], S, 1e-9):
        return f'full: not the residual covariance with dof={d}'
    if not close(out['diag'], np.diag(np.diag(S)), 1e-9):
        return 'diag: not the diagonal of the full estimate'
    # shrinkage_eye: convex combination of S_n (scaled) with m*I ; shrinkage_diag: off-diagonals scaled by (1-lambda)
    Sn = Xc.T @ Xc / n
    mI = np.trace(Sn) / p * np.eye(p)
    A = out['shrinkage_eye'] * d / n
    den = np.sum((Sn - mI) ** 2)
    if den > 1e-12:
        lam = np.sum((Sn - A) * (Sn - mI)) / den
        if not (-1e-9 <= lam <= 1 + 1e-9):
            return f'shrinkage_eye: shrinkage intensity {lam} outside [0,1]'
        if not close(A, lam * mI + (1 - lam) * Sn, 1e-8):
            return 'shrinkage_eye: not a convex combination of the sample covariance and the scaled identity'
    B = out['shrinkage_diag']
    if not close(np.diag(B), np.diag(S), 1e-9):
        return 'shrinkage_diag: diagonal differs from the sample variances'
    off = ~np.eye(p, dtype=bool)
    den = np.sum(S[off] ** 2)
    if den > 1e-12:
        lam = 1 - np.sum(B[off] * S[off]) / den
        if not (-1e-9 <= lam <= 1 + 1e-9):
            return f'shrinkage_diag: shrinkage intensity {lam} outside [0,1]'
        if not close(B[off], (1 - lam) * S[off], 1e-8):
            return 'shrinkage_diag: off-diagonals are not a common multiple (1-lambda) of the sample covariances'
    for m, Mx in out.items():
        if not close(Mx, Mx.T, 1e-10):
            return f'{m}: not symmetric'
        ev = np.linalg.eigvalsh((Mx + Mx.T) / 2)
        if ev.min() < -1e-8 * max(1.0, ev.max()):
            return f'{m}: not positive semi-definite (min eigenvalue {ev.min()})'
        if m.startswith('shrinkage') or n - 1 >= p:
            if np.linalg.cond(Mx) < 1e12:
                pr = noise.prec_from_residuals(X, dof=dof, method=m)
                if not close(pr @ Mx, np.eye(p), 1e-6):
                    return f'{m}: precision is not the inverse of the covariance'
    return None


@oracle('C14/dataset-estimators')
def orc_dataset(case):
    import rsatoolbox.data.noise as noise
    rs = np.random.RandomState(case['seed'])
    C, R, P = case['C'], case['R'], case['P']
    ds, X, labels = _balanced_ds(rs, C, R, P, case.get('order', 'sorted'))
    keep = X.copy()
    resid = X - np.array([X[labels == c].mean(0) for c in range(C)])[labels]
    want_dof = C * R - C
    for m in ('full', 'diag', 'shrinkage_eye', 'shrinkage_diag'):
        a = noise.cov_from_measurements(ds, 'cond', method=m)
        b = noise.cov_from_unbalanced(ds, 'cond', method=m)
        if not np.array_equal(ds.measurements, keep):
            return f'{m}: dataset measurements were modified'
        if m == 'full':
            if not close(b, _spec_cov(resid, want_dof), 1e-9):
                return f'unbalanced full: not the pooled residual covariance with dof = observations - conditions = {want_dof}'
            if not close(a, _spec_cov(resid, want_dof), 1e-9):
                ratio = float(np.trace(a) / np.trace(_spec_cov(resid, want_dof)))
                return (f'measurement-based full: not the pooled residual covariance with dof = observations - conditions = '
                        f'{want_dof} (trace ratio {ratio:.4f})')
        if not close(a, b, 1e-8):
            return f'{m}: measurement-based and unbalanced estimators disagree on a balanced design'
        if np.linalg.cond(a) < 1e10:
            pa = noise.prec_from_measurements(ds, 'cond', method=m)
            if not close(pa @ a, np.eye(P), 1e-6):
                return f'{m}: prec_from_measurements is not the inverse'
    return None


@oracle('C14/unbalanced')
def orc_unbalanced(case):
    import rsatoolbox.data.noise as noise
    from rsatoolbox.data import Dataset
    rs = np.random.RandomState(case['seed'])
    labels = np.array(case['labels'])
    P = case['P']
    names = case.get('names')
    lab = labels if names is None else np.array([names[i] for i in labels])
    X = rs.randn(len(labels), P) + 3 * rs.randn(labels.max() + 1, P)[labels]
    ds = Dataset(X.copy(), obs_descriptors={'cond': lab.tolist()})
    resid = X - np.array([X[labels == c].mean(0) for c in range(labels.max() + 1)])[labels]
    dof = len(labels) - len(set(labels.tolist()))
    got = noise.cov_from_unbalanced(ds, 'cond', method='full')
    if not close(got, _spec_cov(resid, dof), 1e-9):
        return 'unbalanced full estimate is not the covariance of the residuals around their own condition means'
    gd = noise.cov_from_unbalanced(ds, 'cond', method='diag')
    if not close(gd, np.diag(np.diag(_spec_cov(resid, dof))), 1e-9):
        return 'unbalanced diag estimate is not the diagonal of the full one'
    cv = noise.cov_from_unbalanced(ds, 'cond', method='shrinkage_diag')
    if np.all(np.isfinite(cv)) and np.linalg.cond(cv) < 1e10:
        pr = noise.prec_from_unbalanced(ds, 'cond', method='shrinkage_diag')
        if not close(pr @ cv, np.eye(P), 1e-6):
            return 'prec_from_unbalanced is not the inverse of cov_from_unbalanced'
    return None


@oracle('C14/lists')
def orc_lists(case):
    import rsatoolbox.data.noise as noise
    rs = np.random.RandomState(case['seed'])
    P = case['P']
    mats = [rs.randn(n, P) for n in case['ns']]
    dofs = case['dofs']
    m = case['method']
    if case['kind'] == 'residuals':
        dof_arg = dofs if case['dofmode'] == 'list' else (dofs[0] if case['dofmode'] == 'scalar' else None)
        got = noise.cov_from_residuals(mats, dof=dof_arg, method=m)
        if not isinstance(got, list) or len(got) != len(mats):
            return f'list input did not yield one estimate per element (got {type(got).__name__} of length {len(got)})'
        for i, X in enumerate(mats):
            d = dofs[i] if case['dofmode'] == 'list' else (dofs[0] if case['dofmode'] == 'scalar' else None)
            want = noise.cov_from_residuals(X, dof=d, method=m)
            if not (isinstance(got[i], np.ndarray) and got[i].shape == want.shape and close(got[i], want, 1e-9)):
                return f'element {i} of the list result is not the estimate of element {i} with its own dof ({d})'
        if all(np.linalg.cond(g) < 1e10 for g in got):
            pr = noise.prec_from_residuals(mats, dof=dof_arg, method=m)
            for i in range(len(mats)):
                if not close(pr[i] @ got[i], np.eye(P), 1e-6):
                    return f'precision {i} is not the inverse of covariance {i}'
    else:
        from rsatoolbox.data import Dataset
        dss = []
        for X in mats:
            lab = [i % 2 for i in range(X.shape[0])]
            dss.append(Dataset(X, obs_descriptors={'cond': lab}))
        dof_arg = dofs if case['dofmode'] == 'list' else (dofs[0] if case['dofmode'] == 'scalar' else None)
        fn = noise.cov_from_unbalanced if case['kind'] == 'unbalanced' else noise.cov_from_measurements
        got = fn(dss, 'cond', dof=dof_arg, method=m)
        if not isinstance(got, list) or len(got) != len(dss):
            return 'list of datasets did not yield one estimate per element'
        for i, d_ in enumerate(dss):
            d = dofs[i] if case['dofmode'] == 'list' else (dofs[0] if case['dofmode'] == 'scalar' else None)
            want = noise.cov_from_unbalanced(d_, 'cond', dof=d, method=m)
            if not close(got[i], want, 1e-9):
                return f'element {i} of the list result is not the estimate of dataset {i} with its own dof ({d})'
    return None


def tier_c(run, thorough):
    bds = []
    bd = Bounded(run, 'C14/estimators', 'C14/cov_from_residuals/oracle/estimators',
                 'seeded residual matrices n in 2..%d x p in 1..%d incl. more channels than samples and 2-row / square-wave inputs; '
                 'dof None / given; 4 methods' % ((12, 8) if thorough else (8, 5)), function='_estimate_covariance')
    for seed in range(4 if thorough else 2):
        for n in ([2, 3, 4, 6, 12] if thorough else [2, 3, 5, 8]):
            for p in ([1, 2, 3, 5, 8] if thorough else [1, 2, 3, 5]):
                for dof in (None, n + 2):
                    bd.check(orc_estimators, dict(seed=seed, n=n, p=p, dof=dof),
                             'single-channel' if p == 1 else ('two-rows' if n == 2 else 'generic'), function='_covariance_')
        for n in (4, 6):
            bd.check(orc_estimators, dict(seed=seed, n=n, p=3, dof=None, squarewave=True), 'squarewave', function='_covariance_diag')
    bd.done()
    bds.append(bd)
    bd = Bounded(run, 'C14/dataset-estimators', 'C14/cov_from_measurements/oracle/balanced-agreement',
                 'balanced designs C in 2..4, R in 2..4, P in 2..4, sorted / shuffled / interleaved row order, 4 methods',
                 function='cov_from_measurements')
    for seed in range(2 if thorough else 1):
        for C in (2, 3, 4):
            for R in (2, 3, 4):
                for P in ((2, 4) if thorough else (3,)):
                    for order in ('sorted', 'shuffled', 'interleaved'):
                        bd.check(orc_dataset, dict(seed=seed, C=C, R=R, P=P, order=order),
                                 'C==R' if C == R else 'C!=R', function='_check_demean' if C != R else 'cov_from_measurements')
    bd.done()
    bds.append(bd)
    bd = Bounded(run, 'C14/unbalanced', 'C14/cov_from_unbalanced/oracle/residual-covariance',
                 'all label sequences of length <= %d over <= 3 conditions (each used), int and string labels, P=2' % (6 if thorough else 5),
                 exhaustive=True, function='cov_from_unbalanced')
    for L in range(3, (7 if thorough else 6)):
        for labels in itertools.product(range(3), repeat=L):
            k = max(labels) + 1
            if set(labels) != set(range(k)) or L - k < 1:
                continue
            bd.check(orc_unbalanced, dict(seed=L, labels=list(labels), P=2), 'int-labels', function='cov_from_unbalanced')
            if L <= 4:
                bd.check(orc_unbalanced, dict(seed=L, labels=list(labels), P=2, names=['b', 'c', 'a']), 'str-labels',
                         function='cov_from_unbalanced')
    bd.done()
    bds.append(bd)
    bd = Bounded(run, 'C14/lists', 'C14/cov_from_residuals/oracle/list-plumbing',
                 'lists of 2-3 inputs of different sizes; dof None / scalar / list; residuals, measurements, unbalanced; 4 methods',
                 function='cov_from_residuals')
    for kind in ('residuals', 'measurements', 'unbalanced'):
        for dofmode in ('none', 'scalar', 'list'):
            for m in ('full', 'diag', 'shrinkage_eye', 'shrinkage_diag'):
                for ns in ([6, 8], [5, 7, 9]):
                    bd.check(orc_lists, dict(seed=1, P=3, ns=ns, dofs=[n - 2 for n in ns], kind=kind, dofmode=dofmode, method=m),
                             f'{kind},dof={dofmode}', function='cov_from_' + kind)
    bd.done()
    bds.append(bd)
    return bds


def check_shrinkage_diag(run, E):
    """_covariance_diag: the estimate is the sample covariance s times (identity + f * off-diagonal mask) with ONE factor f for
    all off-diagonal entries and 0 <= f <= 1 for ALL inputs (f = 1 - lambda, lambda clamped to [0,1]): the diagonal is the
    sample variance, off-diagonals are shrunk towards 0 and never flipped or inflated"""
    ck = FuncCheck(E, run, 'C14', 'rsatoolbox.data.noise._covariance_diag', '')

    def mk(E):
        m = E.sym_val('matrix', tag='ndarray')
        m.shape = (z3.Int('n'), z3.Int('p'))
        return [m, E.sym_int('dof')], {}, [z3.Int('n') >= 2, z3.Int('p') >= 1, z3.Int('dof') >= 1]

    def post(ck, E, args, kw, p):
        res = p.value

        def app_of(v, name, n):
            a = getattr(v, 'app', None)
            return a[1] if a is not None and a[0] == name and len(a[1]) == n else None
        top = app_of(res, 'op*', 2)
        sc = app_of(top[1], 'op+', 2) if top else None
        off = app_of(sc[1], 'op*', 2) if sc else None
        ok = off is not None and getattr(sc[0], 'app', None) and sc[0].app[0] == 'numpy.eye' \
            and getattr(off[1], 'app', None) and off[1].app[0] == 'invert'
        ck.ensure('post/estimate-is-s-times-(identity+factor*offdiagonal-mask)', z3.BoolVal(bool(ok)), structure=True,
                  note=f'result: {getattr(res, "app", None) and res.app[0]}')
        if not ok:
            return
        f = off[0]
        fz = E.as_real(f) if E.is_numeric(f) else None
        ck.ensure('post/off-diagonal-shrinkage-factor-lies-in-[0,1]', z3.BoolVal(False) if fz is None else z3.And(fz >= 0, fz <= 1))
        s_ = app_of(top[0], 'op/', 2)
        ck.ensure('post/shrunk-matrix-is-the-dof-scaled-sample-covariance', z3.BoolVal(s_ is not None) if s_ is None else
                  E.veq(s_[1], args[1]), structure=True)
    ck.execute(mk, post=post, allow_raise=lambda *a: None)
    yield ck


def run(run):
    E = new_engine(run)
    from contracts.common import install_dataset
    install_dataset(E)
    fails = []
    for gen in (check_demean, check_cov_list, check_prec, check_unbalanced_dof, check_shrinkage_diag):
        for ck in gen(run, E):
            fails += ck.failed
    finish_engine(E, run)
    bfails = tier_b(run, run.tier == 'thorough')
    bds = tier_c(run, run.tier == 'thorough')
    report_a_failures(run, fails + bfails, bds)
    run.explanation = ('engine A: dof formulas, list/dof plumbing, inverse plumbing for all inputs; engine B: full/diag formulas and '
                       'measurement-vs-unbalanced identity for all real values at small shapes; tier C: shrinkage convexity, '
                       'PSD, inverse, agreement numerically on bounded domains')


def replay(path):
    return replay_file(path)
